(* Model of the budget logic of Search.search / Search._search on top of the evaluator's counters
   (src/deephyper/hpo/_search.py: search, _search; src/deephyper/evaluator/_evaluator.py: set_maximum_num_jobs_submitted,
   num_jobs_submitted / num_jobs_gathered, _create_tasks budget test, timeout / time_left).

   A counter machine: S = jobs ever submitted (= run-function invocations), G = jobs ever gathered, offset, maxjobs, tmo.
   Nondeterminism is input: rs = how many jobs each gather('BATCH', 1) handed back (clipped to 1..in-flight, what C01 proves),
   tl = whether time_left <= 0 at each check.
   [fixed] = true: /repo HEAD after the fix of F05 (offset from the absolute gathered count; the maximum is reset by a
   non-strict call; a timeout passed to a call is cleared when the call ends).  [fixed] = false: the pinned code. *)
From Coq Require Import List ZArith Bool Arith.
Import ListNotations.
Open Scope Z_scope.

Record bst := mkB { S_ : Z; G_ : Z; offset : Z; maxjobs : Z; tmo : bool }.

Definition binit : bst := mkB 0 0 0 (-1) false.
Definition num_sub (s : bst) : Z := S_ s - offset s.
Definition num_gath (s : bst) : Z := G_ s - offset s.

Definition with_S s v := mkB v (G_ s) (offset s) (maxjobs s) (tmo s).
Definition with_G s v := mkB (S_ s) v (offset s) (maxjobs s) (tmo s).
Definition with_tmo s v := mkB (S_ s) (G_ s) (offset s) (maxjobs s) v.

(* Evaluator.set_maximum_num_jobs_submitted *)
Definition set_max (fixed : bool) (m : Z) (s : bst) : bst :=
  mkB (S_ s) (G_ s) (if fixed then G_ s else num_gath s) m (tmo s).

(* _create_tasks over a batch of k configurations: (state, MaximumJobsSpawnReached raised?) *)
Fixpoint submit (k : nat) (s : bst) : bst * bool :=
  match k with
  | O => (s, false)
  | S k' => if (0 <? maxjobs s) && (maxjobs s <=? num_sub s) then (s, true) else submit k' (with_S s (S_ s + 1))
  end.

Definition clip (x lo hi : Z) : Z := Z.max lo (Z.min x hi).

(* the while loop of _search; fuel = an upper bound on the number of iterations *)
Fixpoint loop (fuel : nat) (strict : bool) (target : Z) (n_ask : Z) (rs : list Z) (tls : list bool) (s : bst) : bst :=
  match fuel with
  | O => s
  | S f =>
    let ne := if strict then num_sub s else num_gath s in
    if (0 <=? target) && (target <=? ne) then s else      (* target < 0: max_evals = -1, no evaluation budget *)
    let (s1, raised) := submit (Z.to_nat n_ask) s in
    if raised then s1 else
    if S_ s1 - G_ s1 <=? 0 then s1 else       (* gather with nothing in flight raises; unreachable when n_ask >= 1 *)
    let r := clip (hd 1 rs) 1 (S_ s1 - G_ s1) in
    let s2 := with_G s1 (G_ s1 + r) in
    if tmo s2 && hd false tls then s2 else loop f strict target r (List.tl rs) (List.tl tls) s2
  end.

Record call := mkCall { c_n : Z; c_strict : bool; c_timeout : bool; c_rs : list Z; c_tl : list bool }.

Definition search_call (fixed : bool) (W : Z) (c : call) (s : bst) : bst :=
  let s0 := if c_strict c then set_max fixed (c_n c) s else if fixed then set_max fixed (-1) s else s in
  let s1 := if c_timeout c then with_tmo s0 true else s0 in
  let target := if c_n c <? 0 then -1 else c_n c + (if c_strict c then num_sub s1 else num_gath s1) in
  let fuel := if c_n c <? 0 then S (length (c_tl c)) else S (Z.to_nat (c_n c)) in
  let s2 := loop fuel (c_strict c) target W (c_rs c) (c_tl c) s1 in
  let s3 := with_G s2 (S_ s2) in                       (* remaining jobs are drained with gather('ALL'), then close *)
  if fixed && c_timeout c then with_tmo s3 false else s3.

Definition new_evals (fixed : bool) (W : Z) (c : call) (s : bst) : Z := S_ (search_call fixed W c s) - S_ s.
Definition run_calls (fixed : bool) (W : Z) (h : list call) : bst := fold_left (fun s c => search_call fixed W c s) h binit.
(* rows of the table returned by the call: every evaluation of every call so far *)
Definition table_rows (s : bst) : Z := G_ s.
