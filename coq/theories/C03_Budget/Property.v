(* C03 - search(max_evals) budget is honoured and accumulates over repeated calls.  Property theorems only.
   [run_calls true W h] = the state after ANY history h of earlier search() calls (budget, strict budget, timeout, with any
   gather sizes and any clock behaviour) of the repaired code. *)
From Coq Require Import List ZArith Bool Arith.
Import ListNotations.
Require Import DH.C03_Budget.Model DH.C03_Budget.Lemmas DH.C03_Budget.Lemmas2 DH.C03_Budget.Check.
Open Scope Z_scope.

Theorem C03_plain : forall W h c, 1 <= W -> 0 <= c_n c -> c_strict c = false -> c_timeout c = false ->
  c_n c <= new_evals true W c (run_calls true W h) < c_n c + W.
Proof. intros W h c HW Hn Hs Ht. exact (proj1 (plain_call W c _ (run_calls_clean W h) HW Hn Hs Ht)). Qed.
Print Assumptions C03_plain.

Theorem C03_strict : forall W h c, 1 <= W -> 0 <= c_n c -> c_strict c = true -> c_timeout c = false ->
  new_evals true W c (run_calls true W h) = c_n c.
Proof. intros W h c HW Hn Hs Ht. exact (proj1 (strict_call W c _ (run_calls_clean W h) HW Hn Hs Ht)). Qed.
Print Assumptions C03_strict.

(* history independence: every call, however it ended, leaves nothing behind (no maximum, no timeout, everything drained) *)
Theorem C03_history_independent : forall W h, Clean (run_calls true W h).
Proof. exact run_calls_clean. Qed.
Print Assumptions C03_history_independent.

(* the table returned by a call holds the evaluations of all calls so far *)
Theorem C03_table_accumulates : forall W h c,
  let s := run_calls true W h in
  table_rows (search_call true W c s) = S_ (search_call true W c s) /\ table_rows s = S_ s /\ S_ s <= S_ (search_call true W c s).
Proof. exact table_accumulates. Qed.
Print Assumptions C03_table_accumulates.

Theorem C03_oracle_model : forall W c s, Clean s -> 1 <= W -> 0 <= c_n c -> c_timeout c = false ->
  let s' := search_call true W c s in
  ok_call W (table_rows s) (mkO (c_n c) (c_strict c) false (S_ s' - S_ s) (table_rows s') (c_rs c)) = true.
Proof. exact model_ok_call. Qed.
Print Assumptions C03_oracle_model.

(* the pinned code: F05 *)
Theorem C03_prefix_third_strict_refuted : new_evals false 1 strict2 (run_calls false 1 [strict2; strict2]) = 0.
Proof. exact prefix_third_strict_call. Qed.
Print Assumptions C03_prefix_third_strict_refuted.
Theorem C03_prefix_plain_after_strict_refuted : new_evals false 1 plain2 (run_calls false 1 [strict2]) = 0.
Proof. exact prefix_plain_after_strict. Qed.
Print Assumptions C03_prefix_plain_after_strict_refuted.
Theorem C03_prefix_plain_after_timeout_refuted : new_evals false 1 plain3 (run_calls false 1 [tmo1]) = 1.
Proof. exact prefix_plain_after_timeout. Qed.
Print Assumptions C03_prefix_plain_after_timeout_refuted.

Example C03_example :
  new_evals true 3 (mkCall 5 false false [1;2;1;3] []) (run_calls true 3 [strict2; tmo1; plain2]) = 7
  /\ new_evals true 3 (mkCall 5 true false [1;2;1;3] []) (run_calls true 3 [strict2; tmo1; plain2]) = 5.
Proof. vm_compute. auto. Qed.
