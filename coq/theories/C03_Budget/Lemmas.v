From Coq Require Import List ZArith Bool Arith Lia.
Import ListNotations.
Require Import DH.C03_Budget.Model.
Open Scope Z_scope.

Lemma clip_bounds x lo hi : lo <= hi -> lo <= clip x lo hi <= hi.
Proof. unfold clip. lia. Qed.

(* ---------- submit ---------- *)
Lemma submit_nolimit : forall k s, maxjobs s <= 0 ->
  submit k s = (with_S s (S_ s + Z.of_nat k), false).
Proof.
  induction k as [|k IH]; intros s Hm; cbn [submit].
  - unfold with_S. destruct s; cbn. f_equal. f_equal. lia.
  - replace (0 <? maxjobs s) with false by (symmetry; apply Z.ltb_ge; lia). cbn [andb].
    rewrite IH by (cbn; exact Hm). unfold with_S. cbn. f_equal. f_equal. lia.
Qed.

(* with a positive maximum m and `room` submissions left: min(k, room) jobs are created; raised iff k > room *)
Lemma submit_limit : forall k s, 0 < maxjobs s -> num_sub s <= maxjobs s ->
  let room := maxjobs s - num_sub s in
  let (s', raised) := submit k s in
  G_ s' = G_ s /\ offset s' = offset s /\ maxjobs s' = maxjobs s /\ tmo s' = tmo s /\
  S_ s' = S_ s + Z.min (Z.of_nat k) room /\ (raised = true <-> room < Z.of_nat k).
Proof.
  induction k as [|k IH]; intros s Hm Hr room; cbn [submit].
  - assert (0 <= room) by (unfold room; lia). repeat split; try reflexivity; try (cbn; lia); try (intros; discriminate); try (intros R; cbn in R; lia).
  - replace (0 <? maxjobs s) with true by (symmetry; apply Z.ltb_lt; lia). cbn [andb].
    destruct (maxjobs s <=? num_sub s) eqn:E.
    + apply Z.leb_le in E. assert (room = 0) by (unfold room; lia). repeat split; try reflexivity; try lia.
    + apply Z.leb_gt in E. specialize (IH (with_S s (S_ s + 1))). cbn [maxjobs with_S] in IH.
      assert (H1 : num_sub (with_S s (S_ s + 1)) = num_sub s + 1) by (unfold num_sub; cbn; lia).
      rewrite H1 in IH. specialize (IH Hm ltac:(lia)). cbn zeta in IH.
      destruct (submit k (with_S s (S_ s + 1))) as [s' raised]. cbn [G_ offset maxjobs tmo S_ with_S] in IH.
      destruct IH as (A & B & C & D & E1 & F). unfold room. repeat split; try assumption; try lia.
      * intros R. apply F in R. lia.
      * intros R. apply F. lia.
Qed.

(* ---------- the loop of a non-strict call without a maximum and without a timeout ---------- *)
Lemma plain_loop : forall fuel s target n_ask rs tls K,
  maxjobs s <= 0 -> tmo s = false -> G_ s <= S_ s -> 1 <= n_ask -> S_ s + n_ask = K + G_ s -> 0 <= target ->
  (target - num_gath s <= Z.of_nat fuel) ->
  let s' := loop fuel false target n_ask rs tls s in
  offset s' = offset s /\ maxjobs s' = maxjobs s /\ tmo s' = false /\ G_ s' <= S_ s' /\
  (target <= num_gath s -> s' = s) /\
  (num_gath s < target -> target <= num_gath s' /\ S_ s' + 1 <= K + target + offset s).
Proof.
  induction fuel as [|f IH]; intros s target n_ask rs tls K Hm Ht Hgs Hn HK H0t Hf; cbn [loop].
  - cbn zeta. repeat split; auto; intros; lia.
  - replace (0 <=? target) with true by (symmetry; apply Z.leb_le; exact H0t). cbn [andb].
    destruct (target <=? num_gath s) eqn:E.
    + apply Z.leb_le in E. cbn zeta. repeat split; auto. intros; lia.
    + apply Z.leb_gt in E. rewrite (submit_nolimit _ s Hm). cbn [with_S S_ G_ tmo].
      rewrite Z2Nat.id by lia.
      replace (S_ s + n_ask - G_ s <=? 0) with false by (symmetry; apply Z.leb_gt; lia).
      set (r := clip (hd 1 rs) 1 (S_ s + n_ask - G_ s)).
      assert (Hr : 1 <= r <= S_ s + n_ask - G_ s) by (apply clip_bounds; lia).
      set (s2 := with_G (with_S s (S_ s + n_ask)) (G_ s + r)).
      replace (tmo s2) with false by (unfold s2; cbn; congruence). cbn [andb].
      specialize (IH s2 target r (List.tl rs) (List.tl tls) K).
      assert (Hg2 : num_gath s2 = num_gath s + r) by (unfold num_gath, s2; cbn; lia).
      cbn [maxjobs tmo G_ S_ with_G with_S] in IH. fold s2 in IH.
      specialize (IH Hm Ht ltac:(unfold s2; cbn; lia) ltac:(lia) ltac:(unfold s2; cbn; lia) H0t ltac:(lia)).
      cbn zeta in IH. destruct IH as (A & B & C & D & E1 & E2).
      assert (Ho : offset s2 = offset s) by reflexivity. assert (Hmj : maxjobs s2 = maxjobs s) by reflexivity.
      cbn zeta. split; [congruence|]. split; [congruence|]. split; [exact C|]. split; [exact D|]. split; [intros; lia|].
      intros _. destruct (Z_lt_le_dec (num_gath s2) target) as [L|L].
      * destruct (E2 L) as [X Y]. split; [exact X| lia].
      * rewrite (E1 L). split; [lia|]. unfold s2. cbn. unfold num_gath in *. cbn in *. lia.
Qed.

(* ---------- the loop of a strict call (maximum n > 0, offset = everything submitted before) ---------- *)
Lemma strict_loop : forall fuel s n n_ask rs tls,
  0 < n -> maxjobs s = n -> tmo s = false -> G_ s <= S_ s -> offset s <= G_ s -> 1 <= n_ask -> num_sub s <= n ->
  (n - num_sub s <= Z.of_nat fuel) ->
  let s' := loop fuel true n n_ask rs tls s in
  offset s' = offset s /\ maxjobs s' = n /\ tmo s' = false /\ G_ s' <= S_ s' /\ num_sub s' = n.
Proof.
  induction fuel as [|f IH]; intros s n n_ask rs tls Hn Hm Ht Hgs Hog Hk Hsub Hf; cbn [loop].
  - cbn zeta. split; [reflexivity|]. split; [assumption|]. split; [assumption|]. split; [assumption|]. lia.
  - replace (0 <=? n) with true by (symmetry; apply Z.leb_le; lia). cbn [andb]. destruct (n <=? num_sub s) eqn:E.
    + apply Z.leb_le in E. cbn zeta. split; [reflexivity|]. split; [assumption|]. split; [assumption|]. split; [assumption|]. lia.
    + apply Z.leb_gt in E.
      pose proof (submit_limit (Z.to_nat n_ask) s ltac:(lia) ltac:(lia)) as HS. cbn zeta in HS.
      destruct (submit (Z.to_nat n_ask) s) as [s1 raised]. destruct HS as (A & B & C & D & E1 & F).
      rewrite Z2Nat.id in * by lia. rewrite Hm in *.
      destruct raised.
      * destruct F as [F _]. specialize (F eq_refl). unfold num_sub in *.
        cbn zeta. split; [congruence|]. split; [congruence|]. split; [congruence|]. split; lia.
      * assert (Hle : n_ask <= n - num_sub s). { destruct (Z_lt_le_dec (n - num_sub s) n_ask) as [L|L]; [|exact L]. destruct F as [_ F]. specialize (F L). discriminate. }
        replace (S_ s1 - G_ s1 <=? 0) with false by (symmetry; apply Z.leb_gt; lia).
        set (r := clip (hd 1 rs) 1 (S_ s1 - G_ s1)).
        assert (Hr : 1 <= r <= S_ s1 - G_ s1) by (apply clip_bounds; lia).
        replace (tmo (with_G s1 (G_ s1 + r))) with false by (cbn; congruence). cbn [andb].
        specialize (IH (with_G s1 (G_ s1 + r)) n r (List.tl rs) (List.tl tls) Hn).
        cbn [maxjobs tmo G_ S_ offset with_G] in IH. unfold num_sub in *. cbn [S_ offset with_G] in IH.
        specialize (IH ltac:(congruence) ltac:(congruence) ltac:(lia) ltac:(lia) ltac:(lia) ltac:(lia) ltac:(lia)).
        cbn zeta in IH. destruct IH as (A' & B' & C' & D' & E').
        cbn zeta. split; [congruence|]. split; [assumption|]. split; [assumption|]. split; [assumption|]. lia.
Qed.

(* ---------- clean states: what every call of the repaired code leaves behind ---------- *)
Definition Clean (s : bst) : Prop := S_ s = G_ s /\ tmo s = false /\ 0 <= S_ s.

Lemma clean_init : Clean binit.
Proof. unfold Clean, binit; cbn; lia. Qed.

(* generic facts about the loop used for calls with a timeout: counters stay ordered *)
Lemma submit_mono : forall k s, let (s', _) := submit k s in
  S_ s <= S_ s' /\ G_ s' = G_ s /\ tmo s' = tmo s /\ offset s' = offset s /\ maxjobs s' = maxjobs s.
Proof.
  induction k as [|k IH]; intros s; cbn [submit]; [repeat split; lia|].
  destruct ((0 <? maxjobs s) && (maxjobs s <=? num_sub s)); [repeat split; lia|].
  specialize (IH (with_S s (S_ s + 1))). destruct (submit k (with_S s (S_ s + 1))). cbn in IH. intuition lia.
Qed.

Lemma loop_mono : forall fuel strict target n_ask rs tls s, G_ s <= S_ s ->
  let s' := loop fuel strict target n_ask rs tls s in
  S_ s <= S_ s' /\ G_ s' <= S_ s' /\ tmo s' = tmo s.
Proof.
  induction fuel as [|f IH]; intros strict target n_ask rs tls s H; cbn [loop]; [cbn zeta; split; [lia|split; [lia|reflexivity]]|].
  destruct ((0 <=? target) && (target <=? (if strict then num_sub s else num_gath s))); [cbn zeta; split; [lia|split; [lia|reflexivity]]|].
  pose proof (submit_mono (Z.to_nat n_ask) s) as HS. destruct (submit (Z.to_nat n_ask) s) as [s1 raised].
  destruct HS as (A & B & C & D & E). destruct raised; [cbn zeta; split; [lia|split; [lia|exact C]]|].
  destruct (S_ s1 - G_ s1 <=? 0) eqn:E0; [cbn zeta; split; [lia|split; [lia|exact C]]|]. apply Z.leb_gt in E0.
  set (r := clip (hd 1 rs) 1 (S_ s1 - G_ s1)).
  assert (Hr : 1 <= r <= S_ s1 - G_ s1) by (apply clip_bounds; lia).
  destruct (tmo (with_G s1 (G_ s1 + r)) && hd false tls); [cbn zeta; cbn; split; [lia|split; [lia|exact C]]|].
  specialize (IH strict target r (List.tl rs) (List.tl tls) (with_G s1 (G_ s1 + r)) ltac:(cbn; lia)).
  cbn zeta in IH. cbn [S_ tmo with_G] in IH. destruct IH as (I1 & I2 & I3).
  cbn zeta. split; [lia|split; [lia|congruence]].
Qed.
