From Coq Require Import List ZArith Bool Arith Lia.
Import ListNotations.
Require Import DH.C03_Budget.Model DH.C03_Budget.Lemmas.
Open Scope Z_scope.

Theorem plain_call W c s : Clean s -> 1 <= W -> 0 <= c_n c -> c_strict c = false -> c_timeout c = false ->
  let s' := search_call true W c s in
  c_n c <= S_ s' - S_ s < c_n c + W /\ Clean s' /\ table_rows s' = S_ s + (S_ s' - S_ s).
Proof.
  intros (Hsg & Ht & H0) HW Hn Hs Hto. unfold search_call. rewrite Hs, Hto. cbn [andb].
  set (s1 := set_max true (-1) s).
  assert (Hng : num_gath s1 = 0) by (unfold num_gath, s1; cbn; lia).
  replace (c_n c <? 0) with false by (symmetry; apply Z.ltb_ge; exact Hn).
  rewrite Hng, Z.add_0_r.
  pose proof (plain_loop (S (Z.to_nat (c_n c))) s1 (c_n c) W (c_rs c) (c_tl c) W) as L.
  specialize (L ltac:(cbn; lia) ltac:(cbn; exact Ht) ltac:(cbn; lia) HW ltac:(cbn; lia) Hn ltac:(rewrite Hng; lia)).
  cbn zeta in L. destruct L as (A & B & C & D & E1 & E2).
  set (s2 := loop (S (Z.to_nat (c_n c))) false (c_n c) W (c_rs c) (c_tl c) s1) in *.
  cbn zeta. unfold table_rows, Clean. cbn [S_ G_ tmo with_G].
  destruct (Z_lt_le_dec 0 (c_n c)) as [Lt|Le].
  - destruct (E2 ltac:(lia)) as [X Y]. unfold num_gath in X. rewrite A in X. cbn [offset s1 set_max] in X, Y.
    repeat split; try lia; try assumption.
  - assert (c_n c = 0) by lia. rewrite (E1 ltac:(lia)). cbn. repeat split; try lia; try assumption.
Qed.

Theorem strict_call W c s : Clean s -> 1 <= W -> 0 <= c_n c -> c_strict c = true -> c_timeout c = false ->
  let s' := search_call true W c s in
  S_ s' - S_ s = c_n c /\ Clean s' /\ table_rows s' = S_ s + c_n c.
Proof.
  intros (Hsg & Ht & H0) HW Hn Hs Hto. unfold search_call. rewrite Hs, Hto. cbn [andb].
  set (s1 := set_max true (c_n c) s).
  assert (Hns : num_sub s1 = 0) by (unfold num_sub, s1; cbn; lia).
  replace (c_n c <? 0) with false by (symmetry; apply Z.ltb_ge; exact Hn).
  rewrite Hns, Z.add_0_r.
  destruct (Z_lt_le_dec 0 (c_n c)) as [Lt|Le].
  - pose proof (strict_loop (S (Z.to_nat (c_n c))) s1 (c_n c) W (c_rs c) (c_tl c)) as L.
    specialize (L Lt ltac:(reflexivity) ltac:(cbn; exact Ht) ltac:(cbn; lia) ltac:(cbn; lia) HW ltac:(lia) ltac:(rewrite Hns; lia)).
    cbn zeta in L. destruct L as (A & B & C & D & E).
    set (s2 := loop (S (Z.to_nat (c_n c))) true (c_n c) W (c_rs c) (c_tl c) s1) in *.
    unfold num_sub in E. rewrite A in E. cbn [offset s1 set_max] in E.
    cbn zeta. unfold table_rows, Clean. cbn [S_ G_ tmo with_G]. repeat split; try lia; try assumption.
  - assert (E0 : c_n c = 0) by lia. rewrite E0. cbn [Z.to_nat loop]. rewrite Hns. cbn [Z.leb Z.compare].
    cbn zeta. unfold table_rows, Clean. cbn. repeat split; try lia; try assumption.
Qed.

(* whatever a call is (strict or not, with or without a timeout), it leaves a clean state: history independence *)
Theorem any_call_clean W c s : Clean s -> Clean (search_call true W c s) /\ table_rows (search_call true W c s) = S_ (search_call true W c s)
  /\ S_ s <= S_ (search_call true W c s).
Proof.
  intros (Hsg & Ht & H0). unfold search_call.
  set (s0 := if c_strict c then set_max true (c_n c) s else set_max true (-1) s).
  set (s1 := if c_timeout c then with_tmo s0 true else s0).
  assert (Hs1 : G_ s1 <= S_ s1 /\ S_ s1 = S_ s) by (unfold s1, s0; destruct (c_timeout c), (c_strict c); cbn; lia).
  match goal with |- context [loop ?f ?b ?t ?w ?r ?l s1] => pose proof (loop_mono f b t w r l s1 (proj1 Hs1)) as L; cbn zeta in L; destruct L as (A & B & C); set (s2 := loop f b t w r l s1) in * end.
  assert (Htm : tmo (if true && c_timeout c then with_tmo (with_G s2 (S_ s2)) false else with_G s2 (S_ s2)) = false).
  { cbn [andb]. destruct (c_timeout c) eqn:Et; cbn [tmo with_tmo with_G]; [reflexivity|]. rewrite C. unfold s1, s0. destruct (c_strict c); cbn; exact Ht. }
  unfold Clean, table_rows. destruct (true && c_timeout c); cbn [S_ G_ tmo with_tmo with_G] in *; repeat split; try lia; try assumption.
Qed.

Lemma run_calls_clean W h : Clean (run_calls true W h).
Proof.
  unfold run_calls. generalize clean_init. generalize binit. induction h as [|c t IH]; intros s H; cbn [fold_left]; [exact H|].
  apply IH. apply any_call_clean. exact H.
Qed.

Theorem table_accumulates W h c :
  let s := run_calls true W h in
  table_rows (search_call true W c s) = S_ (search_call true W c s) /\ table_rows s = S_ s /\ S_ s <= S_ (search_call true W c s).
Proof.
  intros s. destruct (any_call_clean W c s (run_calls_clean W h)) as (A & B & C).
  split; [exact B|]. split; [|exact C]. destruct (run_calls_clean W h) as (E & _). unfold table_rows. fold s in E. lia.
Qed.

(* ---------- the pinned code ---------- *)
Definition strict2 := mkCall 2 true false [] [].
Definition plain2 := mkCall 2 false false [] [].
Definition plain3 := mkCall 3 false false [] [true].
Definition tmo1 := mkCall (-1) false true [] [false; true].

Theorem prefix_third_strict_call : new_evals false 1 strict2 (run_calls false 1 [strict2; strict2]) = 0.
Proof. vm_compute. reflexivity. Qed.

Theorem prefix_plain_after_strict : new_evals false 1 plain2 (run_calls false 1 [strict2]) = 0.
Proof. vm_compute. reflexivity. Qed.

Theorem prefix_plain_after_timeout : new_evals false 1 plain3 (run_calls false 1 [tmo1]) = 1.
Proof. vm_compute. reflexivity. Qed.
