(* Oracle on OBSERVED sequences of search() calls, and the model's prediction for the correspondence. *)
From Coq Require Import List ZArith Bool Arith Lia.
Import ListNotations.
Require Import DH.C03_Budget.Model DH.C03_Budget.Lemmas DH.C03_Budget.Lemmas2.
Open Scope Z_scope.

(* one observed call: arguments, number of run-function invocations it caused, rows of the table it returned *)
Record ocall := mkO { o_n : Z; o_strict : bool; o_timeout : bool; o_new : Z; o_rows : Z; o_rs : list Z }.

(* the statement of the property for one call, given the rows before it *)
Definition ok_call (W prev_rows : Z) (o : ocall) : bool :=
  (o_rows o =? prev_rows + o_new o) && (0 <=? o_new o) &&
  (if o_timeout o then true
   else if o_strict o then o_new o =? o_n o
   else (o_n o <=? o_new o) && (o_new o <? o_n o + W)).

(* index of the first call violating the statement, or None *)
Fixpoint ok_history (W prev_rows : Z) (i : nat) (h : list ocall) : option nat :=
  match h with
  | [] => None
  | o :: t => if ok_call W prev_rows o then ok_history W (o_rows o) (S i) t else Some i
  end.

(* the model's prediction of the number of new evaluations of every call that has no timeout, from the observed gather
   sizes; a call with a timeout is taken as observed (its length depends on the clock) *)
Fixpoint predict (W : Z) (s : bst) (h : list ocall) : list Z :=
  match h with
  | [] => []
  | o :: t =>
    if o_timeout o then (-1) :: predict W (mkB (S_ s + o_new o) (S_ s + o_new o) (offset s) (maxjobs s) false) t
    else let s' := search_call true W (mkCall (o_n o) (o_strict o) false (o_rs o) []) s in
         (S_ s' - S_ s) :: predict W s' t
  end.

(* the model meets the statement: every call of the repaired model passes ok_call *)
Theorem model_ok_call W c s : Clean s -> 1 <= W -> 0 <= c_n c -> c_timeout c = false ->
  let s' := search_call true W c s in
  ok_call W (table_rows s) (mkO (c_n c) (c_strict c) false (S_ s' - S_ s) (table_rows s') (c_rs c)) = true.
Proof.
  intros Hc HW Hn Ht. cbn zeta. unfold ok_call. cbn [o_rows o_new o_timeout o_strict o_n].
  assert (Hr : table_rows s = S_ s) by (destruct Hc as (A & _); unfold table_rows; lia).
  destruct (c_strict c) eqn:Es.
  - destruct (strict_call W c s Hc HW Hn Es Ht) as (A & B & C). rewrite Hr, C, A.
    rewrite !Z.eqb_refl. replace (0 <=? c_n c) with true by (symmetry; apply Z.leb_le; lia). reflexivity.
  - destruct (plain_call W c s Hc HW Hn Es Ht) as (A & B & C). rewrite Hr, C.
    rewrite Z.eqb_refl. apply andb_true_iff; split; [apply Z.leb_le; lia|].
    apply andb_true_iff; split; [apply Z.leb_le; lia| apply Z.ltb_lt; lia].
Qed.
