#!/bin/bash
# MANIFEST.setup_cmd: full clean build of the Coq development, extraction and the OCaml driver (offline).
set -e
cd "$(dirname "$0")"
rm -f coq/Makefile.coq coq/Makefile.coq.conf coq/.files.stamp ocaml/dh_model ocaml/dh_model.ml ocaml/dh_model.mli
find coq -name '*.vo' -o -name '*.vok' -o -name '*.vos' -o -name '*.glob' -o -name '.*.aux' | xargs -r rm -f
PYTHONPATH=/repo/src:harness PYTHONHASHSEED=0 /venv/bin/python - <<'PY'
import sys
from vp import build
try:
    print(build.ensure_built(jobs=16, timeout=3000))
except build.BuildError as e:
    print("BUILD FAILED at", e.stage, e.target)
    print(e.log)
    sys.exit(1)
PY
