(* Line protocol:  "<fid-decimal> <data>"  ->  "<data>"
   data ::= hexint | '(' data* ')'      hexint ::= '-'? [0-9a-f]+
   Only conversion text <-> Z (binary positive) happens here; everything else is extracted Coq. *)
open Dh_model

let pos_of_hex (s : string) (i0 : int) : positive option =
  (* most significant first; returns None for zero *)
  let acc = ref None in
  for i = i0 to String.length s - 1 do
    let c = s.[i] in
    let v = if c >= '0' && c <= '9' then Char.code c - 48 else Char.code c - 87 in
    for b = 3 downto 0 do
      let bit = (v lsr b) land 1 in
      acc := (match !acc with
        | None -> if bit = 1 then Some XH else None
        | Some p -> Some (if bit = 1 then XI p else XO p))
    done
  done; !acc

let z_of_tok (s : string) : z =
  if s.[0] = '-' then (match pos_of_hex s 1 with None -> Z0 | Some p -> Zneg p)
  else (match pos_of_hex s 0 with None -> Z0 | Some p -> Zpos p)

let hex_of_pos (p : positive) : string =
  (* collect bits least significant first *)
  let bits = Buffer.create 64 in
  let rec go = function
    | XH -> Buffer.add_char bits '1'
    | XO q -> Buffer.add_char bits '0'; go q
    | XI q -> Buffer.add_char bits '1'; go q in
  go p;
  let n = Buffer.length bits in
  let nd = (n + 3) / 4 in
  let out = Bytes.make nd '0' in
  for d = 0 to nd - 1 do
    let v = ref 0 in
    for b = 0 to 3 do
      let k = d * 4 + b in
      if k < n && Buffer.nth bits k = '1' then v := !v lor (1 lsl b)
    done;
    Bytes.set out (nd - 1 - d) ("0123456789abcdef".[!v])
  done; Bytes.to_string out

let string_of_z = function
  | Z0 -> "0" | Zpos p -> hex_of_pos p | Zneg p -> "-" ^ hex_of_pos p

let rec print_data buf = function
  | I z -> Buffer.add_string buf (string_of_z z)
  | L l -> Buffer.add_char buf '(';
      List.iteri (fun i d -> if i > 0 then Buffer.add_char buf ' '; print_data buf d) l;
      Buffer.add_char buf ')'

let parse (s : string) (start : int) : data =
  let n = String.length s in
  let pos = ref start in
  let rec skip () = if !pos < n && s.[!pos] = ' ' then (incr pos; skip ()) in
  let rec item () : data =
    skip ();
    if s.[!pos] = '(' then begin
      incr pos;
      let items = ref [] in
      let rec loop () =
        skip ();
        if s.[!pos] = ')' then incr pos
        else (items := item () :: !items; loop ()) in
      loop (); L (List.rev !items)
    end else begin
      let st = !pos in
      while !pos < n && s.[!pos] <> ' ' && s.[!pos] <> ')' && s.[!pos] <> '(' do incr pos done;
      I (z_of_tok (String.sub s st (!pos - st)))
    end in
  item ()

let () =
  let buf = Buffer.create 4096 in
  try while true do
    let line = input_line stdin in
    let sp = String.index line ' ' in
    let fid = int_of_string (String.sub line 0 sp) in
    let d = parse line (sp + 1) in
    let r = dispatch (z_of_tok (Printf.sprintf "%x" fid)) d in
    Buffer.clear buf; print_data buf r;
    print_endline (Buffer.contents buf)
  done with End_of_file -> ()
