"""Child interpreters of the harness run in their own session; the whole process group is killed when the call ends (normally, by
timeout or by an exception), so that helper processes a case started (managers, pool workers) never outlive the check."""
import os
import signal
import subprocess


def run_group(cmd, timeout, **kw):
    """Like subprocess.run(cmd, capture_output=True, text=True, timeout=...) -> (returncode or None on timeout, stdout, stderr)."""
    p = subprocess.Popen(cmd, stdin=subprocess.DEVNULL, stdout=subprocess.PIPE, stderr=subprocess.PIPE, text=True, start_new_session=True, **kw)
    try:
        try:
            out, err = p.communicate(timeout=timeout)
            return p.returncode, out, err
        except subprocess.TimeoutExpired:
            return None, "", "timeout after %s s" % timeout
    finally:
        try:
            os.killpg(p.pid, signal.SIGKILL)
        except (ProcessLookupError, PermissionError):
            pass
        try:
            p.communicate(timeout=5)
        except Exception:
            pass
