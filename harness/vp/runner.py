"""Generic runner: one rule for all properties (DESIGN.md 1.3 / 1.4).

A property module (harness/vp/props/cxx.py) defines
    PROPERTY : "Cxx"
    LEVEL    : evidence level ("proof")
    FACTS    : list of SrcFacts names its proofs consume (may be empty)
    TRUSTED  : list of strings (per-property trusted base / oracles)
    streams(tier) -> list of Stream

A Stream has
    name
    gen(rng, tier) -> iterable of cases (JSON-able)              structured inputs; every random choice from rng
    check(case) -> dict(ok=bool, kind='oracle'|'corr', clause=str, sig=dict, detail=..., nontrivial=bool, desc=str|list)
                   ok=False/kind='oracle': the PROPERTY fails on the implementation's output (decided by the
                                           extracted Coq checker) ;  kind='corr': model and implementation disagree.
    shrink(case) -> iterable of smaller cases (optional)
    parallel : bool  (cases may be checked in worker processes)
    timeout  : seconds per case (watchdog)
"""
import hashlib
import importlib
import json
import multiprocessing as mp
import os
import random
import signal
import sys
import time
import traceback

from . import build, driver, findings

VERIF = build.VERIF
NCPU = int(os.environ.get("VP_NCPU", min(16, os.cpu_count() or 4)))


class Stream:
    def __init__(self, name, gen, check, shrink=None, parallel=True, timeout=60, describe=None, search_gen=None):
        self.name, self.gen, self.check, self.shrink = name, gen, check, shrink
        self.parallel, self.timeout, self.describe = parallel, timeout, describe
        self.search_gen = search_gen  # optional: gen(rng, tier, around=case) for the search-on-break step


class CaseTimeout(Exception):
    pass


def _alarm(signum, frame):
    raise CaseTimeout()


_STREAMS = {}


def _die_with_parent():
    """Linux: this process gets SIGKILL when its parent dies (a check killed from outside, e.g. by the OOM killer, must not leave
    workers behind that keep its output pipe open)."""
    try:
        import ctypes
        ctypes.CDLL("libc.so.6", use_errno=True).prctl(1, signal.SIGKILL, 0, 0, 0)  # PR_SET_PDEATHSIG
        if os.getppid() == 1:
            os._exit(0)
    except Exception:
        pass


def _worker_init(modname, tier):
    _die_with_parent()
    driver.reset_after_fork()
    mod = importlib.import_module(modname)
    for s in mod.streams(tier):
        _STREAMS[s.name] = s


def run_case(stream, case):
    """Runs one case under a watchdog; never raises."""
    t0 = time.time()
    old = signal.signal(signal.SIGALRM, _alarm)
    signal.alarm(int(stream.timeout))
    try:
        r = stream.check(case)
    except CaseTimeout:
        driver.discard()  # the model process may be one reply out of step: start a fresh one for the next case
        r = dict(ok=False, kind="oracle", clause="timeout", sig={"clause": "timeout"}, detail="no answer within %ss (watchdog)" % stream.timeout, nontrivial=True, desc="timeout")
    except Exception as e:  # harness or implementation raised where nothing should raise
        driver.discard()
        if "unknown function id" in str(e):  # the extracted driver predates this property's Entry.v (its build is broken): no verdict
            return dict(ok=True, kind="oracle", clause="", sig={}, nontrivial=False, desc="model_unavailable", wall=0.0)
        r = dict(ok=False, kind="oracle", clause="exception:" + type(e).__name__, sig={"clause": "exception", "exc": type(e).__name__}, detail=traceback.format_exc()[-3000:], nontrivial=True, desc="exception")
    finally:
        signal.alarm(0)
        signal.signal(signal.SIGALRM, old)
    r.setdefault("sig", {})
    r["sig"].setdefault("clause", r.get("clause", ""))
    r["sig"]["stream"] = stream.name
    r["wall"] = time.time() - t0
    return r


def _worker(args):
    sname, chunk = args
    return [run_case(_STREAMS[sname], case) for case in chunk]


def _parallel_results(pool, s, cases):
    """Yields one result per case, in order.  Cases are sent in chunks; a chunk whose worker does not answer within its
    watchdog budget (+ slack) is reported as timed out (the worker is abandoned), so a hung worker cannot hang the check."""
    import concurrent.futures as cf
    k = max(1, min(64, len(cases) // (NCPU * 4) or 1))
    chunks = [cases[i:i + k] for i in range(0, len(cases), k)]
    futs = [pool.submit(_worker, (s.name, ch)) for ch in chunks]
    for ch, f in zip(chunks, futs):
        try:
            for r in f.result(timeout=len(ch) * s.timeout + 60):
                yield r
        except (cf.TimeoutError, cf.process.BrokenProcessPool, Exception) as e:
            for _ in ch:
                yield dict(ok=False, kind="oracle", clause="timeout", sig={"clause": "timeout", "stream": s.name},
                           detail="worker gave no answer (%s)" % type(e).__name__, nontrivial=True, desc="worker_hang", wall=0.0)


def case_key(case):
    return hashlib.sha1(json.dumps(case, sort_keys=True, default=str).encode()).hexdigest()[:16]


def shrink_failure(stream, case, res, budget=300, deadline=120):
    """Greedy delta debugging: accept a smaller case if it fails with the same kind and clause."""
    if stream.shrink is None:
        return case, res
    t0, tries, progress = time.time(), 0, True
    while progress and tries < budget and time.time() - t0 < deadline:
        progress = False
        for smaller in stream.shrink(case):
            tries += 1
            r = run_case(stream, smaller)
            if not r["ok"] and r["kind"] == res["kind"] and r["clause"] == res["clause"]:
                case, res, progress = smaller, r, True
                break
            if tries >= budget or time.time() - t0 > deadline:
                break
    return case, res


def write_replay(pid, stream, case, res, extra=None):
    d = os.path.join(VERIF, "replays", pid)
    os.makedirs(d, exist_ok=True)
    body = dict(property=pid, stream=stream, case=case, kind=res.get("kind"), clause=res.get("clause"), sig=res.get("sig"), detail=res.get("detail"),
                replay_cmd="./check %s --replay {this file}" % pid)
    if extra:
        body.update(extra)
    path = os.path.join(d, "%s_%s.json" % (stream.replace("/", "_"), case_key([case, res.get("clause")])))
    with open(path, "w") as f:
        json.dump(body, f, indent=1, default=str)
    return path


def load_corpus(pid, stream):
    d = os.path.join(VERIF, "corpus", pid)
    out = []
    if os.path.isdir(d):
        for fn in sorted(os.listdir(d)):
            if fn.endswith(".json"):
                b = json.load(open(os.path.join(d, fn)))
                if b.get("stream") == stream:
                    out.append(b["case"])
    return out


def run_property(modname, tier, seed, replay=None):
    t0 = time.time()
    mod = importlib.import_module(modname)
    pid = mod.PROPERTY
    level = getattr(mod, "LEVEL", "proof")
    lines = []          # stdout lines (VIOLATION / KNOWN-FINDING)
    violations = []     # dicts
    known_hits = {}
    proof_break = None
    ev = dict(property_id=pid, tier=tier, seed=seed, level=level)
    cov = dict()
    if not replay:  # replay files of earlier runs of this property are stale now
        import shutil
        shutil.rmtree(os.path.join(VERIF, "replays", pid), ignore_errors=True)

    # ---- 1/2/3: facts, proofs, extraction ----
    facts_info = None
    try:
        binfo = build.ensure_built(pid=pid)
        facts_info = binfo.pop("facts", None)
        thms, assum = build.check_property_file(pid)
    except build.BuildError as e:
        proof_break = dict(stage=e.stage, target=e.target, log=e.log)
        binfo, thms, assum = {}, [], {}
        # the model may still be runnable from the last good build; if not, report right away
        if not os.path.exists(driver.BIN):
            path = write_replay(pid, "build", None, dict(kind="proof", clause=e.stage, detail=e.log), dict(broken=e.target or e.stage))
            print("VIOLATION property=%s replay=%s no-failing-input-found" % (pid, path))
            _write_evidence(ev, cov, mod, t0, 1, [], {}, {}, proof_break)
            return 1

    obs, done = build.obligations(pid, getattr(mod, "COQ_DIRS", ("Common",)))
    if proof_break:
        done = 0 if proof_break["stage"] in ("gate", "coq_makefile") else done

    # ---- 4: correspondence + oracle streams ----
    streams = mod.streams(tier)
    if replay:
        body = json.load(open(replay))
        streams = [s for s in streams if s.name == body["stream"]]
    stats = {}
    pool = None
    try:  # import the library before forking / before any watchdog alarm can interrupt a first import
        import deephyper.evaluator, deephyper.hpo, deephyper.stopper, deephyper.ensemble, deephyper.skopt  # noqa: F401
    except Exception:
        pass
    if any(s.parallel for s in streams) and not replay:
        # non-daemonic workers (a case may start child processes: managers, process pools)
        from concurrent.futures import ProcessPoolExecutor
        pool = ProcessPoolExecutor(NCPU, mp_context=mp.get_context("fork"), initializer=_worker_init, initargs=(modname, tier))
    samples = []
    try:
        for s in streams:
            st = dict(cases=0, nontrivial=0, distinct=0, hist={}, failures=0, wall_s=0.0)
            stats[s.name] = st
            ts = time.time()
            if replay:
                cases = [body["case"]]
            else:
                rng = random.Random("%s/%s/%s" % (seed, pid, s.name))
                cases = load_corpus(pid, s.name) + list(s.gen(rng, tier))
            seen, nt_seen = set(), set()
            if pool is not None and s.parallel and len(cases) > 1:
                results = _parallel_results(pool, s, cases)
            else:
                results = (run_case(s, c) for c in cases)
            fails = {}
            for c, r in zip(cases, results):
                st["cases"] += 1
                k = case_key(c)
                if k not in seen:
                    seen.add(k)
                    if r.get("nontrivial"):
                        nt_seen.add(k)
                d = r.get("desc")
                for key in (d if isinstance(d, list) else [d] if d else []):
                    st["hist"][key] = st["hist"].get(key, 0) + 1
                if len(samples) < 3 and r.get("nontrivial") and r["ok"]:
                    samples.append(dict(stream=s.name, case=_abbrev(c)))
                if not r["ok"]:
                    st["failures"] += 1
                    sigk = json.dumps(r["sig"], sort_keys=True, default=str)
                    if sigk not in fails:
                        fails[sigk] = (c, r)
            st["distinct"], st["nontrivial"] = len(seen), len(nt_seen)
            st["wall_s"] = round(time.time() - ts, 2)
            # ---- verdict per distinct failure signature ----
            reported = set()
            for sigk, (c, r) in fails.items():
                kf = findings.match(pid, r["sig"])
                if kf is not None:
                    known_hits[kf["id"]] = kf
                    continue
                c2, r2 = shrink_failure(s, c, r)
                kf = findings.match(pid, r2["sig"])
                if kf is not None:
                    known_hits[kf["id"]] = kf
                    continue
                k2 = json.dumps(r2["sig"], sort_keys=True, default=str)
                if k2 in reported:
                    continue
                reported.add(k2)
                if r2["kind"] == "oracle":
                    path = write_replay(pid, s.name, c2, r2)
                    violations.append(dict(stream=s.name, clause=r2["clause"], replay=path, found_input=True))
                else:
                    # correspondence broke, property not (yet) seen to fail: search around the disagreeing input
                    found = _search(s, c2, tier, seed, pid)
                    if found is not None:
                        c3, r3 = shrink_failure(s, *found)
                        if findings.match(pid, r3["sig"]) is not None:
                            c3, r3 = found  # shrinking drifted into a listed finding: report the unshrunk failing input
                        path = write_replay(pid, s.name, c3, r3, dict(found_after_correspondence_break=r2["clause"]))
                        violations.append(dict(stream=s.name, clause=r3["clause"], replay=path, found_input=True))
                    else:
                        path = write_replay(pid, s.name, c2, r2, dict(broken="correspondence %s/%s/%s" % (pid, s.name, r2["clause"])))
                        violations.append(dict(stream=s.name, clause=r2["clause"], replay=path, found_input=False))
    finally:
        if pool is not None:
            # workers may be stuck in a hung case or hold children: do not wait for them
            procs = list(getattr(pool, "_processes", {}).values())
            pool.shutdown(wait=False, cancel_futures=True)
            for pr in procs:
                try:
                    pr.kill()
                except Exception:
                    pass

    if proof_break and not any(v["found_input"] for v in violations):
        tgt = proof_break.get("target") or proof_break["stage"]
        path = write_replay(pid, "proof", None, dict(kind="proof", clause=proof_break["stage"], detail=proof_break["log"]),
                            dict(broken="proof obligation in %s (theorems of DH.%s)" % (tgt, os.path.basename(build.property_dir(pid)))))
        violations.append(dict(stream="proof", clause=proof_break["stage"], replay=path, found_input=False))

    chk = None
    if tier == "thorough" and not proof_break and not replay:
        chk = build.coqchk_property(pid)
        if not chk.get("ok"):
            path = write_replay(pid, "proof", None, dict(kind="proof", clause="coqchk", detail=chk), dict(broken="coqchk rejects DH.%s.Property" % os.path.basename(build.property_dir(pid))))
            violations.append(dict(stream="proof", clause="coqchk", replay=path, found_input=False))
    for kf in known_hits.values():
        print("KNOWN-FINDING: property=%s %s" % (pid, kf["text"]))
    for v in violations:
        print("VIOLATION property=%s replay=%s%s" % (pid, v["replay"], "" if v["found_input"] else " no-failing-input-found"))

    cov.update(
        obligations=len(obs), discharged=done,
        checker_cmd="make -C coq -f Makefile.coq (coqc 8.16.1, full .vo build) ; coqc theories/%s/Property.v (Print Assumptions)" % os.path.basename(build.property_dir(pid)),
        theorems=thms, print_assumptions=assum,
        correspondence=stats,
        evaluations=sum(st["cases"] for st in stats.values()),
        distinct_nontrivial=sum(st["nontrivial"] for st in stats.values()),
        rule=getattr(mod, "RULE", "cases are generated per stream from random.Random(seed/property/stream); non-trivial as defined by each stream (see correspondence.*.hist)"),
        samples=samples or [dict(note="no passing non-trivial sample recorded")],
        known_findings_hit=sorted(known_hits),
        facts=facts_info,
        build=binfo,
        coqchk=chk,
    )
    _write_evidence(ev, cov, mod, t0, len(violations), thms, assum, stats, proof_break)
    return 1 if violations else 0


def _abbrev(c, limit=600):
    s = json.dumps(c, default=str)
    return c if len(s) <= limit else s[:limit] + "...(truncated)"


def _search(stream, case, tier, seed, pid, budget=None):
    """Search-on-break: look for an input on which the PROPERTY (oracle) fails, concentrated around the case."""
    rng = random.Random("search/%s/%s/%s" % (seed, pid, stream.name))
    gens = []
    if stream.search_gen is not None:
        gens.append(stream.search_gen(rng, tier, case))
    gens.append(stream.gen(rng, "search"))
    t0 = time.time()
    for g in gens:
        for c in g:
            if time.time() - t0 > 180:
                return None
            r = run_case(stream, c)
            if not r["ok"] and r["kind"] == "oracle":
                if findings.match(pid, r["sig"]) is not None:
                    continue  # a listed finding is not an explanation of the break: keep searching
                return c, r
    return None


GLOBAL_TRUSTED = [
    "Coq 8.16.1 kernel + coqc (full .vo build); vm_compute for finite checks; no native_compute",
    "no Axiom/Parameter/Admitted in the development (grep gate on every run); Print Assumptions per theorem is in coverage.print_assumptions",
    "extraction: Require Extraction, ExtrOcamlBasic only (bool, option, unit, list, prod, sumbool, sumor mapped to OCaml; andb/orb/negb/fst/snd inlined); no Extract Constant of our own; Z/positive/nat/Q stay inductive",
    "ocaml 4.13.1 ocamlfind ocamlopt; ocaml/driver.ml (hex text <-> Z, s-expression <-> data)",
    "Python harness (harness/vp): generators, canonicalisation, float -> exact rational (float.as_integer_ratio), comparison",
    "CPython 3.12 / numpy / scipy / scikit-learn / pandas / ConfigSpace as run by /venv/bin/python with PYTHONPATH=/repo/src",
]


def _write_evidence(ev, cov, mod, t0, nviol, thms, assum, stats, proof_break):
    cov.setdefault("obligations", 0)
    cov.setdefault("discharged", 0)
    cov.setdefault("checker_cmd", "make -C coq -f Makefile.coq")
    cov["trusted_base"] = GLOBAL_TRUSTED + list(getattr(mod, "TRUSTED", []))
    cov.setdefault("evaluations", 0)
    cov.setdefault("distinct_nontrivial", 0)
    if proof_break:
        cov["proof_break"] = dict(stage=proof_break["stage"], target=proof_break.get("target"), log=proof_break["log"][-1500:])
    ev["coverage"] = cov
    ev["assumptions"] = list(getattr(mod, "ASSUMPTIONS", []))
    ev["wall_s"] = round(time.time() - t0, 2)
    ev["violations"] = nviol
    os.makedirs(os.path.join(VERIF, "evidence"), exist_ok=True)
    with open(os.path.join(VERIF, "evidence", ev["property_id"] + ".json"), "w") as f:
        json.dump(ev, f, indent=1, default=str)
