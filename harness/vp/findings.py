"""known_findings.json: committed, never written at run time (DESIGN.md 1.4)."""
import json
import os

VERIF = os.path.dirname(os.path.dirname(os.path.dirname(os.path.abspath(__file__))))
_cache = None


def load():
    global _cache
    if _cache is None:
        p = os.path.join(VERIF, "known_findings.json")
        _cache = json.load(open(p))["findings"] if os.path.exists(p) else []
    return _cache


def _eq(want, got):
    if isinstance(want, list):
        return got in want
    return want == got


def match(pid, sig):
    """An OPEN entry matches when every key of its 'match' equals the failure signature's value."""
    for f in load():
        if f["property"] != pid or f.get("status") != "open":
            continue
        if all(k in sig and _eq(v, sig[k]) for k, v in f["match"].items()):
            return f
    return None
