"""Translator: facts of /repo's current source -> coq/theories/Generated/Facts_Cxx.v, regenerated on every run.

Each property module may define  facts(repo) -> (coq_text, info)  where coq_text is the body of the generated
file (Gallina definitions built from raw strings) and info is a JSON-able echo for the evidence.  The generated
file always defines  srcfacts_ok : bool ; a module that cannot recognise the source shape must return text with
`Definition srcfacts_ok := false.` (fail closed) - helpers below.  A module whose facts() raises is treated the
same way.  Files are only rewritten when their text changes, so make stays a no-op on an unchanged tree.
"""
import glob
import importlib
import os
import traceback
import warnings

from . import build

REPO = os.environ.get("DH_REPO", "/repo")
GEN = os.path.join(build.COQ, "theories", "Generated")
HEADER = "(* GENERATED from %s by harness/vp/srcfacts.py + props/%s.py on every run - do not edit *)\nFrom Coq Require Import List ZArith Bool String.\nImport ListNotations.\nOpen Scope string_scope.\nOpen Scope Z_scope.\n\n"

_last = {}


def coq_string(s):
    return '"' + s.replace('"', '""') + '"'


def coq_list(items):
    return "[" + "; ".join(items) + "]"


def fail_closed(reason):
    return "Definition srcfacts_ok := false.\n(* %s *)\n" % reason.replace("*)", "* )")


def regenerate():
    os.makedirs(GEN, exist_ok=True)
    infos = {}
    here = os.path.join(os.path.dirname(os.path.abspath(__file__)), "props")
    for f in sorted(glob.glob(os.path.join(here, "c[0-9][0-9].py"))):
        name = os.path.basename(f)[:-3]
        src = open(f).read()
        if "def facts(" not in src:
            continue
        pid = name.upper()
        try:
            with warnings.catch_warnings():  # importing deephyper (some plug-ins do) resets the warning filters
                mod = importlib.import_module("vp.props." + name)
                text, info = mod.facts(REPO)
        except Exception:
            text, info = fail_closed("facts() raised: " + traceback.format_exc()[-800:]), {"error": traceback.format_exc()[-800:]}
        if "srcfacts_ok" not in text:
            text = "Definition srcfacts_ok := true.\n" + text
        build.write_if_changed(os.path.join(GEN, "Facts_%s.v" % pid), HEADER % (REPO, name) + text)
        infos[pid] = info
    _last.update(infos)
    return infos
