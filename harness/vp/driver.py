"""Client of the extracted OCaml model (ocaml/dh_model): line protocol, see ocaml/driver.ml.

Python value <-> data:  int/bool -> hex integer,  list/tuple -> ( ... ).  Nothing else is accepted.
"""
import os
import subprocess

VERIF = os.path.dirname(os.path.dirname(os.path.dirname(os.path.abspath(__file__))))
BIN = os.path.join(VERIF, "ocaml", "dh_model")


def enc(x, out):
    if isinstance(x, bool):
        out.append("1" if x else "0")
    elif isinstance(x, int):
        out.append(("-%x" % -x) if x < 0 else ("%x" % x))
    elif isinstance(x, (list, tuple)):
        out.append("(")
        for y in x:
            enc(y, out)
        out.append(")")
    else:
        # numpy integers / bools
        try:
            import numpy as np

            if isinstance(x, np.bool_):
                out.append("1" if bool(x) else "0")
                return
            if isinstance(x, np.integer):
                enc(int(x), out)
                return
        except ImportError:
            pass
        raise TypeError("cannot encode %r (%s) for the model" % (x, type(x)))


def encode(x):
    out = []
    enc(x, out)
    return " ".join(out)


def decode(s):
    toks = s.replace("(", " ( ").replace(")", " ) ").split()
    pos = 0

    def item():
        nonlocal pos
        t = toks[pos]
        pos += 1
        if t == "(":
            items = []
            while toks[pos] != ")":
                items.append(item())
            pos += 1
            return items
        return int(t, 16)

    return item()


class Model:
    """One persistent dh_model process."""

    def __init__(self):
        self.p = subprocess.Popen([BIN], stdin=subprocess.PIPE, stdout=subprocess.PIPE, text=True, bufsize=1)
        self.calls = 0

    def call(self, fid, arg):
        self.calls += 1
        self.p.stdin.write("%d %s\n" % (fid, encode(arg)))
        self.p.stdin.flush()
        line = self.p.stdout.readline()
        if not line:
            raise RuntimeError("dh_model died on fid=%d" % fid)
        r = decode(line)
        if r == -1:
            raise RuntimeError("dh_model: unknown function id %d" % fid)
        return r

    def close(self):
        try:
            self.p.stdin.close()
            self.p.wait(timeout=5)
        except Exception:
            self.p.kill()


_model = None


def _cleanup():
    global _model
    if _model is not None:
        _model.close()
        _model = None


def discard():
    """Kill the current model process (if any); the next model() call starts a new one."""
    global _model
    if _model is not None:
        try:
            _model.p.kill()
        except Exception:
            pass
        _model = None


import atexit

atexit.register(_cleanup)


def model():
    """Per-process singleton (worker processes create their own after fork)."""
    global _model
    if _model is None or _model.p.poll() is not None:
        _model = Model()
    return _model


def reset_after_fork():
    global _model
    _model = None
