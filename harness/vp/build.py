"""Build steps shared by all checks: SrcFacts regeneration, coq make, extraction, OCaml driver.

Everything is incremental and serialised by a lock file so that checks may run in parallel.
"""
import fcntl
import glob
import hashlib
import os
import re
import subprocess
import time

VERIF = os.path.dirname(os.path.dirname(os.path.dirname(os.path.abspath(__file__))))
COQ = os.path.join(VERIF, "coq")
OCAML = os.path.join(VERIF, "ocaml")
LOCK = os.path.join(VERIF, ".build.lock")
FORBIDDEN = re.compile(
    r"\b(Admitted|admit|Axiom|Axioms|Parameter|Parameters|Conjecture|Conjectures|Hypothesis|Hypotheses|"
    r"Admit Obligations|bypass_check|Unset Guard Checking|Unset Positivity Checking|Unset Universe Checking|"
    r"type-in-type|impredicative-set|native_compute)\b"
)


class BuildError(Exception):
    def __init__(self, stage, log, target=None):
        super().__init__("%s failed" % stage)
        self.stage, self.log, self.target = stage, log, target


def vfiles():
    fs = sorted(glob.glob(os.path.join(COQ, "theories", "*", "*.v")))
    fs.append(os.path.join(COQ, "extraction", "Dispatch.v"))
    return fs


def strip_comments(src):
    out, depth, i = [], 0, 0
    while i < len(src):
        if src.startswith("(*", i):
            depth += 1
            i += 2
        elif src.startswith("*)", i) and depth:
            depth -= 1
            i += 2
        else:
            if depth == 0:
                out.append(src[i])
            i += 1
    return "".join(out)


def gate():
    """No Admitted/Axiom/... anywhere; Hypothesis/Variable only inside sections (Variable is not used at all
    outside sections: checked as 'Variable' appearing while no Section is open)."""
    bad = []
    for f in vfiles() + [os.path.join(COQ, "extraction", "Extract.v")]:
        src = strip_comments(open(f).read())
        depth = 0
        for ln, line in enumerate(src.split("\n"), 1):
            if re.match(r"\s*Section\b", line):
                depth += 1
            if re.match(r"\s*End\b", line) and depth:
                depth -= 1
            m = FORBIDDEN.search(line)
            if m:
                if m.group(1) in ("Hypothesis", "Hypotheses") and depth > 0:
                    continue
                bad.append("%s:%d: %s" % (os.path.relpath(f, VERIF), ln, line.strip()))
            if re.search(r"\b(Variable|Variables|Context)\b", line) and depth == 0:
                bad.append("%s:%d: %s" % (os.path.relpath(f, VERIF), ln, line.strip()))
    if bad:
        raise BuildError("gate", "\n".join(bad))


def _run(cmd, cwd, timeout):
    p = subprocess.run(cmd, cwd=cwd, stdout=subprocess.PIPE, stderr=subprocess.STDOUT, text=True, timeout=timeout)
    return p.returncode, p.stdout


def ensure_built(jobs=8, timeout=1500):
    """Returns dict(make_s=..., rebuilt=[...]). Raises BuildError(stage, log, target)."""
    t0 = time.time()
    os.makedirs(os.path.join(COQ, "theories", "Generated"), exist_ok=True)
    with open(LOCK, "w") as lk:
        fcntl.flock(lk, fcntl.LOCK_EX)
        gate()
        files = [os.path.relpath(f, COQ) for f in vfiles()]
        stamp = hashlib.sha1("\n".join(files).encode()).hexdigest()
        mk = os.path.join(COQ, "Makefile.coq")
        stampf = os.path.join(COQ, ".files.stamp")
        if not os.path.exists(mk) or not os.path.exists(stampf) or open(stampf).read() != stamp:
            rc, out = _run(["coq_makefile", "-f", "_CoqProject", "-o", "Makefile.coq"] + files, COQ, 120)
            if rc != 0:
                raise BuildError("coq_makefile", out)
            open(stampf, "w").write(stamp)
        rc, out = _run(["timeout", str(timeout), "make", "-f", "Makefile.coq", "-j%d" % jobs, "-k"], COQ, timeout + 30)
        rebuilt = re.findall(r"^COQC (\S+)", out, re.M)
        if rc != 0:
            m = re.search(r'File "\./(\S+?)", line', out)
            raise BuildError("make", out[-6000:], m.group(1) if m else None)
        # extraction + driver, only when a .vo is newer than the binary
        binp = os.path.join(OCAML, "dh_model")
        newest = max(os.path.getmtime(f) for f in glob.glob(os.path.join(COQ, "theories", "*", "*.vo")) + [os.path.join(COQ, "extraction", "Dispatch.vo"), os.path.join(OCAML, "driver.ml"), os.path.join(COQ, "extraction", "Extract.v")])
        if not os.path.exists(binp) or os.path.getmtime(binp) < newest:
            rc, out = _run(["coqc", "-Q", "../coq/theories", "DH", "-Q", "../coq/extraction", "DHX", "-w", "-extraction-default-directory", "../coq/extraction/Extract.v"], OCAML, 600)
            if rc != 0:
                raise BuildError("extraction", out[-4000:])
            rc, out = _run(["ocamlfind", "ocamlopt", "-O2", "-w", "-a", "dh_model.mli", "dh_model.ml", "driver.ml", "-o", "dh_model.tmp"], OCAML, 600)
            if rc != 0:
                raise BuildError("ocaml", out[-4000:])
            os.replace(os.path.join(OCAML, "dh_model.tmp"), binp)
    return {"build_s": round(time.time() - t0, 2), "rebuilt": rebuilt}


def property_dir(pid):
    ds = glob.glob(os.path.join(COQ, "theories", pid + "_*"))
    if len(ds) != 1:
        raise BuildError("layout", "expected exactly one directory theories/%s_*, found %r" % (pid, ds))
    return ds[0]


STMT = re.compile(r"^\s*(Theorem|Lemma|Example|Corollary|Proposition|Fact|Remark)\s+([A-Za-z0-9_']+)", re.M)


def obligations(pid, extra_dirs=("Common",)):
    """(list of (file, kind, name) for the property's directory and the shared libraries it may use,
        discharged = those whose .vo exists and is newer than its .v)."""
    obs, done = [], 0
    dirs = [property_dir(pid)] + [os.path.join(COQ, "theories", d) for d in extra_dirs]
    for d in dirs:
        for f in sorted(glob.glob(os.path.join(d, "*.v"))):
            src = strip_comments(open(f).read())
            vo = f[:-2] + ".vo"
            fresh = os.path.exists(vo) and os.path.getmtime(vo) >= os.path.getmtime(f)
            for m in STMT.finditer(src):
                obs.append((os.path.relpath(f, COQ), m.group(1), m.group(2)))
                if fresh:
                    done += 1
    return obs, done


def check_property_file(pid, timeout=600):
    """Re-compile Cxx/Property.v alone (the lemma statements it closes with `exact` are re-checked against the
    compiled lemmas) and parse the Print Assumptions output.
    Returns (theorems: list of names, assumptions: {name: 'closed' | [axiom lines]}).  Raises BuildError."""
    d = property_dir(pid)
    f = os.path.join(d, "Property.v")
    src = strip_comments(open(f).read())
    names = [m.group(2) for m in STMT.finditer(src) if m.group(1) == "Theorem"]
    printed = re.findall(r"Print Assumptions\s+([A-Za-z0-9_']+)", src)
    with open(LOCK, "w") as lk:
        fcntl.flock(lk, fcntl.LOCK_EX)
        rc, out = _run(["timeout", str(timeout), "coqc", "-Q", "theories", "DH", "-Q", "extraction", "DHX", "-w", "none", os.path.relpath(f, COQ)], COQ, timeout + 30)
    if rc != 0:
        raise BuildError("property", out[-4000:], os.path.relpath(f, COQ))
    # split the output into one block per Print Assumptions, in order
    blocks = re.split(r"(?=^Closed under the global context|^Axioms:)", out, flags=re.M)
    blocks = [b for b in blocks if b.startswith("Closed") or b.startswith("Axioms:")]
    assum = {}
    for n, b in zip(printed, blocks):
        assum[n] = "closed" if b.startswith("Closed") else [l.strip() for l in b.split("\n")[1:] if l.strip()]
    missing = [n for n in names if n not in printed]
    if missing or len(blocks) != len(printed):
        raise BuildError("property", "Print Assumptions missing for %r (blocks=%d printed=%d)" % (missing, len(blocks), len(printed)), os.path.relpath(f, COQ))
    return names, assum
