"""C07 translator: fail-closed `ast` walk over the eight anchor files of property C07.

rng_sites : EVERY call whose callee (resolved through the file's imports) is a random API, whose method name is a random
            method, or which hands a `random_state=` / `seed=` / `rng=` keyword to a component, with
            (file, line, end line, enclosing function, dotted callee, classification, guard).
env_sites : reads of the environment that may differ between two processes running the same seeded search
            (iteration order of sets of strings = hash seed, hash(), id(), directory listings, clocks, pid, uuid, urandom),
            with the flow of the value (LogOnly / PathOnly / Flows).

Classification rule (principled; anything else -> fail closed with the node printed):
  generator expression ("gen")  := self.<a> with <a> an rng attribute (an attribute some anchor class assigns from a generator
                                   constructor or from its `random_state` parameter) | a parameter named random_state / rng / seed |
                                   a local name all of whose assignments are gen | a generator constructor call
  seed value ("val")            := a method call on / subscript of / arithmetic over gen or val | a local all of whose assignments are val |
                                   an int / float / str constant
  ConfigSpace generator ("cs")  := <cs-root>.random, where cs-root := path ending in .config_space or ._problem.space | local alias of one
  Seeded     : method call on gen                       | random method with an argument (positional or random_state=/seed=/rng=) that is gen/val
  Global     : numpy.random.<draw> / random.<draw> at module level (the process-global generators); scipy `.rvs(` without random_state;
               `.seed(x)` with x not gen/val
  CtorSeeded : RandomState / default_rng / check_random_state / random.Random ... with a gen/val argument
  CtorFresh  : the same with no argument or None (OS entropy, or numpy's global generator for check_random_state(None))
  Dist       : scipy.stats distribution constructor (frozen distribution object; draws nothing)
  CS         : draw from ConfigSpace's own generator (sample_configuration on a cs-root; random_state=<cs>)
  CSSeed     : <cs-root>.seed(x) with x gen/val  (ConfigSpace reseeded from the seeded stream)
  Ext        : draw from another component's private generator (model_sdv.sample) - not known to be seeded
  Pass       : random_state=/seed=/rng= keyword with a gen/val value handed to a component (estimator, sampler, copy, dict of kwargs)
  PassFresh  : the same keyword with None - or OMITTED where it is owed (hand-over obligation, below)

Hand-over obligations.  Every function / method / class of the anchors that takes a parameter named random_state / rng / seed
(table `defs`: Optimizer, Optimizer.copy, Space.rvs, gaussian_mes, Search.__init__, the MoScalarFunction classes, ...) OWES its callers
that parameter: a call inside the anchors that resolves to one of them -  Name(...), module.Name(...), self.m(...), super().__init__(...),
<optimizer-valued expression>.copy(...), <x>.m(...) for a method name that only such methods carry, delayed(f)(...) - must supply it
(keyword, or the positional slot of the definition) with a gen/val value: Pass.  A call that omits it, or passes None, lets the callee
fall back to check_random_state(None) = numpy's GLOBAL generator: PassFresh.  **kwargs is accepted only for self._opt_kwargs (whose
dict(...) literal is itself a listed Pass site); any other shape fails closed.
Library callables.  A callee that resolves through the imports of the file to an importable object (scikit-learn, scipy, ConfigSpace,
deephyper modules outside the anchors) whose SIGNATURE has a random_state / seed / rng parameter owes it in the same way (inspect.signature
on the imported object): omitted or None = PassFresh.  scipy.stats objects with such a parameter (qmc engines, ...) are generator
constructors (CtorSeeded / CtorFresh), the others are Dist.  Method names that only random-state-taking methods of the deephyper package
carry (generate, ...) owe it on every receiver.  A reference to an obligation callable that is not in call position (handed to scipy's
fmin_l_bfgs_b, stored, ...) is only accepted in the shape  g(f, x, args=(...))  with the random-state slot of f filled by a gen/val element of
args; any other escape fails closed.

Guarded draws.  A site that consumes or advances a seeded stream (Seeded, CS, CSSeed, CtorSeeded, Pass) and whose execution is CONDITIONAL on
ambient state of the process - the logging configuration (logging.* / logger.* calls in a test), warnings filters, os.environ / os.getenv,
os.getcwd, sys.flags / sys.argv / sys.warnoptions / sys.gettrace / isatty, __debug__, clocks and the other environment reads, a verbosity
attribute or parameter (`verbose`) - is classified Guarded: the position of the stream, hence every later proposal, depends on that
state and not on the seed alone.  Conditional = inside an if / while / conditional expression with such a test, after an early exit
(`if <ambient>: return / raise / continue / break`) in an enclosing block, or inside a function of the anchors that is only called under
such a condition (propagated through self.m(...) / f(...) calls).

Generators under Parallel.  Tasks built with delayed(f)(...) inside Parallel(...)(...) may run concurrently: a generator expression handed to
a task (anywhere in its arguments) must be a PER-TASK generator, i.e. a constructor call written in the task's argument list
(np.random.RandomState(child_seed)), or a child seed.  A shared generator (self.rng, a local rng) handed to the tasks of a
Parallel(require="sharedmem") / threading pool is classified PassShared: the thread schedule decides which task gets which slice of the stream.
Without shared memory the tasks receive pickled copies (or run sequentially for n_jobs=1): Pass.  Parallel(...)(x) with x not a
comprehension of delayed calls fails closed.

Host facts (environment kind Host): os.cpu_count, os.sched_getaffinity, multiprocessing / joblib cpu_count, joblib.effective_n_jobs, ... read how
many CPUs THIS process may use.  The value may only become a degree of parallelism: written directly as a keyword n_jobs= / max_workers= /
num_workers= / n_workers= / processes= / n_threads= of a call, or assigned to a local all of whose uses are such keywords (flow
Parallelism, benign) or log messages.  Anything else - a number of restarts, candidates, draws, a seed, a comparison - is Flows: two
processes with different CPU allowances compute different things from the same seed.

State shared with the caller (environment kind SharedState).  The attributes through which ConfigSpace generators are reached
(self._problem, self.space, self.config_space: the first attribute of every cs-root) hold objects that carry RNG state.  Every assignment
self.<attr> = <value> to one of them is listed: value copy.deepcopy(<parameter>) = Owned (benign); any other value that involves a
parameter of the function (the parameter itself, copy.copy(parameter), a wrapper built from it) = Flows: the object is shared with whoever
passed it, so another search built from the same object draws from / reseeds the same generator; other shapes fail closed.
  optimizer-valued := self inside a class that defines copy(random_state) | a call of such a class | <optimizer-valued>.copy(...) |
                      a local all of whose assignments are optimizer-valued | an attribute an anchor assigns an optimizer-valued expression to
"""
import ast
import os

ANCHORS = [
    "hpo/_search.py", "hpo/_cbo.py", "hpo/_random.py", "hpo/_regevo.py", "skopt/optimizer/optimizer.py",
    "skopt/space/space.py", "skopt/acquisition.py", "skopt/moo/_multiobjective.py",
]
CLASSES = ["Seeded", "Global", "CtorSeeded", "CtorFresh", "Dist", "CS", "CSSeed", "Ext", "Pass", "PassFresh", "PassShared", "Guarded"]
ENV_KINDS = ["SetOrder", "Hash", "Id", "Listing", "Clock", "Pid", "Entropy", "SharedState", "Host"]
FLOWS = ["LogOnly", "PathOnly", "Flows", "Owned", "Parallelism"]

RNG_METHODS = {
    "rvs", "randint", "rand", "randn", "random", "random_sample", "ranf", "sample", "choice", "choices", "shuffle", "permutation", "permuted",
    "multinomial", "exponential", "uniform", "normal", "standard_normal", "lognormal", "beta", "gamma", "dirichlet", "integers",
    "binomial", "poisson", "triangular", "randrange", "gauss", "betavariate", "bytes", "sample_configuration", "sample_value",
    "resample", "seed", "get_state", "set_state", "getstate", "setstate", "bit_generator", "spawn",
}
CTOR_NAMES = {
    "numpy.random.RandomState", "numpy.random.default_rng", "numpy.random.Generator", "numpy.random.SeedSequence", "numpy.random.PCG64",
    "numpy.random.MT19937", "numpy.random.mtrand.RandomState", "random.Random", "random.SystemRandom",
    "sklearn.utils.check_random_state", "sklearn.utils.validation.check_random_state",
}
SEED_KW = {"random_state", "seed", "rng"}
SEED_TESTS_PY = {"type(random_state)isint", "type(random_state)==int"}
SEED_TESTS_ANY = {"isinstance(random_state,numbers.Integral)", "isinstance(random_state,(int,np.integer))", "isinstance(random_state,(int,numpy.integer))",
                  "isinstance(random_state,numbers.Integral)andnotisinstance(random_state,bool)",
                  "isinstance(random_state,(int,np.integer))andnotisinstance(random_state,bool)"}
GENERIC_METHODS = {"copy", "__init__", "fit", "get", "update", "run"}   # names that also belong to dicts / arrays / estimators: resolved through the receiver only
GEN_PARAMS = {"random_state", "rng", "seed"}
ENV_CALLS = {
    "hash": "Hash", "id": "Id",
    "os.listdir": "Listing", "os.scandir": "Listing", "os.walk": "Listing", "glob.glob": "Listing", "glob.iglob": "Listing",
    "pathlib.Path.iterdir": "Listing", "pathlib.Path.glob": "Listing",
    "time.time": "Clock", "time.time_ns": "Clock", "time.perf_counter": "Clock", "time.monotonic": "Clock", "time.strftime": "Clock",
    "time.localtime": "Clock", "time.gmtime": "Clock", "time.ctime": "Clock", "time.process_time": "Clock",
    "datetime.datetime.now": "Clock", "datetime.datetime.utcnow": "Clock", "datetime.datetime.today": "Clock", "datetime.date.today": "Clock",
    "os.getpid": "Pid", "os.getppid": "Pid", "threading.get_ident": "Pid", "socket.gethostname": "Pid",
    # facts of the host / of the allowance of the process (affinity mask, cgroup quota, machine): they may only decide HOW MUCH runs in parallel
    "os.cpu_count": "Host", "os.process_cpu_count": "Host", "os.sched_getaffinity": "Host", "multiprocessing.cpu_count": "Host", "joblib.cpu_count": "Host",
    "joblib.effective_n_jobs": "Host", "joblib.parallel.effective_n_jobs": "Host", "sklearn.utils.parallel.effective_n_jobs": "Host",
    "psutil.cpu_count": "Host", "psutil.virtual_memory": "Host", "os.getloadavg": "Host", "shutil.disk_usage": "Host", "resource.getrlimit": "Host",
    "loky.cpu_count": "Host", "torch.get_num_threads": "Host", "threadpoolctl.threadpool_info": "Host",
    "os.urandom": "Entropy", "uuid.uuid1": "Entropy", "uuid.uuid4": "Entropy", "secrets.token_hex": "Entropy", "secrets.token_bytes": "Entropy",
    "secrets.randbits": "Entropy",
}
ORDER_FREE_CONSUMERS = {"sorted", "len", "set", "frozenset", "any", "all", "min", "max", "sum", "isinstance", "bool"}


class Closed(Exception):
    """Unrecognised source shape: the translator fails closed."""


def dotted(f):
    parts = []
    while True:
        if isinstance(f, ast.Attribute):
            parts.append(f.attr)
            f = f.value
        elif isinstance(f, ast.Name):
            parts.append(f.id)
            break
        elif isinstance(f, ast.Call):
            parts.append(dotted(f.func) + "()")
            break
        elif isinstance(f, ast.Subscript):
            parts.append(dotted(f.value) + "[]")
            break
        else:
            parts.append("<%s>" % type(f).__name__)
            break
    return ".".join(reversed(parts))


def set_returning_methods():
    """Names of ConfigurationSpace methods whose return annotation is a set (iteration order of a set of str depends on the hash seed)."""
    out = set()
    try:
        import ConfigSpace

        for name, obj in vars(ConfigSpace.ConfigurationSpace).items():
            ann = getattr(obj, "__annotations__", None) or getattr(getattr(obj, "fget", None), "__annotations__", None) or {}
            r = ann.get("return")
            r = r if isinstance(r, str) else getattr(r, "__name__", str(r))
            if r and (r.startswith("set") or r.startswith("Set") or r.startswith("frozenset") or r.startswith("AbstractSet")):
                out.add(name)
    except Exception:
        pass
    return out


class FileWalk:
    def __init__(self, rel, src, rng_attrs, set_methods, defs=None, opt_attrs=None):
        self.rel, self.rng_attrs, self.set_methods = rel, rng_attrs, set_methods
        self.defs, self.opt_attrs = defs or {"func": {}, "cls": {}, "meth": {}, "bases": {}}, opt_attrs or set()
        self.tree = ast.parse(src, filename=rel)
        self.parent = {}
        for n in ast.walk(self.tree):
            for c in ast.iter_child_nodes(n):
                self.parent[c] = n
        self.alias = {}
        for n in ast.walk(self.tree):
            if isinstance(n, ast.Import):
                for a in n.names:
                    if a.asname:
                        self.alias[a.asname] = a.name
                    else:
                        self.alias[a.name.split(".")[0]] = a.name.split(".")[0]
            elif isinstance(n, ast.ImportFrom):
                mod = ("." * n.level) + (n.module or "")
                for a in n.names:
                    self.alias[a.asname or a.name] = mod + "." + a.name
        self.rng_sites, self.env_sites = [], []

    # ---------- scopes ----------
    def scope_of(self, node):
        """(qualified name of the enclosing function ('<module>' / 'Class.<body>'), the outermost FunctionDef node or None)"""
        names, fn = [], None
        n = node
        while n in self.parent:
            n = self.parent[n]
            if isinstance(n, (ast.FunctionDef, ast.AsyncFunctionDef)):
                names.append(n.name)
                fn = n
            elif isinstance(n, ast.Lambda):
                names.append("<lambda>")
            elif isinstance(n, ast.ClassDef):
                names.append(n.name)
        return (".".join(reversed(names)) or "<module>"), fn

    def inner_function(self, node):
        n = node
        while n in self.parent:
            n = self.parent[n]
            if isinstance(n, (ast.FunctionDef, ast.AsyncFunctionDef)):
                return n
        return None

    def guard_of(self, node):
        """Outermost enclosing `if` of the innermost function: 'if:<test>' / 'else:<test>' / ''."""
        fn = self.inner_function(node)
        g, n = "", node
        while n in self.parent and n is not fn:
            p = self.parent[n]
            if isinstance(p, ast.If) and n is not p.test:
                # an elif chain is If-in-orelse: report the head of the chain
                branch = "if" if any(n is b for b in p.body) else "else"
                head = p
                while head in self.parent and isinstance(self.parent[head], ast.If) and any(head is b for b in self.parent[head].orelse) and len(self.parent[head].orelse) == 1:
                    head = self.parent[head]
                    branch = "else"
                test = ast.unparse(head.test)
                if test.replace(" ", "") in SEED_TESTS_PY | SEED_TESTS_ANY:
                    test = "<seed test>"   # every recognised spelling of "random_state is an integer" (fact seed_test_accepts_numpy_int says which)
                g = "%s:%s" % (branch, test)
                n = head
                continue
            n = p
        return g

    # ---------- name resolution ----------
    def fq(self, d):
        """Dotted callee with its root resolved through the imports of the file (np.random.x -> numpy.random.x)."""
        root, _, rest = d.partition(".")
        if root in self.alias:
            return self.alias[root] + ("." + rest if rest else "")
        return None

    def params_of(self, fn):
        a = fn.args
        return {x.arg for x in a.posonlyargs + a.args + a.kwonlyargs} | ({a.vararg.arg} if a.vararg else set()) | ({a.kwarg.arg} if a.kwarg else set())

    def local_assignments(self, fn, name):
        out = []
        for n in ast.walk(fn):
            if isinstance(n, ast.Assign):
                for t in n.targets:
                    if isinstance(t, ast.Name) and t.id == name:
                        out.append(n.value)
                    elif isinstance(t, (ast.Tuple, ast.List)) and any(isinstance(e, ast.Name) and e.id == name for e in ast.walk(t)):
                        out.append(None)
            elif isinstance(n, (ast.AugAssign, ast.AnnAssign)) and isinstance(n.target, ast.Name) and n.target.id == name:
                out.append(n.value)
            elif isinstance(n, (ast.For, ast.AsyncFor, ast.comprehension)) and any(isinstance(e, ast.Name) and e.id == name for e in ast.walk(n.target)):
                out.append(("iter", n.iter))
            elif isinstance(n, ast.NamedExpr) and n.target.id == name:
                out.append(n.value)
            elif isinstance(n, (ast.With, ast.AsyncWith)):
                for it in n.items:
                    if it.optional_vars is not None and any(isinstance(e, ast.Name) and e.id == name for e in ast.walk(it.optional_vars)):
                        out.append(None)
        return out

    def is_cs_root(self, e, fn, depth=0):
        if depth > 4:
            return False
        if isinstance(e, ast.Attribute):
            d = dotted(e)
            return d.endswith(".config_space") or d.endswith("._problem.space")
        if isinstance(e, ast.Name) and fn is not None and e.id not in self.params_of(fn):
            vals = self.local_assignments(fn, e.id)
            return bool(vals) and all(isinstance(v, ast.AST) and self.is_cs_root(v, fn, depth + 1) for v in vals)
        return False

    def kind(self, e, fn, depth=0):
        """gen | val | cs | none | global | env | None(unknown)"""
        if depth > 6 or e is None:
            return None
        if isinstance(e, ast.Constant):
            return "none" if e.value is None else ("val" if isinstance(e.value, (int, float, str)) and not isinstance(e.value, bool) else None)
        if isinstance(e, ast.Name):
            if fn is not None:
                if e.id in self.params_of(fn):
                    return "gen" if e.id in GEN_PARAMS else None
                vals = self.local_assignments(fn, e.id)
                if vals:
                    ks = set()
                    for v in vals:
                        if isinstance(v, tuple):  # loop variable: element of an iterable
                            ks.add(self.kind(v[1], fn, depth + 1))
                        else:
                            ks.add(self.kind(v, fn, depth + 1) if isinstance(v, ast.AST) else None)
                    return ks.pop() if len(ks) == 1 else None
            return None
        if isinstance(e, ast.Attribute):
            if isinstance(e.value, ast.Name) and e.value.id == "self" and e.attr in self.rng_attrs:
                return "gen"
            if e.attr == "random" and self.is_cs_root(e.value, fn):
                return "cs"
            k = self.kind(e.value, fn, depth + 1)
            return "val" if k in ("gen", "val") else k if k in ("global", "env") else None
        if isinstance(e, ast.Subscript):
            k = self.kind(e.value, fn, depth + 1)
            return "val" if k in ("gen", "val") else k if k in ("global", "env") else None
        if isinstance(e, ast.Call):
            d = dotted(e.func)
            f = self.fq(d)
            if f in CTOR_NAMES:
                ks = [self.kind(a, fn, depth + 1) for a in e.args] + [self.kind(k.value, fn, depth + 1) for k in e.keywords]
                return "gen" if ks and all(k in ("gen", "val") for k in ks) else "none" if all(k == "none" for k in ks) else None
            if f and (f.startswith("numpy.random.") or f.startswith("random.")):
                return "global"
            if d in ENV_CALLS or (f in ENV_CALLS):
                return "env"
            if isinstance(e.func, ast.Attribute):
                k = self.kind(e.func.value, fn, depth + 1)
                if k in ("gen", "val"):
                    return "val"
                if k in ("global", "env"):
                    return k
                # self.<helper>() : a method of the same class all of whose return values are gen / val (e.g. a helper that draws a child seed)
                if isinstance(e.func.value, ast.Name) and e.func.value.id == "self" and fn is not None:
                    cls = fn
                    while cls in self.parent and not isinstance(cls, ast.ClassDef):
                        cls = self.parent[cls]
                    if isinstance(cls, ast.ClassDef):
                        for mth in cls.body:
                            if isinstance(mth, (ast.FunctionDef, ast.AsyncFunctionDef)) and mth.name == e.func.attr:
                                rets = [r.value for r in ast.walk(mth) if isinstance(r, ast.Return)]
                                ks = {self.kind(r, mth, depth + 1) for r in rets}
                                if rets and ks <= {"gen", "val"}:
                                    return "val"
            if d in ("int", "float", "abs", "min", "max", "str", "round") and e.args:
                ks = {self.kind(a, fn, depth + 1) for a in e.args}
                return "val" if ks <= {"val", "gen"} else "env" if "env" in ks else "global" if "global" in ks else None
            return None
        if isinstance(e, ast.BinOp):
            ks = {self.kind(e.left, fn, depth + 1), self.kind(e.right, fn, depth + 1)}
            if "env" in ks:
                return "env"
            if "global" in ks:
                return "global"
            return "val" if ks <= {"val", "gen"} else None
        if isinstance(e, ast.UnaryOp):
            return self.kind(e.operand, fn, depth + 1)
        return None

    # ---------- hand-over obligations ----------
    def enclosing_class(self, node):
        n = node
        while n in self.parent:
            n = self.parent[n]
            if isinstance(n, ast.ClassDef):
                return n.name
        return None

    def class_defines(self, cls, meth, seen=()):
        """Definition record of method `meth` of anchor class `cls` or of its anchor bases (only methods that take a random state)."""
        if cls is None or cls in seen:
            return None
        r = self.defs["meth"].get((cls, meth))
        if r is not None:
            return r
        for b in self.defs["bases"].get(cls, ()):
            r = self.class_defines(b, meth, seen + (cls,))
            if r is not None:
                return r
        return None

    def optimizer_valued(self, e, fn, depth=0):
        if depth > 4 or e is None:
            return False
        if isinstance(e, ast.Name):
            if e.id == "self":
                return self.class_defines(self.enclosing_class(e), "copy") is not None
            if fn is not None and e.id not in self.params_of(fn):
                vals = self.local_assignments(fn, e.id)
                return bool(vals) and all(isinstance(v, ast.AST) and self.optimizer_valued(v, fn, depth + 1) for v in vals)
            return False
        if isinstance(e, ast.Attribute):
            return isinstance(e.value, ast.Name) and e.value.id == "self" and e.attr in self.opt_attrs
        if isinstance(e, ast.Call):
            d = dotted(e.func)
            last = d.split(".")[-1]
            if last in self.defs["cls"] and ("copy" in {m for (c0, m) in self.defs["meth"] if c0 == last}):
                return True
            if isinstance(e.func, ast.Attribute) and last == "copy":
                return self.optimizer_valued(e.func.value, fn, depth + 1)
        return False

    def handed_to_seeded(self, c, fn, busy):
        """The call is the value of an assignment to a local whose every use is an argument of a call that owes a random state and is handed a
        seeded one (e.g. GradientBoostingRegressor(...) wrapped by GradientBoostingQuantileRegressor(base_estimator=..., random_state=...))."""
        p = self.parent.get(c)
        if not (fn is not None and isinstance(p, ast.Assign) and len(p.targets) == 1 and isinstance(p.targets[0], ast.Name)) or id(c) in busy:
            return False
        busy = busy | {id(c)}
        name = p.targets[0].id
        uses = [n for n in ast.walk(fn) if isinstance(n, ast.Name) and n.id == name and isinstance(n.ctx, ast.Load)]
        if not uses:
            return False
        for u in uses:
            q = self.parent.get(u)
            call = q if isinstance(q, ast.Call) else self.parent.get(q) if isinstance(q, ast.keyword) else None
            if not (isinstance(call, ast.Call) and call is not c and (u in call.args or any(k.value is u for k in call.keywords))):
                return False
            try:
                if self.resolve_obligation(call, fn) is None or self.classify_call(call) != "Pass":
                    return False
            except Closed:
                return False
        return True

    def seeded_kwargs_dict(self, x, fn):
        """**d with d a local of this function: every assignment of d is a dict(...) call that carries a seeded random_state / seed / rng keyword
        (each of them is a listed Pass site) or an empty dict literal, and at least one carries it (flow-insensitive)."""
        if not (isinstance(x, ast.Name) and fn is not None and x.id not in self.params_of(fn)):
            return False
        vals = self.local_assignments(fn, x.id)
        seeded = 0
        for v in vals:
            if isinstance(v, ast.Call) and dotted(v.func) == "dict" and not v.args:
                ks = {k.arg: self.kind(k.value, fn) for k in v.keywords if k.arg in SEED_KW}
                if ks and all(q in ("gen", "val") for q in ks.values()):
                    seeded += 1
                    continue
                return False
            if isinstance(v, ast.Dict) and not v.keys:
                continue
            return False
        return seeded > 0

    def shadowed(self, name, fn):
        return fn is not None and (name in self.params_of(fn) or bool(self.local_assignments(fn, name)))

    def resolve_obligation(self, c, fn):
        """-> {'pos': positional slot of the random-state parameter or None, 'what': str}  if the call resolves to a definition of the anchors
        that takes random_state / rng / seed; None otherwise."""
        f = c.func
        if isinstance(f, ast.Call) and dotted(f.func).split(".")[-1] == "delayed" and len(f.args) == 1 and isinstance(f.args[0], ast.Name):
            return self.defs["func"].get(f.args[0].id)          # delayed(g)(...)
        if isinstance(f, ast.Subscript):                         # table of classes: moo_functions[name](...)
            if dotted(f.value).split(".")[-1] in self.defs.get("class_tables", ()):
                return {"pos": None, "what": dotted(f.value)}
            return None
        if isinstance(f, ast.Name):
            if self.shadowed(f.id, fn):
                return None
            r = self.defs["cls"].get(f.id) or self.defs["func"].get(f.id)
            if r is not None:
                return r
        if isinstance(f, ast.Attribute):
            recv, m = f.value, f.attr
            if isinstance(recv, ast.Call) and dotted(recv.func) == "super":
                cls = self.enclosing_class(c)
                for b in self.defs["bases"].get(cls, ()):
                    r = self.class_defines(b, m)
                    if r is not None:
                        return r
                    if m == "__init__" and b in self.defs["cls"]:
                        return self.defs["cls"][b]
                return None
            if isinstance(recv, ast.Name) and recv.id == "self":
                return self.class_defines(self.enclosing_class(c), m)
            root = dotted(recv).split(".")[0]
            if root in self.alias and not self.shadowed(root, fn):   # module.Class(...) / module.function(...)
                if m in self.defs["cls"] or m in self.defs["func"]:
                    return self.defs["cls"].get(m) or self.defs["func"].get(m)
            if m in GENERIC_METHODS:
                if m == "copy" and self.optimizer_valued(recv, fn):
                    for (c0, m0), r in self.defs["meth"].items():
                        if m0 == "copy":
                            return r
                return None
            cands = [r for (c0, m0), r in self.defs["meth"].items() if m0 == m]
            if cands and m not in RNG_METHODS:
                return cands[0]
            if m in self.defs.get("pkg_methods", {}) and m not in RNG_METHODS:
                return self.defs["pkg_methods"][m]
        # a library callable reached through the imports of the file whose signature takes a random state
        d = dotted(f)
        if "(" not in d and "[" not in d and "<" not in d and not self.shadowed(d.split(".")[0], fn):
            fq = self.fq(d)
            if fq and fq not in CTOR_NAMES and not fq.startswith(("numpy.random", "random.", "scipy.stats.")):
                return self.library_signature(fq)
        return None

    _libcache = {}

    def is_distribution_class(self, fq):
        """scipy.stats distribution classes (rv_discrete, rv_continuous, rv_histogram): their `seed` is only the default of .rvs(), and every
        .rvs( site is judged on its own (Global without random_state=)."""
        try:
            import scipy.stats
            from scipy.stats._distn_infrastructure import rv_generic

            obj = scipy.stats
            for a in fq.split(".")[2:]:
                obj = getattr(obj, a)
            return isinstance(obj, type) and issubclass(obj, rv_generic)
        except Exception:
            return False

    def library_signature(self, fq):
        """{'pos', 'what'} if the importable object fq takes random_state / seed / rng, else None (also when it cannot be imported / inspected)."""
        import importlib
        import inspect

        if fq.startswith("."):   # relative import: resolve against the package of the file
            pkg = ["deephyper"] + self.rel.split("/")[:-1]
            up = len(fq) - len(fq.lstrip("."))
            fq = ".".join(pkg[:len(pkg) - (up - 1)] + [fq.lstrip(".")])
        if fq in FileWalk._libcache:
            return FileWalk._libcache[fq]
        res = None
        parts = fq.split(".")
        obj = None
        for i in range(len(parts), 0, -1):
            try:
                obj = importlib.import_module(".".join(parts[:i]))
                for a in parts[i:]:
                    obj = getattr(obj, a)
                break
            except Exception:
                obj = None
        if obj is not None and callable(obj):
            try:
                ps = list(inspect.signature(obj).parameters.values())
                for i, q in enumerate(ps):
                    if q.name in GEN_PARAMS:
                        res = {"pos": i if q.kind in (q.POSITIONAL_ONLY, q.POSITIONAL_OR_KEYWORD) else None, "what": fq}
                        break
            except (TypeError, ValueError):
                res = None
        FileWalk._libcache[fq] = res
        return res

    def check_escapes(self):
        """References to obligation callables that are not in call position."""
        for n in ast.walk(self.tree):
            if not isinstance(n, (ast.Name, ast.Attribute)) or not isinstance(getattr(n, "ctx", None), ast.Load):
                continue
            p = self.parent.get(n)
            if isinstance(p, ast.Call) and p.func is n:
                continue
            if isinstance(p, ast.Attribute):
                continue                                     # part of a longer dotted name
            fn = self.inner_function(n)
            target = None
            if isinstance(n, ast.Name) and not self.shadowed(n.id, fn):
                target = self.defs["func"].get(n.id) or (self.defs["cls"].get(n.id) if n.id in self.defs["cls"] else None)
                if target is not None and n.id in self.defs["cls"]:
                    # classes are legitimately referenced (isinstance, tables of classes, annotations)
                    continue
            elif isinstance(n, ast.Attribute) and isinstance(n.value, ast.Name) and n.value.id == "self":
                target = self.class_defines(self.enclosing_class(n), n.attr)
            if target is None:
                continue
            if isinstance(p, ast.Call) and isinstance(p.func, ast.Call) and dotted(p.func.func).split(".")[-1] == "delayed" and p.func.args and p.func.args[0] is n:
                continue                                     # delayed(f)(...): judged as a call of f
            if isinstance(p, ast.Call) and dotted(p.func).split(".")[-1] == "delayed" and n in p.args:
                continue
            # g(f, x, args=(...)) : scipy calls f(x, *args)
            if isinstance(p, ast.Call) and n in p.args:
                tup = [k.value for k in p.keywords if k.arg == "args"]
                if len(tup) == 1 and isinstance(tup[0], ast.Tuple) and target["pos"] is not None and target["pos"] - 1 < len(tup[0].elts) and target["pos"] >= 1:
                    if self.kind(tup[0].elts[target["pos"] - 1], fn) in ("gen", "val"):
                        continue
                    raise Closed("%s:%d: %s handed over with args=(...) whose random-state slot is not seeded" % (self.rel, n.lineno, ast.unparse(n)))
            raise Closed("%s:%d: the callable %s (takes a random state) escapes as a value: %s" % (self.rel, n.lineno, ast.unparse(n), ast.unparse(p)[:80] if p is not None else ""))

    # ---------- guarded draws ----------
    def is_ambient(self, e):
        """Does the expression read ambient state of the process?"""
        for x in ast.walk(e):
            if isinstance(x, ast.Call):
                d = dotted(x.func)
                root = d.split(".")[0]
                if root in ("logging", "logger", "log", "warnings") or ".isEnabledFor" in d or ".getEffectiveLevel" in d or d.endswith(".isatty"):
                    return True
                f = self.fq(d)
                if d.split(".")[-1] in ("effective_n_jobs", "cpu_count", "sched_getaffinity", "process_cpu_count"):
                    return True
                if d in ENV_CALLS or f in ENV_CALLS or f in ("os.getenv", "os.getcwd", "os.cpu_count", "sys.gettrace", "sys.getrecursionlimit", "platform.system", "platform.node"):
                    return True
            elif isinstance(x, ast.Attribute):
                d = dotted(x)
                f = self.fq(d) or d
                if f.startswith(("os.environ", "sys.flags", "sys.argv", "sys.warnoptions", "sys.platform", "logging.root")) or "verbose" in x.attr.lower():
                    return True
            elif isinstance(x, ast.Name):
                if x.id == "__debug__" or "verbose" in x.id.lower():
                    return True
        return False

    def ambient_condition_of(self, node):
        """The ambient test that decides whether `node` is executed, within its function: an enclosing if / while / conditional expression /
        assert-free early exit.  Returns the source text of the test or None."""
        fn = self.inner_function(node)
        n = node
        while n in self.parent and n is not fn:
            p = self.parent[n]
            if isinstance(p, (ast.If, ast.While, ast.IfExp)) and n is not p.test and self.is_ambient(p.test):
                return ast.unparse(p.test)[:80]
            if isinstance(p, ast.BoolOp) and any(self.is_ambient(v) for v in p.values[:p.values.index(n)] if n in p.values):
                return ast.unparse(p)[:80]     # short-circuit: `ambient and draw()`
            # early exits before this statement in the same block
            for field in ("body", "orelse", "finalbody"):
                blk = getattr(p, field, None)
                if isinstance(blk, list) and n in blk:
                    for st in blk[:blk.index(n)]:
                        if isinstance(st, ast.If) and self.is_ambient(st.test) and any(isinstance(y, (ast.Return, ast.Raise, ast.Continue, ast.Break)) for y in ast.walk(st)):
                            return "after: " + ast.unparse(st.test)[:70]
            n = p
        return None

    def guarded_functions(self):
        """Functions of this file that are only called (inside the anchors' classes / module) under an ambient condition: name -> condition."""
        calls = {}
        for n in ast.walk(self.tree):
            if isinstance(n, ast.Call):
                name = None
                if isinstance(n.func, ast.Attribute) and isinstance(n.func.value, ast.Name) and n.func.value.id == "self":
                    name = n.func.attr
                elif isinstance(n.func, ast.Name):
                    name = n.func.id
                if name:
                    calls.setdefault(name, []).append(self.ambient_condition_of(n))
        defined = {f.name for f in ast.walk(self.tree) if isinstance(f, (ast.FunctionDef, ast.AsyncFunctionDef))}
        return {k: v[0] for k, v in calls.items() if k in defined and v and all(x is not None for x in v)}

    # ---------- Parallel ----------
    def parallel_of(self, c):
        """If c is a task  delayed(f)(...)  of a  Parallel(...)(<comprehension>) : 'sharedmem' (threads share the arguments) or 'copies'; else None."""
        if not (isinstance(c.func, ast.Call) and dotted(c.func.func).split(".")[-1] == "delayed"):
            return None
        n = c
        while n in self.parent:
            p = self.parent[n]
            if isinstance(p, ast.Call) and isinstance(p.func, ast.Call) and dotted(p.func.func).split(".")[-1] == "Parallel" and n in p.args:
                kws = {k.arg: k.value for k in p.func.keywords if k.arg}
                vals = {k: (v.value if isinstance(v, ast.Constant) else None) for k, v in kws.items()}
                if vals.get("require") == "sharedmem" or vals.get("backend") == "threading" or vals.get("prefer") == "threads":
                    return "sharedmem"
                for k in ("require", "backend", "prefer"):
                    if k in kws and vals.get(k) is None:
                        raise Closed("Parallel(%s=<not a literal>)" % k)
                return "copies"
            if isinstance(p, ast.stmt):
                return None
            n = p
        return None

    def shared_generators_in(self, c, fn):
        """Generator expressions (kind gen) among the arguments of a task that are not constructor calls written in place."""
        out = []

        def visit(e):
            if isinstance(e, ast.Call) and self.fq(dotted(e.func)) in CTOR_NAMES:
                return                                   # a per-task generator
            if isinstance(e, (ast.Name, ast.Attribute)) and self.kind(e, fn) == "gen":
                out.append(ast.unparse(e))
                return
            for ch in ast.iter_child_nodes(e):
                visit(ch)

        for a in c.args:
            visit(a)
        for k in c.keywords:
            visit(k.value)
        return out

    def check_parallel_shapes(self):
        for n in ast.walk(self.tree):
            if isinstance(n, ast.Call) and isinstance(n.func, ast.Call) and dotted(n.func.func).split(".")[-1] == "Parallel":
                ok = len(n.args) == 1 and isinstance(n.args[0], (ast.GeneratorExp, ast.ListComp)) and isinstance(n.args[0].elt, ast.Call) \
                    and isinstance(n.args[0].elt.func, ast.Call) and dotted(n.args[0].elt.func.func).split(".")[-1] == "delayed"
                if not ok:
                    raise Closed("%s:%d: Parallel(...)(x) with x not a comprehension of delayed(f)(...) calls" % (self.rel, n.lineno))

    # ---------- state shared with the caller ----------
    def state_attrs(self):
        out = set()
        for n in ast.walk(self.tree):
            if isinstance(n, ast.Attribute):
                d = dotted(n)
                if (d.endswith(".config_space") or d.endswith("._problem.space")) and d.startswith("self."):
                    out.add(d.split(".")[1])
        return out

    def shared_state_sites(self, attrs):
        for n in ast.walk(self.tree):
            if not (isinstance(n, ast.Assign) and len(n.targets) == 1):
                continue
            t = n.targets[0]
            if not (isinstance(t, ast.Attribute) and isinstance(t.value, ast.Name) and t.value.id == "self" and t.attr in attrs):
                continue
            fn = self.inner_function(n)
            params = (self.params_of(fn) - {"self"}) if fn is not None else set()
            v = n.value
            involved = sorted({x.id for x in ast.walk(v) if isinstance(x, ast.Name) and x.id in params})
            qn, _ = self.scope_of(n)
            if isinstance(v, ast.Call) and self.fq(dotted(v.func)) == "copy.deepcopy" and len(v.args) == 1 and isinstance(v.args[0], ast.Name) and v.args[0].id in params:
                flow, what = "Owned", "copy.deepcopy"
            elif involved:
                flow = "Flows"
                what = dotted(v.func) if isinstance(v, ast.Call) else ast.unparse(v)[:40]
            elif isinstance(v, ast.Constant) or (isinstance(v, ast.Call) and not any(isinstance(x, ast.Attribute) and isinstance(x.value, ast.Name) and x.value.id == "self" for x in ast.walk(v))):
                continue                                  # a fresh object / None
            else:
                raise Closed("%s:%d: self.%s = <value of unknown ownership>: %s" % (self.rel, n.lineno, t.attr, ast.unparse(v)[:80]))
            self.env_sites.append(dict(file=self.rel, line=n.lineno, end=n.end_lineno, func=qn, callee="self.%s=%s" % (t.attr, what), kind="SharedState", flow=flow, guard=self.guard_of(n)))

    # ---------- rng sites ----------
    def classify_call(self, c):
        """-> classification or None (not an rng site).  Raises Closed on an rng-looking call it cannot classify."""
        d = dotted(c.func)
        f = self.fq(d)
        last = d.split(".")[-1]
        fn = self.inner_function(c)
        argkinds = [self.kind(a, fn) for a in c.args if not isinstance(a, ast.Starred)]
        kwkinds = {k.arg: self.kind(k.value, fn) for k in c.keywords if k.arg}
        seedkw = {k: v for k, v in kwkinds.items() if k in SEED_KW}
        passed = [k for k in argkinds + list(seedkw.values()) if k in ("gen", "val", "cs")]

        def contains_env(node):
            return any(isinstance(x, ast.Call) and (dotted(x.func) in ENV_CALLS or self.fq(dotted(x.func)) in ENV_CALLS) for x in ast.walk(node))

        if f in CTOR_NAMES:
            vals = argkinds + list(kwkinds.values())
            if not vals or all(v == "none" for v in vals):
                return "CtorFresh"
            if all(v in ("gen", "val") for v in vals):
                return "CtorSeeded"
            if any(contains_env(a) for a in c.args) or any(v == "global" for v in vals):
                return "CtorFresh"
            raise Closed("generator constructor with an argument of unknown origin")
        if f and f.startswith("scipy.stats."):
            if last == "rvs":
                return "Seeded" if any(v in ("gen", "val") for v in seedkw.values()) else "Global"
            lib = None if self.is_distribution_class(f) else self.library_signature(f)
            if lib is not None:      # an object of scipy.stats that takes a seed (qmc engines, ...): a generator constructor
                vals = list(seedkw.values()) or ([argkinds[lib["pos"]]] if lib["pos"] is not None and lib["pos"] < len(argkinds) else [])
                if vals and all(v in ("gen", "val") for v in vals):
                    return "CtorSeeded"
                if not vals or all(v in ("none", "global", "env") for v in vals):
                    return "CtorFresh"
                raise Closed("scipy.stats generator with a seed of unknown origin")
            return "Dist"
        if f and (f.startswith("numpy.random.") or f == "numpy.random" or f.startswith("random.")):
            return "Global"
        is_method = isinstance(c.func, ast.Attribute)
        if is_method and last in RNG_METHODS:
            recv = c.func.value
            rk = self.kind(recv, fn)
            if rk == "gen":
                return "Seeded"
            if last == "seed":
                if self.is_cs_root(recv, fn):
                    return "CSSeed" if (argkinds and all(k in ("gen", "val") for k in argkinds)) else "Global"
                raise Closed(".seed( on an unknown receiver")
            if last in ("sample_configuration",) and self.is_cs_root(recv, fn):
                return "CS"
            if "cs" in passed:
                return "CS"
            if passed:
                return "Seeded"
            if last == "rvs":
                if any(v == "none" for v in seedkw.values()) or not seedkw:
                    if any(k is None for k in argkinds[1:]):  # a positional argument of unknown origin might be the generator
                        raise Closed(".rvs( with a positional argument of unknown origin")
                    return "Global"
            if dotted(recv).endswith("model_sdv"):
                return "Ext"
            if last in ("sample", "random", "bytes", "get_state", "set_state", "getstate", "setstate", "spawn", "bit_generator", "uniform", "normal", "choice",
                        "beta", "gamma", "seed", "sample_value", "resample") and rk is None and not seedkw:
                # a random-sounding method on a receiver that is not a generator: only accepted when the receiver is provably not random
                if isinstance(recv, ast.Name) and recv.id in ("np", "numpy", "math", "pd"):
                    return None
                raise Closed("random method on a receiver of unknown origin")
            raise Closed("random method on a receiver of unknown origin")
        # ---- tasks of a Parallel(...)( delayed(f)(...) for ... ): generators handed to the tasks
        par = self.parallel_of(c)
        if par is not None:
            shared = self.shared_generators_in(c, fn)
            if shared:
                return "PassShared" if par == "sharedmem" else "Pass"
        # ---- hand-over obligations: does the call resolve to a definition of the anchors that takes random_state / rng / seed ?
        target = self.resolve_obligation(c, fn)
        supplied = list(seedkw.values())
        if target is not None and not seedkw:
            args = c.args
            if any(isinstance(a, ast.Starred) for a in args):
                raise Closed("*args in a call that owes a random state")
            pos = target["pos"]
            if pos is not None and pos < len(args):
                supplied = [self.kind(args[pos], fn)]
            else:
                stars = [k.value for k in c.keywords if k.arg is None]
                if stars:
                    if all(dotted(x) == "self._opt_kwargs" for x in stars) and self.defs.get("opt_kwargs_has_random_state"):
                        return "Pass"
                    if all(self.seeded_kwargs_dict(x, fn) for x in stars):
                        return "Pass"
                    raise Closed("**kwargs in a call that owes a random state")
                if self.handed_to_seeded(c, fn, set()):
                    return "Pass"    # an unseeded component whose only use is to be wrapped by a seeded one (which sets its random state)
                return "PassFresh"   # omitted: the callee falls back to the global generator
        if supplied:
            vs = supplied
            if all(v in ("gen", "val") for v in vs):
                return "Pass"
            if all(v == "none" for v in vs):
                return "PassFresh"
            if any(v in ("global", "env") for v in vs):
                return "PassFresh"
            raise Closed("random_state=/seed= handed over with a value of unknown origin")
        if not is_method and last in ("check_random_state", "RandomState", "default_rng"):
            raise Closed("generator constructor reached through an unresolved name")
        return None

    # ---------- env sites ----------
    def is_set_valued(self, e):
        if isinstance(e, (ast.Set, ast.SetComp)):
            return True
        if isinstance(e, ast.Call):
            d = dotted(e.func)
            if d in ("set", "frozenset"):
                return True
            if isinstance(e.func, ast.Attribute) and e.func.attr in self.set_methods:
                return True
            if isinstance(e.func, ast.Attribute) and e.func.attr in ("union", "intersection", "difference", "symmetric_difference") and self.is_set_valued(e.func.value):
                return True
        if isinstance(e, ast.BinOp) and isinstance(e.op, (ast.Sub, ast.BitOr, ast.BitAnd, ast.BitXor)):
            def view(x):   # d.keys() / d.items(): set algebra on dictionary views yields a set
                return isinstance(x, ast.Call) and isinstance(x.func, ast.Attribute) and x.func.attr in ("keys", "items") and not x.args
            return self.is_set_valued(e.left) or self.is_set_valued(e.right) or view(e.left) or view(e.right)
        return False

    def in_logging_call(self, node):
        n = node
        while n in self.parent:
            n = self.parent[n]
            if isinstance(n, ast.Call):
                d = dotted(n.func)
                if d.split(".")[0] in ("logging", "logger", "log", "warnings") or d == "print":
                    return True
            if isinstance(n, (ast.stmt,)):
                return False
        return False

    PAR_KW = {"n_jobs", "max_workers", "num_workers", "n_workers", "processes", "n_threads", "nthreads", "num_threads"}

    def host_flow_of(self, call):
        """A host fact may only become a degree of parallelism (or a log message)."""
        if self.in_logging_call(call):
            return "LogOnly"
        p = self.parent.get(call)
        if isinstance(p, ast.keyword) and p.arg in self.PAR_KW:
            return "Parallelism"
        fn = self.inner_function(call)
        if fn is not None and isinstance(p, ast.Assign) and len(p.targets) == 1 and isinstance(p.targets[0], ast.Name):
            name = p.targets[0].id
            uses = [n for n in ast.walk(fn) if isinstance(n, ast.Name) and n.id == name and isinstance(n.ctx, ast.Load)]
            if uses and all((isinstance(self.parent.get(u), ast.keyword) and self.parent[u].arg in self.PAR_KW) or self.in_logging_call(u) for u in uses) \
                    and len(self.local_assignments(fn, name)) == 1:
                return "Parallelism"
        return "Flows"

    def flow_of(self, call):
        """Where does the value of an environment read go?  LogOnly / PathOnly / Flows (intra-procedural taint over simple local names)."""
        fn = self.inner_function(call)
        if self.in_logging_call(call):
            return "LogOnly"
        if fn is None:
            return "Flows"
        stmt = call
        while not isinstance(stmt, ast.stmt):
            stmt = self.parent[stmt]
        if not (isinstance(stmt, ast.Assign) and len(stmt.targets) == 1 and isinstance(stmt.targets[0], ast.Name)):
            return "Flows"
        tainted, changed = {stmt.targets[0].id}, True
        while changed:
            changed = False
            for n in ast.walk(fn):
                if isinstance(n, ast.Assign) and len(n.targets) == 1 and isinstance(n.targets[0], ast.Name) and n.targets[0].id not in tainted:
                    if any(isinstance(x, ast.Name) and x.id in tainted for x in ast.walk(n.value)):
                        tainted.add(n.targets[0].id)
                        changed = True
        worst = "LogOnly"
        for n in ast.walk(fn):
            if isinstance(n, ast.Name) and n.id in tainted and isinstance(n.ctx, ast.Load):
                if self.in_logging_call(n):
                    continue
                # inside the right-hand side of an assignment to a (tainted) simple local: propagation only
                s = n
                while not isinstance(s, ast.stmt):
                    s = self.parent[s]
                if isinstance(s, ast.Assign) and len(s.targets) == 1 and isinstance(s.targets[0], ast.Name) and s.targets[0].id in tainted:
                    continue
                # argument of a file-system path operation
                p, path_use = n, False
                while p in self.parent and not isinstance(p, ast.stmt):
                    p = self.parent[p]
                    if isinstance(p, ast.Call) and (dotted(p.func).startswith("os.path.") or dotted(p.func) in ("os.rename", "os.replace", "shutil.move", "shutil.copy", "os.makedirs")):
                        path_use = True
                # (an expression statement, or the test of an if / while: the answer of the file system about a name in the log directory;
                #  implicit flows through that truth value are not tracked)
                if path_use and (isinstance(s, ast.Expr) or (isinstance(s, (ast.If, ast.While)) and any(x is n for x in ast.walk(s.test)))):
                    worst = "PathOnly"
                    continue
                return "Flows"
        return worst

    def walk(self):
        self._guarded_fns = self.guarded_functions()
        for c in ast.walk(self.tree):
            if isinstance(c, ast.Call):
                d = dotted(c.func)
                if isinstance(c.func, ast.Call) and dotted(c.func.func).split(".")[-1] == "delayed" and len(c.func.args) == 1:
                    d = "delayed(%s)" % dotted(c.func.args[0])
                qn, _ = self.scope_of(c)
                try:
                    cls = self.classify_call(c)
                except Closed as e:
                    raise Closed("%s:%d: %s: %s" % (self.rel, c.lineno, e, ast.unparse(c)[:160]))
                if cls is not None:
                    if cls in ("Seeded", "CS", "CSSeed", "CtorSeeded", "Pass"):
                        cond = self.ambient_condition_of(c)
                        if cond is None:   # ... or the whole function only runs under an ambient condition
                            f0 = self.inner_function(c)
                            seen = set()
                            while f0 is not None and f0.name not in seen and cond is None:
                                seen.add(f0.name)
                                cond = self._guarded_fns.get(f0.name)
                                f0 = self.inner_function(f0)
                        if cond is not None:
                            cls = "Guarded"
                    self.rng_sites.append(dict(file=self.rel, line=c.lineno, end=c.end_lineno, func=qn, callee=d, cls=cls, guard=self.guard_of(c)))
                f = self.fq(d)
                ek = ENV_CALLS.get(d) if d in ("hash", "id") else ENV_CALLS.get(f)
                if ek:
                    self.env_sites.append(dict(file=self.rel, line=c.lineno, end=c.end_lineno, func=qn, callee=d, kind=ek,
                                               flow=self.host_flow_of(c) if ek == "Host" else self.flow_of(c), guard=self.guard_of(c)))
            # a set-valued expression consumed in an order-sensitive way
            if isinstance(c, ast.expr) and self.is_set_valued(c):
                p = self.parent.get(c)
                benign = False
                if isinstance(p, ast.Call) and c in p.args and dotted(p.func) in ORDER_FREE_CONSUMERS:
                    benign = True
                elif isinstance(p, ast.Compare) and c in p.comparators:
                    benign = True
                elif isinstance(p, ast.BinOp) and self.is_set_valued(p):
                    benign = True  # the enclosing set expression is judged instead
                elif isinstance(p, ast.Attribute) and p.attr in ("union", "intersection", "difference", "symmetric_difference", "issubset", "issuperset", "isdisjoint", "add", "discard", "update", "remove", "copy"):
                    benign = True
                elif isinstance(p, ast.Call) and c is p.func:
                    benign = True
                elif isinstance(p, (ast.Assign, ast.AnnAssign, ast.Return, ast.keyword)) or (isinstance(p, ast.Call) and c in p.args):
                    # stored / passed on: order-sensitive unless every later use is order free - not tracked: report, flow unknown
                    benign = isinstance(p, ast.Call) and dotted(p.func) in ("isinstance",)
                if not benign:
                    qn, _ = self.scope_of(c)
                    consumer = dotted(p.func) if isinstance(p, ast.Call) else type(p).__name__
                    what = dotted(c.func) if isinstance(c, ast.Call) and dotted(c.func) not in ("set", "frozenset") else ast.unparse(c)[:60]
                    self.env_sites.append(dict(file=self.rel, line=c.lineno, end=c.end_lineno, func=qn, callee="%s:%s" % (consumer, what), kind="SetOrder", flow="Flows", guard=self.guard_of(c)))


def find_rng_attrs(trees):
    """Attributes that some class of the anchors assigns from a generator constructor or from its random_state parameter."""
    attrs = {}
    for rel, tree, alias in trees:
        for fn in ast.walk(tree):
            if not isinstance(fn, (ast.FunctionDef, ast.AsyncFunctionDef)):
                continue
            params = {a.arg for a in fn.args.args + fn.args.kwonlyargs}
            for n in ast.walk(fn):
                if isinstance(n, ast.Assign) and len(n.targets) == 1 and isinstance(n.targets[0], ast.Attribute) and isinstance(n.targets[0].value, ast.Name) and n.targets[0].value.id == "self":
                    v, ok = n.value, False
                    if isinstance(v, ast.Call):
                        d = dotted(v.func)
                        root, _, rest = d.partition(".")
                        f = alias.get(root)
                        f = (f + ("." + rest if rest else "")) if f else None
                        ok = f in CTOR_NAMES
                    elif isinstance(v, ast.Name) and v.id == "random_state" and v.id in params:
                        ok = True
                    if ok:
                        attrs.setdefault(n.targets[0].attr, []).append("%s:%d" % (rel, n.lineno))
    return attrs


def collect_defs(trees):
    """Definitions of the anchors that take a random state: module functions, classes (through __init__), methods; class bases; the
    attributes that hold an optimizer; module-level dicts of such classes (moo_functions)."""
    defs = {"func": {}, "cls": {}, "meth": {}, "bases": {}, "class_tables": set()}

    def slot(fn, is_method):
        names = [a.arg for a in fn.args.posonlyargs + fn.args.args]
        if is_method and names:
            names = names[1:]
        for i, n in enumerate(names):
            if n in GEN_PARAMS:
                return i
        return None if not any(a.arg in GEN_PARAMS for a in fn.args.kwonlyargs) else -1

    for rel, tree, alias in trees:
        for n in tree.body:
            if isinstance(n, (ast.FunctionDef, ast.AsyncFunctionDef)):
                p = slot(n, False)
                if p is not None:
                    defs["func"][n.name] = {"pos": p if p >= 0 else None, "what": "%s:%s" % (rel, n.name)}
            elif isinstance(n, ast.ClassDef):
                defs["bases"][n.name] = [dotted(b).split(".")[-1] for b in n.bases]
                for m in n.body:
                    if isinstance(m, (ast.FunctionDef, ast.AsyncFunctionDef)):
                        p = slot(m, True)
                        if p is not None:
                            rec = {"pos": p if p >= 0 else None, "what": "%s:%s.%s" % (rel, n.name, m.name)}
                            defs["meth"][(n.name, m.name)] = rec
                            if m.name == "__init__":
                                defs["cls"][n.name] = rec
    # classes that inherit an __init__ taking a random state
    changed = True
    while changed:
        changed = False
        for c0, bases in defs["bases"].items():
            if c0 not in defs["cls"]:
                for b in bases:
                    if b in defs["cls"]:
                        defs["cls"][c0] = defs["cls"][b]
                        changed = True
                        break
    # module-level dict literals whose values are such classes
    for rel, tree, alias in trees:
        for n in tree.body:
            if isinstance(n, ast.Assign) and len(n.targets) == 1 and isinstance(n.targets[0], ast.Name) and isinstance(n.value, ast.Dict):
                vals = [dotted(v) for v in n.value.values]
                if vals and all(v in defs["cls"] for v in vals):
                    defs["class_tables"].add(n.targets[0].id)
    return defs


def package_methods(base):
    """Method names that, in the whole deephyper package, are only carried by methods taking random_state / seed / rng (and are not generic)."""
    import glob as _glob

    take, all_names = {}, {}
    for f in _glob.glob(os.path.join(base, "**", "*.py"), recursive=True):
        try:
            t = ast.parse(open(f).read())
        except SyntaxError:
            continue
        for n in ast.walk(t):
            if isinstance(n, ast.ClassDef):
                for m in n.body:
                    if isinstance(m, (ast.FunctionDef, ast.AsyncFunctionDef)):
                        names = [a.arg for a in m.args.posonlyargs + m.args.args][1:]
                        kws = [a.arg for a in m.args.kwonlyargs]
                        all_names.setdefault(m.name, []).append(any(x in GEN_PARAMS for x in names + kws))
                        for i, x in enumerate(names):
                            if x in GEN_PARAMS:
                                take.setdefault(m.name, {"pos": i, "what": "%s:%s.%s" % (os.path.relpath(f, base), n.name, m.name)})
    return {k: v for k, v in take.items() if all(all_names[k]) and k not in GENERIC_METHODS and not k.startswith("__")}


def find_opt_attrs(trees, defs):
    """self.<attr> = <Optimizer(...)> / <...>.Optimizer(...) anywhere in the anchors."""
    opt_classes = {c0 for (c0, m) in defs["meth"] if m == "copy"}
    out = set()
    for rel, tree, alias in trees:
        for n in ast.walk(tree):
            if isinstance(n, ast.Assign) and len(n.targets) == 1 and isinstance(n.targets[0], ast.Attribute) and isinstance(n.targets[0].value, ast.Name) and n.targets[0].value.id == "self":
                if isinstance(n.value, ast.Call) and dotted(n.value.func).split(".")[-1] in opt_classes:
                    out.add(n.targets[0].attr)
    return out


def analyse(repo):
    """-> dict(ok, reason, rng_sites, env_sites, rng_attrs, cbo_opt_kwargs, sample_max_size_default)"""
    base = os.path.join(repo, "src", "deephyper")
    out = dict(ok=True, reason="", rng_sites=[], env_sites=[], rng_attrs={}, extra={})
    try:
        srcs = []
        for rel in ANCHORS:
            p = os.path.join(base, rel)
            if not os.path.exists(p):
                raise Closed("anchor file missing: " + rel)
            srcs.append((rel, open(p).read()))
        setm = set_returning_methods()
        if "get_active_hyperparameters" not in setm:
            raise Closed("ConfigurationSpace.get_active_hyperparameters is not annotated as returning a set any more (set-order analysis needs its table of set-valued methods)")
        pre = []
        for rel, src in srcs:
            fw = FileWalk(rel, src, set(), setm)
            pre.append((rel, fw.tree, fw.alias))
        attrs = find_rng_attrs(pre)
        out["rng_attrs"] = attrs
        st_attrs = set()
        for rel, src in srcs:
            st_attrs |= FileWalk(rel, src, set(), setm).state_attrs()
        out["state_attrs"] = sorted(st_attrs)
        defs = collect_defs(pre)
        opt_attrs = find_opt_attrs(pre, defs)
        ex = extra_facts(base)
        defs["opt_kwargs_has_random_state"] = "random_state" in ex["cbo_opt_kwargs"]
        defs["pkg_methods"] = package_methods(base)
        out["package_method_names"] = sorted(defs["pkg_methods"])
        out["obligation_defs"] = sorted([r["what"] for r in defs["func"].values()] + [r["what"] for r in defs["meth"].values()]) + ["table:" + t for t in sorted(defs["class_tables"])]
        out["optimizer_attrs"] = sorted(opt_attrs)
        for rel, src in srcs:
            fw = FileWalk(rel, src, set(attrs), setm, defs, opt_attrs)
            fw.check_parallel_shapes()
            fw.check_escapes()
            fw.walk()
            fw.shared_state_sites(st_attrs)
            out["rng_sites"] += fw.rng_sites
            out["env_sites"] += fw.env_sites
        out["rng_sites"].sort(key=lambda s: (ANCHORS.index(s["file"]), s["line"], s["callee"]))
        out["env_sites"].sort(key=lambda s: (ANCHORS.index(s["file"]), s["line"], s["callee"]))
        out["extra"] = ex
        out["set_methods"] = sorted(setm)
    except Closed as e:
        out["ok"], out["reason"] = False, str(e)
    except SyntaxError as e:
        out["ok"], out["reason"] = False, "syntax error in an anchor file: %s" % e
    return out


def extra_facts(base):
    """Facts the reachability table rests on:
       cbo_opt_kwargs  : the keyword names CBO hands to the Optimizer (dict(...) assigned to self._opt_kwargs + later item assignments)
       sample_max_size_default : the default of Optimizer.__init__(sample_max_size=...)   (np.random.choice in Optimizer._sample needs > 0)"""
    t = ast.parse(open(os.path.join(base, "hpo/_cbo.py")).read())
    keys, found = [], False
    for n in ast.walk(t):
        if isinstance(n, ast.Assign) and len(n.targets) == 1:
            tg = n.targets[0]
            if isinstance(tg, ast.Attribute) and tg.attr == "_opt_kwargs" and isinstance(tg.value, ast.Name) and tg.value.id == "self":
                if not (isinstance(n.value, ast.Call) and dotted(n.value.func) == "dict" and not n.value.args and all(k.arg for k in n.value.keywords)):
                    raise Closed("hpo/_cbo.py:%d: self._opt_kwargs is not a plain dict(k=v, ...) call" % n.lineno)
                keys += [k.arg for k in n.value.keywords]
                found = True
            elif isinstance(tg, ast.Subscript) and dotted(tg.value) == "self._opt_kwargs":
                if not (isinstance(tg.slice, ast.Constant) and isinstance(tg.slice.value, str)):
                    raise Closed("hpo/_cbo.py:%d: self._opt_kwargs[...] with a computed key" % n.lineno)
                keys.append(tg.slice.value)
        elif isinstance(n, ast.Call) and dotted(n.func) in ("self._opt_kwargs.update", "self._opt_kwargs.setdefault"):
            raise Closed("hpo/_cbo.py:%d: self._opt_kwargs.update/setdefault" % n.lineno)
    if not found:
        raise Closed("hpo/_cbo.py: no assignment self._opt_kwargs = dict(...)")
    t = ast.parse(open(os.path.join(base, "skopt/optimizer/optimizer.py")).read())
    default = None
    for n in ast.walk(t):
        if isinstance(n, ast.ClassDef) and n.name == "Optimizer":
            for fn in n.body:
                if isinstance(fn, ast.FunctionDef) and fn.name == "__init__":
                    args = fn.args.args
                    defaults = [None] * (len(args) - len(fn.args.defaults)) + list(fn.args.defaults)
                    for a, dv in zip(args, defaults):
                        if a.arg == "sample_max_size":
                            if isinstance(dv, ast.UnaryOp) and isinstance(dv.op, ast.USub) and isinstance(dv.operand, ast.Constant):
                                default = -dv.operand.value
                            elif isinstance(dv, ast.Constant) and isinstance(dv.value, int):
                                default = dv.value
    if default is None:
        raise Closed("skopt/optimizer/optimizer.py: Optimizer.__init__ has no literal default for sample_max_size")
    return dict(cbo_opt_kwargs=sorted(set(keys)), sample_max_size_default=default, seed_test_accepts_numpy_int=seed_test(base))


def seed_test(base):
    """Which integers does Search.__init__ turn into RandomState(seed)?  The test of the `if` whose body assigns
    self._random_state = np.random.RandomState(random_state):  `type(random_state) is int` accepts Python ints only (a numpy integer falls
    through to the unseeded branch);  isinstance(random_state, numbers.Integral) / (int, np.integer) accepts numpy integers as well."""
    t = ast.parse(open(os.path.join(base, "hpo/_search.py")).read())
    for n in ast.walk(t):
        if isinstance(n, ast.If) and any(isinstance(b, ast.Assign) and dotted(b.targets[0]) == "self._random_state" and isinstance(b.value, ast.Call)
                                         and dotted(b.value.func).endswith("RandomState") and b.value.args for b in n.body):
            test = ast.unparse(n.test).replace(" ", "")
            if test in SEED_TESTS_PY:
                return False
            if test in SEED_TESTS_ANY:
                return True
            raise Closed("hpo/_search.py:%d: test of the seeded branch not recognised: %s" % (n.lineno, ast.unparse(n.test)))
    raise Closed("hpo/_search.py: no `if ...: self._random_state = np.random.RandomState(random_state)`")


if __name__ == "__main__":
    import json
    import sys

    r = analyse(sys.argv[1] if len(sys.argv) > 1 else "/repo")
    print("ok", r["ok"], r["reason"])
    print("rng_attrs", r["rng_attrs"])
    print("obligation defs", r.get("obligation_defs"), r.get("optimizer_attrs"), "state attrs", r.get("state_attrs"), "pkg methods", r.get("package_method_names"))
    for s in r["rng_sites"]:
        print("%-30s %4d %-34s %-44s %-10s %s" % (s["file"], s["line"], s["func"], s["callee"], s["cls"], s["guard"][:60]))
    print()
    for s in r["env_sites"]:
        print("%-30s %4d %-34s %-60s %-9s %-8s %s" % (s["file"], s["line"], s["func"], s["callee"], s["kind"], s["flow"], s["guard"][:50]))
    print(json.dumps(r.get("extra")), r.get("set_methods"))
