"""C17 - Queued evaluators never share a resource between concurrent jobs.

Tie: (a) trace acceptance - the run-function logs Start(job, resources received) / End(job); the extracted Coq oracle
`replay_obs` + `final_ok` (C17_Queue/Check.v) accepts the log iff every start receives exactly queue_pop_per_task resources
that are free at that moment, the 'dequed' metadata names them, every job ends and every resource is back in the queue;
(b) correspondence with the mechanism model `qstep` (exact FIFO prediction of which resources each job gets) on the serial
backend, where the completion order is forced by a conductor.
"""
import asyncio
import threading
import time

from ..driver import model
from ..runner import Stream

PROPERTY = "C17"
LEVEL = "proof"
TRUSTED = [
    "asyncio scheduling and the thread pool: observed, not modelled (the theorems hold for every schedule of the mechanism model)",
    "the run-function's own log of (start, resources) / (end) events is the observation; its order is the order of the log appends",
]
ASSUMPTIONS = ["queue_pop_per_task <= len(queue)", "resources are distinct tokens", "run-functions return (do not raise)"]
RULE = ("queue 1..6 x pop {1,2} x workers 1..3 x 1..8 jobs in 1..3 waves x random completion orders (serial: forced by a conductor; "
        "thread: random sleeps); non-trivial = more jobs than free resource groups or than workers (some job has to wait)")
CLAUSE = {1: "wrong_resource_count", 2: "resource_not_free", 3: "start_end_order", 4: "metadata", 5: "job_never_ran", 6: "resource_lost"}
F_REPLAY = 1701


def _ids(jobs):
    return [int(j.id.split(".")[1]) for j in jobs]


def run_case(case):
    from deephyper.evaluator import SerialEvaluator, ThreadPoolEvaluator, queued

    backend = case.get("backend", "serial")
    log, events = [], {}
    lock = threading.Lock()

    async def run_async(job, dequed=None):
        jid = int(job.id.split(".")[1])
        log.append([0, jid, [int(x) for x in dequed]])
        ev = events.setdefault(jid, asyncio.Event())
        await ev.wait()
        log.append([1, jid])
        return jid

    def run_sync(job, dequed=None):
        jid = int(job.id.split(".")[1])
        with lock:
            log.append([0, jid, [int(x) for x in dequed]])
        time.sleep(case["durs"][jid % len(case["durs"])] / 1000.0)
        with lock:
            log.append([1, jid])
        return jid

    q0 = list(range(100, 100 + case["queue"]))
    if backend == "serial":
        ev = queued(SerialEvaluator)(run_async, num_workers=case["workers"], queue=q0, queue_pop_per_task=case["pop"])
    else:
        ev = queued(ThreadPoolEvaluator)(run_sync, num_workers=case["workers"], queue=q0, queue_pop_per_task=case["pop"])
    meta, njobs, error = [], 0, None
    conductors = []
    try:
        for w, wave in enumerate(case["waves"]):
            n, order, batch = wave
            ev.submit([{"x": njobs + i} for i in range(n)])
            ids = list(range(njobs, njobs + n))
            njobs += n
            if backend == "serial":
                # release every job submitted so far that has not been released, in the given order, one per tick group
                pendings = [j for j in range(njobs) if j not in events or not events[j].is_set()]
                seq = [pendings[i % len(pendings)] for i in order] if pendings else []
                seq = list(dict.fromkeys(seq)) + [j for j in pendings if j not in seq]

                async def conductor(seq=seq, pause=case.get("pause", 2)):
                    for j in seq:
                        for _ in range(pause):
                            await asyncio.sleep(0)
                        events.setdefault(j, asyncio.Event()).set()

                conductors.append(ev.loop.create_task(conductor()))
            last = w == len(case["waves"]) - 1
            res = ev.gather("ALL") if (last or not batch) else ev.gather("BATCH", size=batch)
            for job in res:
                d = job.metadata.get("dequed", "")
                meta.append([int(job.id.split(".")[1]), [int(x) for x in d.split(",") if x != ""]])
    except Exception as e:
        error = "%s: %s" % (type(e).__name__, e)
    finally:
        for t in conductors:
            t.cancel()
        try:
            ev.close()
        except Exception:
            pass
        ex = getattr(ev, "executor", None)
        if ex is not None:
            ex.shutdown(wait=False, cancel_futures=True)
    return q0, njobs, log, meta, error


def check(case):
    q0, njobs, log, meta, error = run_case(case)
    groups = case["queue"] // case["pop"]
    nt = njobs > groups or njobs > case["workers"]
    res = dict(ok=True, kind="oracle", clause="", nontrivial=nt, sig={"backend": case.get("backend", "serial")},
               desc=["queue=%d" % case["queue"], "pop=%d" % case["pop"], "workers=%d" % case["workers"], "jobs=%d" % njobs,
                     "waves=%d" % len(case["waves"]), "contended" if nt else "uncontended"])
    if error is not None:
        kind = error.split(":")[0]
        res["sig"]["exc"] = kind
        return dict(res, ok=False, clause="exception:" + kind, detail=dict(error=error, log=log))
    acc, idx, clause, fin, mech = model().call(F_REPLAY, [case["pop"], q0, njobs, log, meta])
    if not acc:
        return dict(res, ok=False, clause=CLAUSE.get(clause, str(clause)), detail=dict(rejected_event=idx, event=log[idx], log=log, meta=meta))
    if fin != 0:
        return dict(res, ok=False, clause=CLAUSE.get(fin, str(fin)), detail=dict(log=log, meta=meta))
    if case.get("backend", "serial") == "serial" and not mech:
        return dict(res, ok=False, kind="corr", clause="mechanism_fifo", detail=dict(log=log))
    return res


def gen(count, backend):
    def g(rng, tier):
        # smallest contended cases first
        if backend == "serial":
            yield dict(queue=2, pop=1, workers=1, waves=[[3, [0, 1, 2], 0]], pause=2)
            yield dict(queue=4, pop=1, workers=2, waves=[[4, [1, 0, 3, 2], 0]], pause=2)
        n = count * (3 if tier == "search" else 1)
        for _ in range(n):
            pop = rng.choice([1, 1, 2])
            queue = rng.randint(pop, 6)
            waves = []
            total = 0
            for _w in range(rng.choice([1, 1, 2, 3])):
                k = rng.randint(1, max(1, min(8 - total, 5)))
                total += k
                waves.append([k, [rng.randint(0, 7) for _ in range(rng.randint(0, k))], rng.choice([0, 1, 2])])
                if total >= 8:
                    break
            c = dict(queue=queue, pop=pop, workers=rng.randint(1, 3), waves=waves, pause=rng.choice([0, 1, 2, 4]))
            if backend != "serial":
                c.update(backend=backend, durs=[rng.choice([1, 3, 6, 12, 25]) for _ in range(8)])
            yield c
    return g


def shrink(case):
    ws = case["waves"]
    for i in range(len(ws)):
        if len(ws) > 1:
            yield dict(case, waves=ws[:i] + ws[i + 1:])
        if ws[i][0] > 1:
            yield dict(case, waves=ws[:i] + [[ws[i][0] - 1, ws[i][1], ws[i][2]]] + ws[i + 1:])
        if ws[i][1]:
            yield dict(case, waves=ws[:i] + [[ws[i][0], ws[i][1][:-1], ws[i][2]]] + ws[i + 1:])
    if case["queue"] > case["pop"]:
        yield dict(case, queue=case["queue"] - 1)
    if case["workers"] > 1:
        yield dict(case, workers=case["workers"] - 1)
    if case["pop"] > 1:
        yield dict(case, pop=1)


def streams(tier):
    th = tier == "thorough"
    return [
        Stream("serial_conducted", gen(3000 if th else 400, "serial"), check, shrink, timeout=20),
        Stream("thread_random", gen(400 if th else 60, "thread"), check, shrink, timeout=30),
    ]
