"""C17 - Queued evaluators never share a resource between concurrent jobs.

Tie: (a) trace acceptance - the run-function logs Start(job, resources received) / End(job); the extracted Coq oracle
`replay_obs` + `final_ok` (C17_Queue/Check.v) accepts the log iff every start receives exactly queue_pop_per_task resources
that are free at that moment, the 'dequed' metadata names them, every job ends and every resource is back in the queue;
(b) correspondence with the mechanism model `qstep` (exact FIFO prediction of which resources each job gets) on the serial
backend, where the completion order is forced by a conductor; the deque at the end of the run is compared with the predicted one
(order included) and must hold every resource again;
(c) step-wise refinement of the extended mechanism `xstep` (group semaphore, waves, run-functions that raise, close(), thread
pool and zombies): the harness drives the evaluator operation by operation (submit k / let job j return / let job j raise /
close() / let the thread of a cancelled job return) and after EVERY operation compares deque (exact order), which jobs have
started with which resources, which have ended and how, with the state of the model after the same operation (`xdrive`);
on the thread backend the pool's choice of the queued job it starts next is an input of the model (DStart);
(d) the constructor: queue_pop_per_task outside 1..len(queue) must be rejected (`xnew`).
"""
import asyncio
import threading
import time

from ..driver import model
from ..runner import Stream

PROPERTY = "C17"
LEVEL = "proof"
TRUSTED = [
    "asyncio scheduling and the thread pool: observed, not modelled (the theorems hold for every schedule of the mechanism models)",
    "the run-function's own log of (start, resources) / (end) events is the observation; its order is the order of the log appends",
    "step-wise streams: 60 iterations of the event loop after each operation are taken to be enough for asyncio to do everything it can "
    "(the model state compared is the quiescent one, C17_settle_quiescent); on the thread backend WHICH queued job the pool starts next "
    "is read off the log and given to the model as an input (DStart), only its admissibility (a free pool thread) is the model's",
    "step-wise streams: a task whose run-function raised is taken out of Evaluator._tasks_running by the driver (the base class keeps "
    "it there for ever and re-raises at every gather/close - not the queue's concern)",
]
ASSUMPTIONS = ["resources are distinct tokens", "asyncio semaphores wake their waiters in FIFO order (step-wise streams, exact prediction)",
               "run-functions end promptly when cancelled (serial backend; the order in which close() returns resources depends on it)"]
RULE = ("serial_conducted / thread_random: queue 1..6 x pop {1,2} x workers 1..3 x 1..8 jobs in 1..3 waves x random completion orders "
        "(serial: forced by a conductor; thread: random sleeps); non-trivial = more jobs than free resource groups or than workers. "
        "serial_steps / thread_steps: queue 1..6 x pop 1..3 (also not dividing the queue) x workers 1..3 x 2..9 operations among submit k / "
        "return / raise / close(), every run-function released by the driver; all pops from -1 to len(queue)+2 for the constructor; "
        "non-trivial = contention, a failure or a close(). In every stream about 40% of the cases use a queue given by values (qspec): "
        "equal entries (slots of a device), names, tuples, unhashable lists, 1 vs 1.0; judged as multisets on one token per class of equal values")
CLAUSE = {1: "wrong_resource_count", 2: "resource_not_free", 3: "start_end_order", 4: "metadata", 5: "job_never_ran", 6: "resource_lost"}
F_REPLAY = 1701
F_XREPLAY = 1702
F_MECHQ = 1703
F_CONSERVED = 1704


# ---------------------------------------------------------------------------------------------------------------------
# the resources.  Default: len(queue) pairwise distinct integers.  case["qspec"] = [[kind, value], ...] gives the values the
# evaluator really receives: multi-slot devices (the same value once per slot: [0, 0, 1, 1]), names, tuples, unhashable lists,
# numbers that are equal without being identical (1 and 1.0).  The model and the oracle work on tokens: one token per
# class of EQUAL values, so every judgement is about multisets (free + in use = initial collection, counted with
# multiplicity; a job may hold a value as often as it has free slots) and never about the identity of an object.
# ---------------------------------------------------------------------------------------------------------------------
def _decode(v):
    k, x = v
    if k == "t":
        return tuple(x)
    if k == "l":
        return list(x)
    return {"i": int, "f": float, "s": str}[k](x)


class Res:
    def __init__(self, case):
        spec = case.get("qspec")
        self.vals = [_decode(v) for v in spec] if spec else list(range(100, 100 + case["queue"]))
        self.toks = []
        for i, v in enumerate(self.vals):
            t = next((self.toks[k] for k in range(i) if type(self.vals[k]) in (int, float) and type(v) in (int, float) and self.vals[k] == v
                      or type(self.vals[k]) is type(v) and self.vals[k] == v), None)
            self.toks.append(100 + i if t is None else t)
        self.kind = "distinct" if not spec else ("repeated" if len(set(self.toks)) < len(self.toks) else "distinct_objects")

    def fresh(self):
        """The list handed to the evaluator (unhashable members are copied: equal, not identical)."""
        return [list(v) if isinstance(v, list) else v for v in self.vals]

    def tok(self, x):
        for v, t in zip(self.vals, self.toks):
            if (type(v) is type(x) or (type(v) in (int, float) and type(x) in (int, float))) and v == x:
                return t
        return -1

    def toklist(self, xs):
        return [self.tok(x) for x in xs]

    def parse_meta(self, text):
        """'dequed' metadata -> tokens: the text must be the str() of known resources joined by commas (a resource's own
        text may contain commas); anything else is the unknown token -1."""
        reprs = [(str(v), t) for v, t in zip(self.vals, self.toks)]

        def go(rest):
            if rest == "":
                return []
            for r, t in reprs:
                if rest == r:
                    return [t]
                if rest.startswith(r + ","):
                    tail = go(rest[len(r) + 1:])
                    if tail is not None:
                        return [t] + tail
            return None

        out = go(text)
        return [-1] if out is None else out

    def desc(self):
        return "resources=" + self.kind


def _qspec(rng, n):
    """n resources, some of them equal: slots of a device, node names, tuples, lists, 1 vs 1.0."""
    fam = rng.choice(["slots", "slots", "names", "tuples", "lists", "numeq"])
    alpha = rng.randint(1, n)
    idx = sorted(rng.randrange(alpha) for _ in range(n)) if rng.random() < 0.6 else [rng.randrange(alpha) for _ in range(n)]
    if fam == "slots":
        return [["i", k] for k in idx]
    if fam == "names":
        return [["s", "gpu%d" % k] for k in idx]
    if fam == "tuples":
        return [["t", ["node", k]] for k in idx]
    if fam == "lists":
        return [["l", [k]] for k in idx]
    return [["f" if i % 2 else "i", k + 1] for i, k in enumerate(idx)]


def _ids(jobs):
    return [int(j.id.split(".")[1]) for j in jobs]


def run_case(case):
    from deephyper.evaluator import SerialEvaluator, ThreadPoolEvaluator, queued

    backend = case.get("backend", "serial")
    log, events = [], {}
    lock = threading.Lock()

    async def run_async(job, dequed=None):
        jid = int(job.id.split(".")[1])
        log.append([0, jid, R.toklist(dequed)])
        ev = events.setdefault(jid, asyncio.Event())
        await ev.wait()
        log.append([1, jid])
        return jid

    def run_sync(job, dequed=None):
        jid = int(job.id.split(".")[1])
        with lock:
            log.append([0, jid, R.toklist(dequed)])
        time.sleep(case["durs"][jid % len(case["durs"])] / 1000.0)
        with lock:
            log.append([1, jid])
        return jid

    R = Res(case)
    q0 = list(R.toks)
    if backend == "serial":
        ev = queued(SerialEvaluator)(run_async, num_workers=case["workers"], queue=R.fresh(), queue_pop_per_task=case["pop"])
    else:
        ev = queued(ThreadPoolEvaluator)(run_sync, num_workers=case["workers"], queue=R.fresh(), queue_pop_per_task=case["pop"])
    meta, njobs, error, fq = [], 0, None, None
    conductors = []
    try:
        for w, wave in enumerate(case["waves"]):
            n, order, batch = wave
            ev.submit([{"x": njobs + i} for i in range(n)])
            ids = list(range(njobs, njobs + n))
            njobs += n
            if backend == "serial":
                # release every job submitted so far that has not been released, in the given order, one per tick group
                pendings = [j for j in range(njobs) if j not in events or not events[j].is_set()]
                seq = [pendings[i % len(pendings)] for i in order] if pendings else []
                seq = list(dict.fromkeys(seq)) + [j for j in pendings if j not in seq]

                async def conductor(seq=seq, pause=case.get("pause", 2)):
                    for j in seq:
                        for _ in range(pause):
                            await asyncio.sleep(0)
                        events.setdefault(j, asyncio.Event()).set()

                conductors.append(ev.loop.create_task(conductor()))
            last = w == len(case["waves"]) - 1
            res = ev.gather("ALL") if (last or not batch) else ev.gather("BATCH", size=batch)
            for job in res:
                d = job.metadata.get("dequed", "")
                meta.append([int(job.id.split(".")[1]), R.parse_meta(d)])
        fq = R.toklist(ev.queue)
    except Exception as e:
        error = "%s: %s" % (type(e).__name__, e)
    finally:
        for t in conductors:
            t.cancel()
        try:
            ev.close()
        except Exception:
            pass
        ex = getattr(ev, "executor", None)
        if ex is not None:
            ex.shutdown(wait=False, cancel_futures=True)
    return q0, njobs, log, meta, error, fq


def check(case):
    q0, njobs, log, meta, error, fq = run_case(case)
    groups = case["queue"] // case["pop"]
    nt = njobs > groups or njobs > case["workers"]
    res = dict(ok=True, kind="oracle", clause="", nontrivial=nt, sig={"backend": case.get("backend", "serial")},
               desc=["queue=%d" % case["queue"], "pop=%d" % case["pop"], "workers=%d" % case["workers"], "jobs=%d" % njobs,
                     "waves=%d" % len(case["waves"]), "contended" if nt else "uncontended", Res(case).desc()])
    if error is not None:
        kind = error.split(":")[0]
        res["sig"]["exc"] = kind
        return dict(res, ok=False, clause="exception:" + kind, detail=dict(error=error, log=log))
    acc, idx, clause, fin, mech = model().call(F_REPLAY, [case["pop"], q0, njobs, log, meta])
    if not acc:
        return dict(res, ok=False, clause=CLAUSE.get(clause, str(clause)), detail=dict(rejected_event=idx, event=log[idx], log=log, meta=meta))
    if fin != 0:
        return dict(res, ok=False, clause=CLAUSE.get(fin, str(fin)), detail=dict(log=log, meta=meta))
    if case.get("backend", "serial") == "serial" and not mech:
        return dict(res, ok=False, kind="corr", clause="mechanism_fifo", detail=dict(log=log))
    defined, pq, back = model().call(F_MECHQ, [case["pop"], q0, njobs, log, fq])
    if not back:
        return dict(res, ok=False, clause=CLAUSE[6], detail=dict(final_deque=fq, q0=q0, log=log))
    if case.get("backend", "serial") == "serial" and (not defined or pq != fq):
        return dict(res, ok=False, kind="corr", clause="final_deque_order", detail=dict(final_deque=fq, predicted=pq, log=log))
    return res


def gen(count, backend):
    def g(rng, tier):
        # smallest contended cases first
        if backend == "serial":
            yield dict(queue=2, pop=1, workers=1, waves=[[3, [0, 1, 2], 0]], pause=2)
            yield dict(queue=4, pop=1, workers=2, waves=[[4, [1, 0, 3, 2], 0]], pause=2)
            # two slots per device: every entry must come back, also when an equal entry is free at that moment
            yield dict(queue=4, qspec=[["i", 0], ["i", 0], ["i", 1], ["i", 1]], pop=1, workers=3, waves=[[4, [0, 1, 2, 3], 0], [4, [3, 2, 1, 0], 0]], pause=2)
            yield dict(queue=3, qspec=[["i", 1], ["f", 1.0], ["i", 2]], pop=2, workers=2, waves=[[3, [1, 0, 2], 0]], pause=2)
        else:
            yield dict(backend=backend, durs=[3, 6, 1, 12], queue=4, qspec=[["s", "gpu0"], ["s", "gpu0"], ["s", "gpu1"], ["s", "gpu1"]], pop=1, workers=3,
                       waves=[[4, [], 0], [4, [], 0]], pause=0)
        n = count * (3 if tier == "search" else 1)
        for _ in range(n):
            pop = rng.choice([1, 1, 2])
            queue = rng.randint(pop, 6)
            waves = []
            total = 0
            for _w in range(rng.choice([1, 1, 2, 3])):
                k = rng.randint(1, max(1, min(8 - total, 5)))
                total += k
                waves.append([k, [rng.randint(0, 7) for _ in range(rng.randint(0, k))], rng.choice([0, 1, 2])])
                if total >= 8:
                    break
            c = dict(queue=queue, pop=pop, workers=rng.randint(1, 3), waves=waves, pause=rng.choice([0, 1, 2, 4]))
            if rng.random() < 0.4:
                c["qspec"] = _qspec(rng, queue)
            if backend != "serial":
                c.update(backend=backend, durs=[rng.choice([1, 3, 6, 12, 25]) for _ in range(8)])
            yield c
    return g


def shrink(case):
    ws = case["waves"]
    for i in range(len(ws)):
        if len(ws) > 1:
            yield dict(case, waves=ws[:i] + ws[i + 1:])
        if ws[i][0] > 1:
            yield dict(case, waves=ws[:i] + [[ws[i][0] - 1, ws[i][1], ws[i][2]]] + ws[i + 1:])
        if ws[i][1]:
            yield dict(case, waves=ws[:i] + [[ws[i][0], ws[i][1][:-1], ws[i][2]]] + ws[i + 1:])
    if case["queue"] > case["pop"]:
        yield _smaller_queue(case)
    if case["workers"] > 1:
        yield dict(case, workers=case["workers"] - 1)
    if case["pop"] > 1:
        yield dict(case, pop=1)
    yield from _simpler_resources(case)


def _smaller_queue(case):
    c = dict(case, queue=case["queue"] - 1)
    if "qspec" in case:
        c["qspec"] = case["qspec"][:-1]
    return c


def _simpler_resources(case):
    if "qspec" in case:
        yield {k: v for k, v in case.items() if k != "qspec"}  # pairwise distinct integers
        toks = Res(case).toks
        yield dict(case, qspec=[["i", t - 100] for t in toks])  # same pattern of equal values, plain integers


# ---------------------------------------------------------------------------------------------------------------------
# (c) step-wise refinement of the extended mechanism; (d) the constructor
# ---------------------------------------------------------------------------------------------------------------------
OP_SUBMIT, OP_FINISH, OP_FAIL, OP_CLOSE, OP_ZOMBIE_END, OP_START = 0, 1, 2, 3, 4, 5
PH = {0: "pending", 1: "pending", 2: "running", 3: "done", 4: "failed", 5: "cancelled", 6: "zombie", 7: "pending"}
WAIT_S = 10.0  # upper bound for a thread to show up; reaching it is a finding (job_never_started), never a pass


class Boom(Exception):
    pass


class Stepper:
    """Drives one Queued evaluator operation by operation and records what can be seen from outside."""

    def __init__(self, case):
        from deephyper.evaluator import SerialEvaluator, ThreadPoolEvaluator, queued

        self.case = case
        self.thread = case["backend"] == "thread"
        self.R = Res(case)
        self.q0 = list(self.R.toks)
        self.log, self.events, self.fail, self.tasks = [], {}, set(), {}
        self.cv = threading.Condition()
        self.njobs = 0
        self.ops = []  # concrete operations, as given to the model
        if self.thread:
            self.ev = queued(ThreadPoolEvaluator)(self.run_sync, num_workers=case["workers"], queue=self.R.fresh(), queue_pop_per_task=case["pop"])
        else:
            self.ev = queued(SerialEvaluator)(self.run_async, num_workers=case["workers"], queue=self.R.fresh(), queue_pop_per_task=case["pop"])
        if case.get("timeout"):
            # an evaluator-wide time budget that is over at once: every job is marked CANCELLED when it reaches the deadline,
            # but its run-function is awaited all the same - the resources must stay with the job until it really ends
            self.ev.timeout = 0.001

    # ---- run-functions -------------------------------------------------------------------------------------------
    async def run_async(self, job, dequed=None):
        jid = int(job.id.split(".")[1])
        self.log.append([0, jid, self.R.toklist(dequed)])
        e = self.events.setdefault(jid, asyncio.Event())
        try:
            await e.wait()
            if jid in self.fail:
                raise Boom(jid)
            return jid
        finally:
            self.log.append([1, jid])

    def run_sync(self, job, dequed=None):
        jid = int(job.id.split(".")[1])
        with self.cv:
            self.log.append([0, jid, self.R.toklist(dequed)])
            e = self.events.setdefault(jid, threading.Event())
            self.cv.notify_all()
        try:
            e.wait(3 * WAIT_S)
            if jid in self.fail:
                raise Boom(jid)
            return jid
        finally:
            with self.cv:
                self.log.append([1, jid])
                self.cv.notify_all()

    # ---- what is visible -----------------------------------------------------------------------------------------
    def started(self):
        return {e[1]: e[2] for e in self.log if e[0] == 0}

    def ended(self):
        return {e[1] for e in self.log if e[0] == 1}

    def executing(self):
        with self.cv:
            return sorted(set(self.started()) - self.ended())

    def snapshot(self):
        with self.cv:
            st, en = self.started(), self.ended()
        jobs = []
        for j in range(self.njobs):
            t = self.tasks[j]
            if j not in st:
                ph = "cancelled" if t.cancelled() else ("pending" if not t.done() else "ended_without_start")
            elif j not in en:
                ph = "zombie" if t.done() else "running"
            elif not t.done():
                ph = "ending"
            elif t.cancelled():
                ph = "cancelled"
            else:
                ph = "failed" if t.exception() is not None else "done"
            jobs.append([ph, st.get(j)])
        return dict(deque=self.R.toklist(self.ev.queue), jobs=jobs)

    # ---- letting the event loop (and the threads) do what they can -------------------------------------------------
    def ticks(self, n=60):
        loop = self.ev.loop
        if loop is None or loop.is_closed():
            return

        async def _t():
            for _ in range(n):
                await asyncio.sleep(0)

        loop.run_until_complete(_t())

    def model_states(self):
        c = self.case
        return model().call(F_XREPLAY, [c["pop"], c["workers"], self.thread, self.q0, self.ops, [], [], []])[1]

    def settle(self):
        self.ticks()
        if not self.thread:
            return None
        # thread backend: the pool starts queued run-functions while it has free threads; WHICH ones is its choice and is
        # given to the model as an input (DStart j), in the order in which the run-functions were seen to start
        ms = self.model_states()[-1]
        phases = [ph for ph, _r in ms[1]]
        expect = min(self.case["workers"], phases.count(2) + phases.count(6) + phases.count(7))
        with self.cv:
            ok = self.cv.wait_for(lambda: len(set(self.started()) - self.ended()) >= expect, timeout=WAIT_S)
            order = [e[1] for e in self.log if e[0] == 0]
        for j in order:
            if j < len(phases) and phases[j] == 7:
                self.ops.append([OP_START, j])
        self.ticks()
        return None if ok else "job_never_started"

    # ---- operations ------------------------------------------------------------------------------------------------
    def submit(self, k):
        self.ev.submit([{"x": self.njobs + i} for i in range(k)])
        for i, t in enumerate(self.ev._tasks_running[-k:] if k else []):
            self.tasks[self.njobs + i] = t
        self.njobs += k
        self.ops.append([OP_SUBMIT, k])
        return self.settle()

    def release(self, j, fail):
        if fail:
            self.fail.add(j)
        t = self.tasks[j]
        zombie = t.done()
        self.ops.append([OP_ZOMBIE_END if zombie else (OP_FAIL if fail else OP_FINISH), j])
        if self.thread:
            with self.cv:
                self.events[j].set()
                ok = self.cv.wait_for(lambda: j in self.ended(), timeout=WAIT_S)
            if not ok:
                return "job_never_ended"
            if not zombie:
                self.ev.loop.run_until_complete(asyncio.wait([t]))
        else:
            self.events[j].set()
        r = self.settle()
        if fail and not zombie:
            # a job whose run-function raised stays in _tasks_running for ever and every later gather()/close() raises its
            # exception again (base Evaluator, not the queue): the driver takes it out, as a caller that caught the error would
            if t in self.ev._tasks_running:
                self.ev._tasks_running.remove(t)
        return r

    def close(self):
        self.ops.append([OP_CLOSE, 0])
        self.ev.close()
        return self.settle()

    def finish_everything(self):
        for _ in range(3 * self.njobs + 3):
            ex = self.executing()
            if not ex:
                break
            r = self.release(ex[0], False)
            if r:
                return r
        return None

    def shutdown(self):
        for e in list(self.events.values()):
            e.set()
        try:
            self.ev.close()
        except Exception:
            pass
        ex = getattr(self.ev, "executor", None)
        if ex is not None:
            ex.shutdown(wait=False, cancel_futures=True)


def _compare(c, st, sn):
    """After an operation: (oracle) when no job is between submitted and started, deque + resources in use = the initial
    collection; (correspondence) the implementation is in the state of the model after the same operations."""
    phs = [j[0] for j in sn["jobs"]]
    if "pending" not in phs and "ending" not in phs:
        held = [j[1] for j in sn["jobs"] if j[0] == "running"]
        if not model().call(F_CONSERVED, [st.q0, sn["deque"], held])[0]:
            return dict(kind="oracle", clause=CLAUSE[6], detail=dict(deque=sn["deque"], in_use=held, q0=st.q0, jobs=sn["jobs"]))
    states = st.model_states()
    if not states:
        return None
    mq, mjobs, merr, _mm = states[-1]
    mj = []
    for j, (ph, r) in enumerate(mjobs):
        seen = j < len(sn["jobs"]) and sn["jobs"][j][1] is not None
        mj.append([PH[ph], r if ph in (2, 3, 4, 6) or (ph == 5 and seen) else None])
    if merr or sn["deque"] != mq or sn["jobs"] != mj:
        return dict(kind="corr", clause="state_after_op",
                    detail=dict(op_index=len(st.ops) - 1, op=st.ops[-1], implementation=sn, model=dict(deque=mq, jobs=mj, err=merr)))
    return None


def steps_check(case):
    c = case
    sig = {"backend": c["backend"]}
    res = dict(ok=True, kind="oracle", clause="", nontrivial=False, sig=sig, desc=[])
    valid = model().call(F_XREPLAY, [c["pop"], c["workers"], False, list(range(c["queue"])), [], [], [], []])[0]
    st = None
    snaps, err = [], None
    try:
        try:
            st = Stepper(c)
        except ValueError:
            if valid:
                return dict(res, ok=False, clause="valid_pop_rejected", sig=dict(sig, clause="valid_pop_rejected"), detail=dict(case=c))
            return dict(res, nontrivial=True, desc=["constructor=rejects", "pop_vs_queue=%s" % ("zero" if c["pop"] < 1 else "too_large")])
        if not valid:
            # the pinned constructor: show what happens next (model: no job ever receives a resource, C17_unvalidated_pop_starves_refuted)
            what = "accepted"
            try:
                st.submit(2)
                st.ticks()
                sn = st.snapshot()
                what = "accepted; 2 jobs submitted, after 120 loop iterations: %s, deque %s" % ([j[0] for j in sn["jobs"]], sn["deque"])
            except Exception as e:  # noqa: BLE001
                what = "accepted; then %s: %s" % (type(e).__name__, e)
            return dict(res, ok=False, clause="invalid_pop_accepted", sig=dict(sig, clause="invalid_pop_accepted"),
                        detail=dict(queue=c["queue"], pop=c["pop"], implementation=what))
        after_close = False
        bad = None
        for op in c["ops"]:
            kind, arg = op[0], op[1]
            if kind == "submit":
                err = st.submit(arg)
            elif kind in ("finish", "fail"):
                ex = st.executing()
                if not ex:
                    continue
                err = st.release(ex[arg % len(ex)], kind == "fail")
            elif kind == "close":
                err = st.close()
                after_close = True
            snaps.append((len(st.ops) - 1, st.snapshot()))
            bad = err or _compare(c, st, snaps[-1][1])
            if bad:
                break
        if not bad:
            bad = st.finish_everything()
            # the remaining jobs are collected the ordinary way
            if not bad and st.ev._tasks_running:
                st.ev.gather("ALL")
                st.ticks()
            snaps.append((len(st.ops) - 1, st.snapshot()))
            bad = bad or _compare(c, st, snaps[-1][1])
        meta = []
        for job in st.ev.jobs:
            if "dequed" in job.metadata:
                meta.append([int(job.id.split(".")[1]), st.R.parse_meta(job.metadata["dequed"])])
        fq = st.R.toklist(st.ev.queue)
        log, ops, njobs = list(st.log), list(st.ops), st.njobs
    except Exception as e:  # noqa: BLE001
        kind = type(e).__name__
        return dict(res, ok=False, clause="exception:" + kind, sig=dict(sig, clause="exception:" + kind, exc=kind),
                    detail=dict(error="%s: %s" % (kind, e), ops=st.ops if st else None, log=st.log if st else None))
    finally:
        if st is not None:
            st.shutdown()
    kinds = sorted({o[0] for o in c["ops"]})
    res["nontrivial"] = njobs > min(c["queue"] // c["pop"], c["workers"]) or "close" in kinds or "fail" in kinds
    res["desc"] = ["queue=%d" % c["queue"], "pop=%d" % c["pop"], "workers=%d" % c["workers"], "jobs=%d" % min(njobs, 9),
                   "divides=%s" % (c["queue"] % c["pop"] == 0), st.R.desc()] + ["op=" + k for k in kinds] + \
                  ["waves=%d" % min(3, sum(1 for o in c["ops"] if o[0] == "submit"))] + (["timeout_set"] if c.get("timeout") else []) + (["pool_start"] if any(o[0] == OP_START for o in ops) else [])
    sig = dict(sig, after_close=after_close)
    if isinstance(bad, str):
        return dict(res, ok=False, clause=bad, sig=dict(sig, clause=bad), detail=dict(ops=ops, log=log, snapshots=[sn for _i, sn in snaps]))
    _v, states, acc, idx, clause, fin = model().call(F_XREPLAY, [c["pop"], c["workers"], c["backend"] == "thread", st.q0, ops, log, meta, fq])
    # the property, judged by the extracted oracle on what the run-functions saw
    if not acc:
        cl = CLAUSE.get(clause, str(clause))
        return dict(res, ok=False, clause=cl, sig=dict(sig, clause=cl), detail=dict(rejected_event=idx, event=log[idx], ops=ops, log=log, meta=meta))
    if bad:
        # a resource is neither in the deque nor in use (oracle), or the implementation left the states of the model (corr)
        return dict(res, ok=False, kind=bad["kind"], clause=bad["clause"], sig=dict(sig, clause=bad["clause"]), detail=dict(bad["detail"], ops=ops, log=log))
    if fin != 0:
        cl = CLAUSE.get(fin, str(fin))
        return dict(res, ok=False, clause=cl, sig=dict(sig, clause=cl), detail=dict(ops=ops, log=log, meta=meta, final_deque=fq))
    mm = sorted(states[-1][3]) if states else []
    if sorted(meta) != mm:
        return dict(res, ok=False, kind="corr", clause="metadata_vs_model", sig=dict(sig, clause="metadata_vs_model"), detail=dict(meta=meta, model=mm, ops=ops))
    return res


def steps_gen(count, backend):
    def g(rng, tier):
        if backend == "serial":
            # constructor: every pop from -1 to len(queue)+2 for small queues
            for q in (1, 2, 3):
                for p in range(-1, q + 3):
                    yield dict(backend=backend, queue=q, pop=p, workers=1, ops=[["submit", 1], ["finish", 0]])
            # smallest instances of each phenomenon
            yield dict(backend=backend, queue=5, pop=2, workers=2, ops=[["submit", 4], ["fail", 0], ["close", 0], ["submit", 2], ["finish", 0]])
            yield dict(backend=backend, queue=2, pop=1, workers=1, ops=[["submit", 1], ["submit", 1]])  # F21: two jobs run with one worker
            yield dict(backend=backend, queue=2, pop=1, workers=1, timeout=True, ops=[["submit", 3], ["finish", 0], ["fail", 0]])  # deadline passed while holding
            yield dict(backend=backend, queue=6, pop=2, workers=1, ops=[["submit", 3], ["close", 0], ["submit", 3]])  # order in which close() returns
            # multi-slot devices and equal-but-not-identical resources
            yield dict(backend=backend, queue=4, qspec=[["i", 0], ["i", 0], ["i", 1], ["i", 1]], pop=1, workers=4,
                       ops=[["submit", 4], ["finish", 0], ["finish", 0], ["finish", 0], ["finish", 0], ["submit", 4]])
            yield dict(backend=backend, queue=3, qspec=[["i", 0], ["i", 0], ["i", 0]], pop=1, workers=1, ops=[["submit", 2], ["finish", 0], ["fail", 0], ["submit", 3]])
            yield dict(backend=backend, queue=3, qspec=[["l", [1]], ["l", [1]], ["t", ["n", 2]]], pop=1, workers=2, ops=[["submit", 3], ["finish", 1], ["close", 0], ["submit", 2]])
        else:
            yield dict(backend=backend, queue=1, pop=1, workers=2, ops=[["submit", 1], ["close", 0], ["submit", 1]])  # zombie + new job (F52)
            yield dict(backend=backend, queue=2, pop=1, workers=3, ops=[["submit", 1], ["close", 0], ["submit", 2]])
            yield dict(backend=backend, queue=3, pop=2, workers=1, ops=[["submit", 3], ["fail", 0], ["finish", 0]])
            yield dict(backend=backend, queue=2, pop=1, workers=1, ops=[["submit", 1], ["submit", 1], ["finish", 0]])  # the pool serialises the two submits
            yield dict(backend=backend, queue=2, pop=1, workers=1, ops=[["submit", 1], ["close", 0], ["submit", 1], ["close", 0], ["submit", 1]])
            yield dict(backend=backend, queue=3, qspec=[["i", 1], ["i", 1], ["f", 1.0]], pop=1, workers=2, ops=[["submit", 2], ["finish", 0], ["finish", 0], ["submit", 3]])
        n = count * (3 if tier == "search" else 1)
        for _ in range(n):
            pop = rng.choice([1, 1, 2, 2, 3])
            queue = rng.randint(pop, 6)
            ops, total = [], 0
            for _k in range(rng.randint(2, 9)):
                r = rng.random()
                if (not ops or r < 0.3) and total < 8:
                    k = rng.randint(1, min(4, 8 - total))
                    total += k
                    ops.append(["submit", k])
                elif r < 0.65:
                    ops.append(["finish", rng.randint(0, 5)])
                elif r < 0.8:
                    ops.append(["fail", rng.randint(0, 5)])
                elif r < 0.9:
                    ops.append(["close", 0])
                else:
                    ops.append(["finish", rng.randint(0, 5)])
            c = dict(backend=backend, queue=queue, pop=pop, workers=rng.randint(1, 3), ops=ops)
            if rng.random() < 0.4:
                c["qspec"] = _qspec(rng, queue)
            if ["close", 0] not in ops and rng.random() < 0.3:
                c["timeout"] = True  # (with close() the shielded run-function of the serial backend is abandoned, never ends)
            yield c
    return g


def steps_shrink(case):
    if case.get("timeout"):
        yield {k: v for k, v in case.items() if k != "timeout"}
    ops = case["ops"]
    for i in range(len(ops)):
        yield dict(case, ops=ops[:i] + ops[i + 1:])
        if ops[i][0] == "submit" and ops[i][1] > 1:
            yield dict(case, ops=ops[:i] + [["submit", ops[i][1] - 1]] + ops[i + 1:])
        if ops[i][0] == "fail":
            yield dict(case, ops=ops[:i] + [["finish", ops[i][1]]] + ops[i + 1:])
    if case["queue"] > max(1, case["pop"]):
        yield _smaller_queue(case)
    if case["workers"] > 1:
        yield dict(case, workers=case["workers"] - 1)
    if case["pop"] > 1 and case["pop"] <= case["queue"]:
        yield dict(case, pop=case["pop"] - 1)
    yield from _simpler_resources(case)


def streams(tier):
    th = tier == "thorough"
    return [
        Stream("serial_conducted", gen(3000 if th else 400, "serial"), check, shrink, timeout=20),
        Stream("thread_random", gen(400 if th else 60, "thread"), check, shrink, timeout=30),
        Stream("serial_steps", steps_gen(3000 if th else 300, "serial"), steps_check, steps_shrink, timeout=20),
        Stream("thread_steps", steps_gen(500 if th else 60, "thread"), steps_check, steps_shrink, timeout=60),
    ]
