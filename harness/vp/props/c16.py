"""C16 - Early-discarding never cuts the best evaluation and respects the step budget.

Tie: step-wise refinement.  The same interleaved list of record()/stopped() operations is executed on real stopper
objects (deep copies made by Job.create_running_job, attached to RunningJobs that share one MemoryStorage) and on the
extracted Coq machine DH.C16_Stoppers.Model.step; compared after EVERY step: the stopped() result and the stopper
metadata of every job ("_completed", "_completed_rung_<r>").  The property itself is decided on the implementation's
outputs by the extracted Coq monitor DH.C16_Stoppers.Check.monitor (clauses computed from the history of observations
only, never from the implementation's or the model's rung bookkeeping).
"""
import itertools
from fractions import Fraction

from ..driver import model
from ..runner import Stream

PROPERTY = "C16"
LEVEL = "proof"
TRUSTED = [
    "objectives are dyadic numbers k/2^s handed to the model as integers on one common power-of-two scale per case "
    "(epsilon included); with the default epsilon 1e-10 the objectives lie on a grid of spacing >= 2^-10 and magnitude "
    "< 2^10, so fl(objective + epsilon) compares with grid values (and with means of two grid values) exactly as "
    "objective + epsilon does over the rationals",
    "numpy sort / median / integer floor division on such values; isinstance(x, numbers.Number) separates numbers from failures",
    "MemoryStorage.store_job_metadata / load_metadata_from_all_jobs / load_job (the storage is property C13's subject)",
]
ASSUMPTIONS = [
    "objectives are finite numbers or failure strings (NaN/inf objectives are outside the property)",
    "stopper parameters: max_steps >= 1, min_steps >= 1, integer reduction_factor >= 2, min_early_stopping_rate >= 0, "
    "interval_steps >= 1, epsilon >= 0; budgets are the step numbers 1,2,3,... (record(k, .) is the k-th observation)",
    "successive halving: 'best is never stopped' is claimed when min_competing <= number of competitors recorded at the "
    "budget (always true for the default 0); the bootstrap rule of min_competing > 0 stops evaluations by design",
    "the median rule is modelled WITH the repair fixes/F16_median_rung_lag.patch (see known_findings.json while it is not applied)",
]
RULE = ("protocol streams: stopper parameters from the grid of the property's quantifier, 1..6 evaluations with learning curves "
        "from 5 families (monotone, crossing, constant, noisy, with failures) on a dyadic grid, a random or exhaustive "
        "interleaving of the evaluations' record()/stopped() operations; free stream: arbitrary budgets and operations after "
        "a stop (model fidelity only). non-trivial = at least one evaluation is stopped early at a decision point and at "
        "least one is promoted past a decision point with >= 2 competitors")

F_RUN, F_PROTO, F_REF, F_MON = 1601, 1602, 1603, 1604
KIND = {"idle": 0, "const": 1, "asha": 2, "median_old": 3, "median": 4}
DEFAULT_EPS = Fraction(1e-10)


# ---------------------------------------------------------------- parameters
def eps_fraction(case):
    e = case.get("eps", "default")
    if e == "default":
        return DEFAULT_EPS
    return Fraction(e[0], 2 ** e[1])


def denom(case):
    d = max(2 ** case.get("scale", 0), eps_fraction(case).denominator)
    return d


def params_vec(case, kind):
    D = denom(case)
    eps = eps_fraction(case) * D
    assert eps.denominator == 1
    return [KIND[kind], case["max_steps"], case.get("min_steps", 1), case.get("rf", 3), case.get("mesr", 0), case.get("min_comp", 0),
            case.get("min_full", 0), case.get("interval", 1), int(eps), case.get("stop_step", 1)]


def make_stopper(case):
    from deephyper.stopper import ConstantStopper, IdleStopper, MedianStopper, SuccessiveHalvingStopper

    k = case["stopper"]
    kw = {}
    if case.get("eps", "default") != "default":
        kw["epsilon"] = float(eps_fraction(case))
    if k == "asha":
        return SuccessiveHalvingStopper(max_steps=case["max_steps"], min_steps=case.get("min_steps", 1), reduction_factor=case.get("rf", 3),
                                        min_early_stopping_rate=case.get("mesr", 0), min_competing=case.get("min_comp", 0),
                                        min_fully_completed=case.get("min_full", 0), **kw)
    if k == "median":
        return MedianStopper(max_steps=case["max_steps"], min_steps=case.get("min_steps", 1), min_competing=case.get("min_comp", 0),
                             interval_steps=case.get("interval", 1), **kw)
    if k == "const":
        return ConstantStopper(max_steps=case["max_steps"], stop_step=case.get("stop_step", 1))
    if k == "idle":
        return IdleStopper(max_steps=case["max_steps"])
    raise ValueError(k)


# ---------------------------------------------------------------- implementation side
class Impl:
    """n RunningJobs with deep copies of one stopper, sharing one MemoryStorage."""

    def __init__(self, case):
        from deephyper.evaluator import Job
        from deephyper.evaluator.storage import MemoryStorage

        self.case = case
        self.scale = 2 ** case.get("scale", 0)
        self.D = denom(case)
        self.st = MemoryStorage()
        self.sid = self.st.create_new_search()
        self.proto = make_stopper(case)
        self.n = case["njobs"]
        self.jobs = [None] * self.n
        self.Job = Job
        if not case.get("lazy"):
            for j in range(self.n):
                self._create(j)

    def _create(self, j):
        jid = self.st.create_new_job(self.sid)
        self.jobs[j] = self.Job(jid, {}, None, self.st).create_running_job(self.proto)

    def record(self, j, b, z):
        if self.jobs[j] is None:
            self._create(j)
        self.jobs[j].record(b, "F" if z is None else z / self.scale)

    def stopped(self, j):
        r = self.jobs[j].stopped()
        return bool(r)

    def metas(self):
        """per job: ({rung: int | None}, completed code 0/1/2)"""
        from numbers import Number

        out = []
        for rj in self.jobs:
            if rj is None:
                out.append(({}, 0))
                continue
            md = self.st.load_job(rj.id)["metadata"]
            rungs, comp = {}, 0
            for k, v in md.items():
                if k == "_completed":
                    comp = 2 if v else 1
                elif k.startswith("_completed_rung_"):
                    r = int(k[len("_completed_rung_"):])
                    if isinstance(v, Number):
                        q = Fraction(float(v)) * self.D
                        if q.denominator != 1:
                            raise ValueError("stored value %r is not on the case's grid" % (v,))
                        rungs[r] = int(q)
                    else:
                        rungs[r] = None
                else:
                    raise ValueError("unexpected metadata key %r" % (k,))
            out.append((rungs, comp))
        return out


def run_protocol(case):
    """Drives the implementation by the schedule; returns (ops, outs, metas per step).
    An evaluation whose stopped() returned True gets no further operation (the run-function breaks)."""
    im = Impl(case)
    n, curves = case["njobs"], case["curves"]
    nrec = [0] * n
    pend = [False] * n
    done = [False] * n
    ops, outs, metas = [], [], []

    def do_rec(j):
        b = nrec[j] + 1
        z = curves[j][b - 1] if b - 1 < len(curves[j]) else curves[j][-1]
        im.record(j, b, z)
        nrec[j] = b
        pend[j] = True
        ops.append(["r", j, b, z])
        outs.append(None)
        metas.append(im.metas())

    def do_stp(j):
        o = im.stopped(j)
        pend[j] = False
        done[j] = o
        ops.append(["s", j])
        outs.append(o)
        metas.append(im.metas())

    cap = case["max_steps"] + 3  # an implementation that never says stop is cut here (and reported by the monitor)
    for j in case["sched"]:
        if done[j] or (not pend[j] and nrec[j] >= cap):
            continue
        if case.get("gran", "op") == "step":
            do_rec(j)
            do_stp(j)
        elif pend[j]:
            do_stp(j)
        else:
            do_rec(j)
    if case.get("drain", True):
        for j in range(n):
            while not done[j] and (pend[j] or nrec[j] < cap):
                if pend[j]:
                    do_stp(j)
                else:
                    do_rec(j)
    return ops, outs, metas


def run_free(case):
    im = Impl(case)
    ops, outs, metas = case["ops"], [], []
    for o in ops:
        if o[0] == "r":
            im.record(o[1], o[2], o[3])
            outs.append(None)
        else:
            outs.append(im.stopped(o[1]))
        metas.append(im.metas())
    return ops, outs, metas


# ---------------------------------------------------------------- model side
def enc_obj(z, mult):
    return [] if z is None else [z * mult]


def enc_ops(case, ops):
    mult = denom(case) // 2 ** case.get("scale", 0)
    return [[0, o[1], o[2], enc_obj(o[3], mult)] if o[0] == "r" else [1, o[1]] for o in ops]


def canon_meta(lst):
    d = {}
    for r, x in lst:  # newest binding first
        if r not in d:
            d[r] = x[0] if x else None
    return d


def run_model(case, kind, ops):
    res = model().call(F_RUN, [params_vec(case, kind), case["njobs"], enc_ops(case, ops)])
    outs, metas = [], []
    for o, st in res:
        outs.append(None if o == 2 else bool(o))
        metas.append([(canon_meta(jb[0]), jb[1]) for jb in st])
    return outs, metas


def first_diff(outs_a, metas_a, outs_b, metas_b):
    for i, (oa, ob) in enumerate(zip(outs_a, outs_b)):
        if oa != ob:
            return i, "stopped_result", dict(step=i, impl=oa, model=ob)
        if metas_a[i] != metas_b[i]:
            return i, "metadata", dict(step=i, impl=repr(metas_a[i]), model=repr(metas_b[i]))
    return None
