"""C16 - Early-discarding never cuts the best evaluation and respects the step budget.

Tie: step-wise refinement.  The same interleaved list of record()/stopped() operations is executed on real stopper
objects (deep copies made by Job.create_running_job, attached to RunningJobs that share one MemoryStorage) and on the
extracted Coq machine DH.C16_Stoppers.Model.step; compared after EVERY step: the stopped() result and the stopper
metadata of every job ("_completed", "_completed_rung_<r>").  The property itself is decided on the implementation's
outputs by the extracted Coq monitor DH.C16_Stoppers.Check.monitor (clauses computed from the history of observations
only, never from the implementation's or the model's rung bookkeeping).
"""
import itertools
from fractions import Fraction

from ..driver import model
from ..runner import Stream

PROPERTY = "C16"
LEVEL = "proof"
TRUSTED = [
    "objectives are dyadic numbers k/2^s handed to the model as integers on one common power-of-two scale per case "
    "(epsilon included); with the default epsilon 1e-10 the objectives lie on a grid of spacing >= 2^-10 and magnitude "
    "< 2^10, so fl(objective + epsilon) compares with grid values (and with means of two grid values) exactly as "
    "objective + epsilon does over the rationals",
    "near_ties family: objectives 1 + k*2^-40 with integer k; with the default epsilon fl(objective + 1e-10) vs a grid value "
    "(or the mean of two: half-integer k) is decided by (k - k')*2^-40 + 1e-10, whose distance from 0 is >= 4e-14 >> 2^-53, so "
    "the floating-point comparison equals the rational one; huge family: +-(2^60 + k*2^10), exactly representable, sums of "
    "two exact, spacing 2^10 >> epsilon >> 0 so both comparisons reduce to objective >= threshold",
    "Python int / float / numpy.float64 / numpy.int64 objectives of equal value are the same number for the model",
    "numpy sort / median / integer floor division on such values; isinstance(x, numbers.Number) separates numbers from failures",
    "MemoryStorage.store_job_metadata / load_metadata_from_all_jobs / load_job (the storage is property C13's subject)",
]
ASSUMPTIONS = [
    "objectives are finite numbers or failure strings (NaN/inf objectives are outside the property)",
    "stopper parameters: max_steps >= 1, min_steps >= 1, integer reduction_factor >= 2, min_early_stopping_rate >= 0, "
    "interval_steps >= 1, epsilon >= 0; budgets are the step numbers 1,2,3,... (record(k, .) is the k-th observation)",
    "successive halving: 'best is never stopped' is claimed when min_competing <= number of competitors recorded at the "
    "budget (always true for the default 0); the bootstrap rule of min_competing > 0 stops evaluations by design",
    "the median rule is modelled WITH the repair fixes/F16_median_rung_lag.patch (see known_findings.json while it is not applied)",
]
RULE = ("*_protocol: stopper parameters from the grid of the property's quantifier (max_steps 4/9/27, min_steps, rf 2/3/4, "
        "interval 1/2/3, min_competing 0..3, epsilon default/0/dyadic, min_fully_completed, min_early_stopping_rate), 1..6 "
        "evaluations with learning curves from 5 families (monotone, crossing, constant = exact ties, noisy, plateau; with and "
        "without failures) on a dyadic grid, 6 schedule styles (sequential, round robin, random at step or operation "
        "granularity, staggered, all-record-then-all-ask); *_exhaustive: EVERY interleaving of 3 evaluations x max_steps 4 "
        "(whole steps, 34650) and of 2 evaluations x max_steps 3 (single operations, 924) per parameter/curve set, one case = "
        "one block of interleavings sharing a prefix (block_runs in the histogram); search_end_to_end: RandomSearch on the "
        "SerialEvaluator with an async run-function, operation order as produced by the evaluator; free_ops: arbitrary "
        "budgets, repeated stopped(), operations after a stop (model fidelity only, no oracle). Across the streams: 8 objective "
        "families (monotone, crossing, constant, noisy, plateau, near_ties = margins 1e-12..1e-6 around the default epsilon, "
        "huge = +-2^60, zeros), objectives passed as float / int / numpy.float64 / numpy.int64, float-typed parameters and "
        "budgets, failures at the first step, two searches on one storage, the caller editing every list it gets back, "
        "the prototype stopper inspected at the end, thread evaluator and a second search() call end to end. non-trivial = at least one evaluation is "
        "stopped early (before max_steps, without failure) and at least one continues past a budget that >= 2 evaluations recorded")
COQ_DIRS = ()

F_RUN, F_PROTO, F_REF, F_MON = 1601, 1602, 1603, 1604
KIND = {"idle": 0, "const": 1, "asha": 2, "median_old": 3, "median": 4}
DEFAULT_EPS = Fraction(1e-10)


# ---------------------------------------------------------------- parameters
def eps_fraction(case):
    e = case.get("eps", "default")
    if e == "default":
        return DEFAULT_EPS
    return Fraction(e[0], 2 ** e[1])


def denom(case):
    d = max(2 ** case.get("scale", 0), eps_fraction(case).denominator)
    return d


def params_vec(case, kind):
    D = denom(case)
    eps = eps_fraction(case) * D
    assert eps.denominator == 1
    return [KIND[kind], case["max_steps"], case.get("min_steps", 1), case.get("rf", 3), case.get("mesr", 0), case.get("min_comp", 0),
            case.get("min_full", 0), case.get("interval", 1), int(eps), case.get("stop_step", 1)]


def make_stopper(case):
    from deephyper.stopper import ConstantStopper, IdleStopper, MedianStopper, SuccessiveHalvingStopper

    k = case["stopper"]
    kw = {}
    if case.get("eps", "default") != "default":
        kw["epsilon"] = float(eps_fraction(case))
    # the documented types of min_steps / reduction_factor / min_early_stopping_rate are float: same values as floats
    num = float if case.get("ptype") == "float" else int
    if k == "asha":
        return SuccessiveHalvingStopper(max_steps=case["max_steps"], min_steps=num(case.get("min_steps", 1)), reduction_factor=num(case.get("rf", 3)),
                                        min_early_stopping_rate=num(case.get("mesr", 0)), min_competing=case.get("min_comp", 0),
                                        min_fully_completed=case.get("min_full", 0), **kw)
    if k == "median":
        return MedianStopper(max_steps=case["max_steps"], min_steps=case.get("min_steps", 1), min_competing=case.get("min_comp", 0),
                             interval_steps=case.get("interval", 1), **kw)
    if k == "const":
        return ConstantStopper(max_steps=case["max_steps"], stop_step=case.get("stop_step", 1))
    if k == "idle":
        return IdleStopper(max_steps=case["max_steps"])
    raise ValueError(k)


# ---------------------------------------------------------------- implementation side
def check_grid(case, z):
    """fail closed: an objective outside the regimes for which TRUSTED argues that binary64 and exact arithmetic agree"""
    sc = case.get("scale", 0)
    ok = (sc <= 10 and abs(z) < 2 ** (10 + sc)) or (sc == 40 and abs(z - 2 ** 40) <= 2 ** 22) \
        or (sc == 0 and 2 ** 59 <= abs(z) < 2 ** 62 and z % 2 ** 10 == 0)
    if not ok:
        raise ValueError("objective %d / 2^%d is outside the exact regimes of the harness" % (z, sc))


def conv_budget(case, b, j):
    """budgets are step numbers; the documented type is float: every third evaluation passes them as floats"""
    return float(b) if case.get("btype") == "float" and j % 3 != 1 else b


def conv_value(case, z, j, b):
    """the objective handed to record(): a failure string, or the number z / 2^scale as a Python float, a Python int,
    a numpy float64 or a numpy int64 (the integer types only when the value is integral)"""
    import numpy as np

    if z is None:
        return "F" if (j + b) % 3 else "F_%d" % b
    check_grid(case, z)
    scale = 2 ** case.get("scale", 0)
    vt = case.get("vtype", "float")
    if vt == "mixed":
        vt = ["float", "int", "npfloat", "npint"][(j + b) % 4]
    if vt in ("int", "npint") and z % scale == 0 and abs(z // scale) < 2 ** 62:
        return int(z // scale) if vt == "int" else np.int64(z // scale)
    v = z / scale
    return np.float64(v) if vt == "npfloat" else v


class Impl:
    """n RunningJobs with deep copies of one stopper, sharing one MemoryStorage (one or several searches on it)."""

    def __init__(self, case):
        from deephyper.evaluator import Job
        from deephyper.evaluator.storage import MemoryStorage

        self.case = case
        self.scale = 2 ** case.get("scale", 0)
        self.D = denom(case)
        self.st = MemoryStorage()
        self.n = case["njobs"]
        self.groups = case.get("searches") or [0] * self.n
        self.sids = [self.st.create_new_search() for _ in range(max(self.groups + [0]) + 1)]
        self.proto = make_stopper(case)
        self.jobs = [None] * self.n
        self.hist = [([], []) for _ in range(self.n)]   # what the harness recorded: budgets, objectives
        self.problems = []
        self.Job = Job
        if not case.get("lazy"):
            for j in range(self.n):
                self._create(j)

    def _create(self, j):
        jid = self.st.create_new_job(self.sids[self.groups[j]])
        self.jobs[j] = self.Job(jid, {}, None, self.st).create_running_job(self.proto)

    def _after(self, j, what):
        """public read-outs after every operation; the returned copies are then edited (aliasing probe)"""
        rj = self.jobs[j]
        obs = rj.stopper.observations
        exp = [list(self.hist[j][0]), list(self.hist[j][1])]
        if obs != exp and not self.problems:
            self.problems.append(("observations", dict(after=what, job=j, got=repr(obs), expected=repr(exp))))
        if exp[1] and rj.objective != exp[1][-1] and not self.problems:
            self.problems.append(("objective_readout", dict(after=what, job=j, got=repr(rj.objective), expected=repr(exp[1][-1]))))
        obs[0].append(-7)
        obs[1].append("edited-by-caller")
        obs[1][:1] = ["edited-by-caller"]

    def record(self, j, b, z):
        if self.jobs[j] is None:
            self._create(j)
        v = conv_value(self.case, z, j, b)
        b = conv_budget(self.case, b, j)
        self.jobs[j].record(b, v)
        self.hist[j][0].append(b)
        self.hist[j][1].append(v)
        self._after(j, "record")

    def stopped(self, j):
        r = self.jobs[j].stopped()
        self._after(j, "stopped")
        return bool(r)

    def metas(self):
        """per job: ({rung: int | None}, completed code 0/1/2)"""
        return [({}, 0) if rj is None else read_meta(self.st.load_job(rj.id)["metadata"], self.D) for rj in self.jobs]

    def finish(self):
        """the stopper object handed in is a prototype: running evaluations must not leave traces in it"""
        if (self.proto.observations != [[], []] or self.proto.job is not None) and not self.problems:
            self.problems.append(("prototype_mutated", dict(observations=repr(self.proto.observations), job=repr(self.proto.job))))
        return self.problems


def run_protocol(case):
    """Drives the implementation by the schedule; returns (ops, outs, metas per step).
    An evaluation whose stopped() returned True gets no further operation (the run-function breaks)."""
    im = Impl(case)
    n, curves = case["njobs"], case["curves"]
    nrec = [0] * n
    pend = [False] * n
    done = [False] * n
    ops, outs, metas = [], [], []

    def do_rec(j):
        b = nrec[j] + 1
        z = curves[j][b - 1] if b - 1 < len(curves[j]) else curves[j][-1]
        im.record(j, b, z)
        nrec[j] = b
        pend[j] = True
        ops.append(["r", j, b, z])
        outs.append(None)
        metas.append(im.metas())

    def do_stp(j):
        o = im.stopped(j)
        pend[j] = False
        done[j] = o
        ops.append(["s", j])
        outs.append(o)
        metas.append(im.metas())

    cap = case["max_steps"] + 3  # an implementation that never says stop is cut here (and reported by the monitor)
    for j in case["sched"]:
        if done[j] or (not pend[j] and nrec[j] >= cap):
            continue
        if case.get("gran", "op") == "step":
            do_rec(j)
            do_stp(j)
        elif pend[j]:
            do_stp(j)
        else:
            do_rec(j)
    if case.get("drain", True):
        for j in range(n):
            while not done[j] and (pend[j] or nrec[j] < cap):
                if pend[j]:
                    do_stp(j)
                else:
                    do_rec(j)
    return ops, outs, metas, im.finish()


def run_free(case):
    im = Impl(case)
    ops, outs, metas = case["ops"], [], []
    for o in ops:
        if o[0] == "r":
            im.record(o[1], o[2], o[3])
            outs.append(None)
        else:
            outs.append(im.stopped(o[1]))
        metas.append(im.metas())
    return ops, outs, metas, im.finish()


def read_meta(md, D, strict=True):
    """storage metadata dict of one job -> ({rung: int | None}, completed code)"""
    from numbers import Number

    rungs, comp = {}, 0
    for k, v in md.items():
        if k == "_completed":
            comp = 2 if v else 1
        elif k.startswith("_completed_rung_"):
            r = int(k[len("_completed_rung_"):])
            if isinstance(v, Number):
                q = Fraction(float(v)) * D
                if q.denominator != 1:
                    raise ValueError("stored value %r is not on the case's grid" % (v,))
                rungs[r] = int(q)
            else:
                rungs[r] = None
        elif strict:
            raise ValueError("unexpected metadata key %r" % (k,))
    return rungs, comp


def run_search(case):
    """End to end: a RandomSearch whose run-function follows the documented loop record()/stopped().
    method "serial": SerialEvaluator, async run-function that yields to the other evaluations where the case says so;
    method "thread": ThreadPoolEvaluator, plain run-function, every operation (with its log entry and metadata
    snapshot) under one lock.  The order of operations is whatever the evaluator produces; it is logged from inside the
    run-function.  search() may be called a second time on the same Search object (same stopper, same storage)."""
    import asyncio
    import tempfile
    import threading
    import time

    from deephyper.evaluator import Evaluator
    from deephyper.hpo import HpProblem, RandomSearch

    D = denom(case)
    curves, T, yld = case["curves"], case["max_steps"], case.get("yield", "rs")
    ops, outs, snaps = [], [], []
    lock = threading.Lock()

    def snapshot(job):
        st = job.storage
        sid = job.id.split(".")[0]
        ids = sorted(st.load_all_job_ids(sid), key=lambda x: int(x.split(".")[-1]))
        snaps.append([read_meta(st.load_job(i)["metadata"], D, strict=False) for i in ids])

    def do_rec(job, k, b, z):
        with lock:
            job.record(conv_budget(case, b, k), conv_value(case, z, k, b))
            ops.append(["r", k, b, z])
            outs.append(None)
            snapshot(job)

    def do_stp(job, k):
        with lock:
            o = bool(job.stopped())
            ops.append(["s", k])
            outs.append(o)
            snapshot(job)
        return o

    async def run_async(job):
        k = int(job.id.split(".")[-1])
        c = curves[k % len(curves)]
        b = 0
        for b in range(1, T + 4):
            do_rec(job, k, b, c[min(b - 1, len(c) - 1)])
            if "r" in yld:
                await asyncio.sleep(0)
            o = do_stp(job, k)
            if "s" in yld:
                await asyncio.sleep(0)
            if o:
                break
        return {"objective": job.objective, "metadata": {"budget": b}}

    def run_sync(job):
        k = int(job.id.split(".")[-1])
        c = curves[k % len(curves)]
        b = 0
        for b in range(1, T + 4):
            do_rec(job, k, b, c[min(b - 1, len(c) - 1)])
            if "r" in yld:
                time.sleep(0)
            o = do_stp(job, k)
            if "s" in yld:
                time.sleep(0)
            if o:
                break
        return {"objective": job.objective, "metadata": {"budget": b}}

    problem = HpProblem()
    problem.add_hyperparameter((0.0, 1.0), "x")
    proto = make_stopper(case)
    problems = []
    with tempfile.TemporaryDirectory(prefix="vp_c16_") as d:
        if case.get("method", "serial") == "thread":
            ev = Evaluator.create(run_sync, method="thread", method_kwargs={"num_workers": case.get("num_workers", 1)})
        else:
            ev = Evaluator.create(run_async, method="serial", method_kwargs={"num_workers": case.get("num_workers", 1)})
        try:
            search = RandomSearch(problem, ev, random_state=case.get("seed", 0), log_dir=d, stopper=proto)
            search.search(max_evals=case.get("max_evals", 4))
            if case.get("second_call"):
                search.search(max_evals=case["second_call"])
        finally:
            ev.close()
    if proto.observations != [[], []] or proto.job is not None:
        problems.append(("prototype_mutated", dict(observations=repr(proto.observations), job=repr(proto.job))))
    n = max([len(sn) for sn in snaps] + [1 + max([o[1] for o in ops] + [0])])
    metas = [sn + [({}, 0)] * (n - len(sn)) for sn in snaps]
    return n, ops, outs, metas, problems


# ---------------------------------------------------------------- model side
def enc_obj(z, mult):
    return [] if z is None else [z * mult]


def enc_ops(case, ops):
    mult = denom(case) // 2 ** case.get("scale", 0)
    return [[0, o[1], o[2], enc_obj(o[3], mult)] if o[0] == "r" else [1, o[1]] for o in ops]


def canon_meta(lst):
    d = {}
    for r, x in lst:  # newest binding first
        if r not in d:
            d[r] = x[0] if x else None
    return d


def run_model(case, kind, ops):
    res = model().call(F_RUN, [params_vec(case, kind), case["njobs"], enc_ops(case, ops)])
    outs, metas = [], []
    for o, st in res:
        outs.append(None if o == 2 else bool(o))
        metas.append([(canon_meta(jb[0]), jb[1]) for jb in st])
    return outs, metas


def first_diff(outs_a, metas_a, outs_b, metas_b):
    for i, (oa, ob) in enumerate(zip(outs_a, outs_b)):
        if oa != ob:
            return i, "stopped_result", dict(step=i, impl=oa, model=ob)
        if metas_a[i] != metas_b[i]:
            return i, "metadata", dict(step=i, impl=repr(metas_a[i]), model=repr(metas_b[i]))
    return None


# ---------------------------------------------------------------- checks
CLAUSE = {1: "max_steps_not_stopped", 2: "failure_not_stopped", 3: "best_stopped", 4: "stopped_inside_topk", 5: "same_budget",
          6: "differs_from_reference", 9: "protocol"}


def enc_metas(case, metas):
    """metadata of all jobs after one step -> (rung bindings per job, completed codes)"""
    return [[[r, [] if z is None else [z]] for r, z in sorted(rungs.items())] for rungs, _ in metas], [c for _, c in metas]


def run_monitor(case, kind, ops, outs, metas):
    eops = enc_ops(case, ops)
    items = []
    for eo, o, mt in zip(eops, outs, metas):
        m, c = enc_metas(case, mt)
        items.append([eo, 2 if o is None else int(o), m, c])
    return model().call(F_MON, [params_vec(case, kind), case["njobs"], items])


def model_kind(case):
    return case["stopper"]  # "median" = the repaired rule (KMedian)


def describe(case, ops, outs):
    n = case["njobs"]
    early = 0
    nrec = [0] * n
    last = [None] * n
    seen = {}
    promoted2 = False
    for op, o in zip(ops, outs):
        j = op[1]
        if op[0] == "r":
            nrec[j] = op[2]
            last[j] = op[3]
            if op[3] is not None:
                seen[op[2]] = seen.get(op[2], 0) + 1
        else:
            if o and last[j] is not None and nrec[j] < case["max_steps"]:
                early += 1
            if o is False and seen.get(nrec[j], 0) >= 2:
                promoted2 = True
    desc = ["stopper=%s" % case["stopper"], "njobs=%d" % n, "max_steps=%d" % case["max_steps"], "early_stops=%s" % (early if early < 3 else "3+"),
            "gran=%s" % case.get("gran", "op"), "family=%s" % case.get("family", "?"),
            "failures=%s" % any(z is None for c in case.get("curves", []) for z in c)]
    if case["stopper"] in ("asha", "median"):
        desc.append("%s:min_comp=%d" % (case["stopper"], case.get("min_comp", 0)))
    if case["stopper"] == "asha":
        desc.append("rf=%d" % case.get("rf", 3))
    if case["stopper"] == "median":
        desc.append("interval=%d" % case.get("interval", 1))
    return desc, (early > 0 and promoted2)


def judge_one(case, ops, outs, metas, oracle=True):
    kind = model_kind(case)
    desc, nt = describe(case, ops, outs)
    res = dict(ok=True, kind="oracle", clause="", nontrivial=nt, desc=desc, sig={"stopper": case["stopper"], "f16_median_lag": False})
    mo, mm = run_model(case, kind, ops)
    d = first_diff(outs, metas, mo, mm)
    if case["stopper"] == "median" and d is not None:
        # does the implementation behave exactly like the MedianStopper before the F16 fix (rung index lags)?
        oo, om = run_model(case, "median_old", ops)
        if first_diff(outs, metas, oo, om) is None:
            res["sig"]["f16_median_lag"] = True
    if oracle:
        v = run_monitor(case, kind, ops, outs, metas)
        if v:
            step, c = v
            return dict(res, ok=False, clause=CLAUSE.get(c, "clause_%d" % c),
                        detail=dict(step=step, op=ops[step], impl_out=outs[step], ops=ops, outs=outs, model_outs=mo,
                                    metadata_after=repr(metas[step])))
    if d is not None:
        i, clause, det = d
        return dict(res, ok=False, kind="corr", clause=clause, detail=dict(det, op=ops[i], ops=ops, impl_outs=outs, model_outs=mo))
    return res


def judge(case, ops, outs, metas, oracle=True, problems=()):
    """several searches on one storage: every search is judged on its own operations (C16_search_isolation);
    every step may change the metadata of the addressed evaluation only (C16_frame)"""
    n = case["njobs"]
    groups = case.get("searches") or [0] * n
    res = None
    for k in sorted(set(groups)):
        jobs = [j for j in range(n) if groups[j] == k]
        if len(set(groups)) == 1:
            sub, ops_k, outs_k, metas_k = case, ops, outs, metas
        else:
            ren = {j: i for i, j in enumerate(jobs)}
            steps = [i for i, o in enumerate(ops) if groups[o[1]] == k]
            ops_k = [[ops[i][0], ren[ops[i][1]]] + list(ops[i][2:]) for i in steps]
            outs_k = [outs[i] for i in steps]
            metas_k = [[metas[i][j] for j in jobs] for i in steps]
            sub = dict(case, njobs=len(jobs), searches=None)
            if "curves" in case:
                sub["curves"] = [case["curves"][j] for j in jobs if j < len(case["curves"])] or case["curves"]
        r = judge_one(sub, ops_k, outs_k, metas_k, oracle)
        if not r["ok"]:
            r["desc"] = r["desc"] + ["searches=%d" % len(set(groups))]
            return r
        if res is None:
            res = r
        else:
            res["nontrivial"] = res["nontrivial"] or r["nontrivial"]
    res["desc"] = res["desc"] + ["searches=%d" % len(set(groups)), "vtype=%s" % case.get("vtype", "float"), "ptype=%s" % case.get("ptype", "int"),
                               "btype=%s" % case.get("btype", "int")]
    prev = [({}, 0)] * n
    for i, (o, mt) in enumerate(zip(ops, metas)):
        changed = [j for j in range(n) if mt[j] != prev[j]]
        if any(j != o[1] for j in changed):
            return dict(res, ok=False, kind="corr", clause="frame",
                        detail=dict(step=i, op=o, changed_jobs=changed, before=repr(prev), after=repr(mt), ops=ops))
        prev = mt
    if problems:
        clause, det = problems[0]
        return dict(res, ok=False, kind="corr", clause=clause, detail=dict(det, ops=ops))
    return res


def check_proto(case):
    ops, outs, metas, problems = run_protocol(case)
    return judge(case, ops, outs, metas, oracle=True, problems=problems)


def check_search(case):
    n, ops, outs, metas, problems = run_search(case)
    c = dict(case, njobs=n)
    r = judge(c, ops, outs, metas, oracle=True, problems=problems)
    r["desc"] = r["desc"] + ["num_workers=%d" % case.get("num_workers", 1), "yield=%s" % (case.get("yield", "rs") or "none"), "evaluations=%d" % n,
                             "method=%s" % case.get("method", "serial"), "second_call=%s" % bool(case.get("second_call"))]
    return r


def check_free(case):
    ops, outs, metas, problems = run_free(case)
    r = judge(case, ops, outs, metas, oracle=False, problems=problems)
    r["nontrivial"] = any(o for o in outs) and any(o is False for o in outs)
    return r


# ---------------------------------------------------------------- generators
FAMILIES = ["monotone", "crossing", "constant", "noisy", "plateau", "near_ties", "huge", "zeros"]
# near_ties: objectives 1 + k * 2^-40 (scale 40): margins between 1e-12 and 1e-6 relative, on both sides of the default
#            epsilon 1e-10 (= 109.95 * 2^-40); huge: +-(2^60 + k * 2^10) (scale 0; far beyond 2^53 / float32 / epsilon);
# zeros: exact 0 / +-1 (falsy values, exact ties)
NEAR_OFFSETS = [0, 0, 1, -1, 2, 50, 108, 109, 110, 111, 112, -109, -110, -111, 219, 220, 221, 300, 2 ** 20, -(2 ** 20), 2 ** 21]
FAMILY_SCALE = {"near_ties": 40, "huge": 0, "zeros": 0}


def gen_curve(rng, family, T, j, n):
    if family == "monotone":
        a, b = rng.randint(-40, 40), rng.randint(1, 6)
        return [a + b * t for t in range(1, T + 1)]
    if family == "crossing":  # late bloomers: low start, steep slope, against early leaders that flatten
        if j % 2 == 0:
            a, b = rng.randint(20, 40), rng.randint(0, 2)
        else:
            a, b = rng.randint(-20, 10), rng.randint(3, 9)
        return [a + b * t for t in range(1, T + 1)]
    if family == "constant":  # many exact ties
        c = rng.choice([0, 0, 1, 1, 2, -1])
        return [c] * T
    if family == "noisy":
        v, out = rng.randint(-10, 10), []
        for _ in range(T):
            v += rng.randint(-4, 5)
            out.append(v)
        return out
    if family == "plateau":  # saturating: a - c // t
        a, c = rng.randint(0, 60), rng.randint(1, 60)
        return [a - c // t for t in range(1, T + 1)]
    if family == "near_ties":
        return [2 ** 40 + rng.choice(NEAR_OFFSETS) for _ in range(T)]
    if family == "huge":
        sgn = -1 if rng.random() < 0.3 else 1
        return [sgn * (2 ** 60 + 2 ** 10 * rng.randint(-40, 40)) for _ in range(T)]
    if family == "zeros":
        return [rng.choice([0, 0, 0, 1, -1]) for _ in range(T)]
    raise ValueError(family)


def gen_params(rng, stopper, tier):
    ms = rng.choice([4, 9, 27] if tier != "search" else [4, 4, 9])
    c = dict(stopper=stopper, max_steps=ms, scale=rng.choice([0, 2, 3]))
    c["eps"] = rng.choice(["default", "default", [0, 0], [1, 3], [3, 3]])
    if c["eps"] != "default":
        c["scale"] = 3
    if stopper == "asha":
        c.update(min_steps=rng.choice([1, 1, 1, 2, 3, 5, 6]), rf=rng.choice([2, 3, 4]), mesr=rng.choice([0, 0, 0, 1]),
                 min_comp=rng.choice([0, 0, 0, 0, 1, 2, 3]), min_full=rng.choice([0, 0, 0, 1, 2]))
    elif stopper == "median":
        c.update(min_steps=rng.choice([1, 1, 2, 3, 5]), interval=rng.choice([1, 2, 3]), min_comp=rng.choice([0, 1, 2, 3]))
    elif stopper == "const":
        c.update(stop_step=rng.randint(1, ms + 2))
    if rng.random() < 0.2:
        c["ptype"] = "float"
    if rng.random() < 0.15:
        c["btype"] = "float"
    return c


def set_family(rng, c, fam):
    """family-specific scale / epsilon / objective types"""
    c["family"] = fam
    if fam in FAMILY_SCALE:
        c["scale"] = FAMILY_SCALE[fam]
        if c["eps"] not in ("default", [0, 0]):
            c["eps"] = rng.choice(["default", [0, 0]])
    if c["scale"] == 0:
        c["vtype"] = rng.choice(["float", "int", "npfloat", "npint", "mixed", "mixed"])
    else:
        c["vtype"] = rng.choice(["float", "float", "npfloat"])


def gen_sched(rng, n, T, style):
    if style == "sequential":
        return [], "step"
    if style == "roundrobin":
        return [j for _ in range(T + 1) for j in range(n)], "step"
    if style == "random_step":
        return [rng.randrange(n) for _ in range(rng.randint(1, n * (T + 1)))], "step"
    if style == "random_op":
        return [rng.randrange(n) for _ in range(rng.randint(1, 2 * n * (T + 1)))], "op"
    if style == "staggered":  # evaluation k starts when evaluation k-1 has made d steps
        d = rng.randint(1, max(1, T // 2))
        s = []
        for k in range(n):
            s += [k] * d
            for k2 in range(k):
                s += [k2]
        return s, "step"
    if style == "all_record_then_stop":  # every evaluation records, then every evaluation asks
        s = []
        for _ in range(T + 1):
            s += list(range(n)) + list(range(n))
        return s, "op"
    raise ValueError(style)


STYLES = ["sequential", "roundrobin", "random_step", "random_op", "staggered", "all_record_then_stop"]


def add_failures(rng, curves, T, mode):
    if mode == 0:
        return
    if mode == 3:  # failures at the very first step (possibly of every evaluation)
        for c in curves:
            if rng.random() < 0.6:
                c[0] = None
        return
    for c in curves:
        if rng.random() < (0.25 if mode == 1 else 0.7):
            c[rng.randrange(min(len(c), T))] = None


def gen_proto(stopper, count):
    def gen(rng, tier):
        k = count if tier != "search" else count * 3
        for i in range(k):
            c = gen_params(rng, stopper, tier)
            T = c["max_steps"]
            n = rng.randint(1, 6) if tier != "search" else rng.randint(1, 3)
            fam = FAMILIES[i % len(FAMILIES)]
            set_family(rng, c, fam)
            curves = [gen_curve(rng, fam, T + 3, j, n) for j in range(n)]
            add_failures(rng, curves, T, (i // len(FAMILIES)) % 4)
            sched, gran = gen_sched(rng, n, T, STYLES[(i // 3) % len(STYLES)])
            c.update(njobs=n, curves=curves, sched=sched, gran=gran, lazy=rng.random() < 0.25, drain=True)
            if n >= 2 and rng.random() < 0.2:  # two searches on the same storage
                c["searches"] = [rng.randrange(2) for _ in range(n)]
            yield c
    return gen


def multiset_perms(counts):
    """all sequences containing job j exactly counts[j] times"""
    total = sum(counts)
    cur = []

    def rec():
        if len(cur) == total:
            yield list(cur)
            return
        for j in range(len(counts)):
            if counts[j]:
                counts[j] -= 1
                cur.append(j)
                yield from rec()
                cur.pop()
                counts[j] += 1

    return rec()


# curve sets for the exhaustive streams: (family, curves) ; budgets 1..4 (+ slack)
EXH_CURVES = [
    ("crossing", [[8, 9, 10, 11, 12, 12], [2, 6, 12, 20, 30, 30], [5, 5, 5, 30, 40, 40]]),
    ("constant", [[1, 1, 1, 1, 1, 1], [1, 1, 1, 1, 1, 1], [0, 1, 2, 1, 0, 0]]),
    ("failures", [[4, 7, None, 9, 9, 9], [5, 6, 8, 9, 10, 10], [6, None, 1, 1, 1, 1]]),
    ("monotone", [[1, 2, 3, 4, 5, 6], [3, 5, 7, 9, 11, 13], [2, 3, 4, 5, 6, 7]]),
    # margins of 109 / 110 / 111 * 2^-40 around the default epsilon (109.95 * 2^-40), exact ties, 1e-6 relative margins
    ("near_ties", [[2 ** 40 + 110, 2 ** 40, 2 ** 40 + 2 ** 20, 2 ** 40 + 1, 2 ** 40, 2 ** 40],
                   [2 ** 40, 2 ** 40 + 109, 2 ** 40, 2 ** 40 + 111, 2 ** 40, 2 ** 40],
                   [2 ** 40 + 220, 2 ** 40 + 219, 2 ** 40 - 2 ** 20, 2 ** 40, 2 ** 40 + 1, 2 ** 40]]),
]


def completions(case):
    """all schedules of a block: the prefix followed by every ordering of the remaining picks"""
    counts = list(case["counts"])
    for j in case["prefix"]:
        counts[j] -= 1
    for rest in multiset_perms(counts):
        yield case["prefix"] + rest


def gen_exhaustive(stopper, tier_sets):
    """every interleaving (at whole-step granularity) of 3 evaluations x max_steps 4, and (at operation granularity)
    of 2 evaluations x max_steps 3, for a small grid of parameters and curve sets.  One case = one BLOCK: all
    interleavings that start with the same prefix (81 blocks of <= 630 step-level interleavings; 4 blocks of <= 252
    operation-level ones)."""
    def gen(rng, tier):
        if tier == "search":
            return
        for prm in tier_sets[tier]:
            for fam, curves in [EXH_CURVES[i] for i in prm.get("_curves", [0])]:
                base = dict(stopper=stopper, scale=FAMILY_SCALE.get(fam, 0), eps=prm.get("eps", "default"), family=fam, lazy=False, drain=False)
                if fam not in FAMILY_SCALE:
                    base["vtype"] = prm.get("_vtype", "float")
                base.update({k: v for k, v in prm.items() if not k.startswith("_")})
                for pre in itertools.product(range(3), repeat=4):
                    yield dict(base, max_steps=4, njobs=3, curves=curves, counts=[4, 4, 4], prefix=list(pre), gran="step")
                for pre in itertools.product(range(2), repeat=2):
                    yield dict(base, max_steps=3, njobs=2, curves=curves[:2], counts=[6, 6], prefix=list(pre), gran="op")
    return gen


def check_block(case):
    """runs every interleaving of the block; reports the first failing one - a failure that is NOT the known median
    lag (F16) takes precedence, so that an open F16 cannot hide another defect inside the same block"""
    first, known, runs, nt = None, None, 0, False
    desc = None
    for s in completions(case):
        c = {k: v for k, v in case.items() if k not in ("counts", "prefix")}
        c["sched"] = s
        r = check_proto(c)
        runs += 1
        nt = nt or r.get("nontrivial")
        desc = r["desc"]
        if not r["ok"]:
            r["detail"] = dict(sched=s, inner=r.get("detail"))
            r["desc"] = desc + ["block"]
            if not r["sig"].get("f16_median_lag"):
                return r
            known = known or r
        first = first or r
    if known is not None:
        return known
    return dict(first, nontrivial=nt, desc=desc + ["block", "block_runs=%d" % runs])


def shrink_block(case):
    if "prefix" not in case:
        yield from shrink_proto(case)
        return
    want = check_block(case)  # the failure the block reports; continue with that single interleaving
    if not want["ok"]:
        c = {k: v for k, v in case.items() if k not in ("counts", "prefix")}
        c["sched"] = want["detail"]["sched"]
        yield c


def check_any(case):
    return check_block(case) if "prefix" in case else check_proto(case)


EXH_ASHA = {
    "quick": [dict(rf=2, min_steps=1, _curves=[2], _vtype="mixed"), dict(rf=3, min_steps=2, eps=[0, 0], _curves=[1], _vtype="int"),
              dict(rf=2, min_steps=1, _curves=[4])],
    "thorough": [dict(rf=rf, min_steps=m, mesr=e, min_full=(1 if (rf + m + e) % 3 == 0 else 0), eps=("default" if (rf + m) % 2 else [0, 0]),
                      _curves=([0, 2] if (rf + m + e) % 2 else [1, 3]) + ([4] if rf == 3 and e == 0 else []), _vtype=("mixed" if m == 2 else "float"))
                 for rf in (2, 3, 4) for m in (1, 2) for e in (0, 1) if not (m == 2 and e == 1)],
}
EXH_MEDIAN = {
    "quick": [dict(min_comp=2, interval=1, min_steps=1, eps=[0, 0], _curves=[1], _vtype="int"),
              dict(min_comp=3, interval=2, min_steps=1, _curves=[2], _vtype="mixed"), dict(min_comp=0, interval=1, min_steps=1, _curves=[4])],
    "thorough": [dict(min_comp=mc, interval=iv, min_steps=(2 if (mc + iv) % 4 == 0 else 1), eps=("default" if (mc + iv) % 2 else [0, 0]),
                      _curves=([1, 3] if (mc + iv + mc // 2) % 2 == 0 else [0, 2]) + ([4] if iv == 1 and mc in (0, 2) else []),
                      _vtype=("mixed" if iv == 2 else "float"))
                 for mc in (0, 1, 2, 3) for iv in (1, 2, 3) if not (iv == 3 and mc < 2)],
}


def gen_free(count):
    """arbitrary budgets (jumps, repeats, decreasing), operations after a stop; every stopped() directly follows a
    record() of the same evaluation (a second stopped() in a row can raise IndexError in the halving stopper)"""
    def gen(rng, tier):
        k = count if tier != "search" else count // 4
        for i in range(k):
            stopper = ["asha", "median", "const", "idle"][i % 4] if i % 8 else rng.choice(["asha", "median"])
            c = gen_params(rng, stopper, tier)
            n = rng.randint(1, 4)
            ops, pend, seen = [], [False] * n, [False] * n
            for _ in range(rng.randint(1, 40)):
                j = rng.randrange(n)
                if pend[j]:
                    ops.append(["s", j])
                    pend[j] = False
                elif seen[j] and stopper != "asha" and rng.random() < 0.2:
                    ops.append(["s", j])  # stopped() asked again without a new record()
                else:
                    seen[j] = True
                    b = rng.choice([rng.randint(1, c["max_steps"] + 2), rng.randint(1, 4)])
                    z = None if rng.random() < 0.07 else rng.randint(-30, 30)
                    ops.append(["r", j, b, z])
                    pend[j] = rng.random() < 0.85  # sometimes two record() in a row
            c.update(njobs=n, ops=ops, lazy=rng.random() < 0.3, family="free")
            if c["scale"] == 0:
                c["vtype"] = rng.choice(["float", "int", "mixed"])
            if n >= 2 and rng.random() < 0.2:
                c["searches"] = [rng.randrange(2) for _ in range(n)]
            yield c
    return gen


def gen_search(count):
    def gen(rng, tier):
        k = count if tier != "search" else count // 2
        for i in range(k):
            stopper = ["asha", "median"][i % 2]
            c = gen_params(rng, stopper, "search")  # max_steps 4 or 9
            T = c["max_steps"]
            fam = FAMILIES[i % len(FAMILIES)]
            set_family(rng, c, fam)
            nc = rng.randint(1, 6)
            curves = [gen_curve(rng, fam, T + 3, j, nc) for j in range(nc)]
            add_failures(rng, curves, T, (i // len(FAMILIES)) % 4)
            c.update(curves=curves, num_workers=rng.randint(1, 4), max_evals=rng.randint(1, 8),
                     seed=rng.randint(0, 1000), njobs=0)
            c["yield"] = rng.choice(["rs", "rs", "r", "s", ""])
            if i % 4 == 3:
                c["method"] = "thread"
            if rng.random() < 0.3:  # search() called twice on the same Search / stopper / storage
                c["second_call"] = rng.randint(1, 4)
            yield c
    return gen


def shrink_search(case):
    for k, v in (("second_call", 0), ("method", "serial"), ("vtype", "float"), ("ptype", "int"), ("btype", "int"), ("min_full", 0), ("mesr", 0), ("min_steps", 1),
                 ("eps", [0, 0]), ("interval", 1), ("min_comp", 0)):
        if k in case and case[k] != v:
            yield dict(case, **{k: v})
    if case.get("max_evals", 4) > 1:
        yield dict(case, max_evals=case["max_evals"] - 1)
    if case.get("num_workers", 1) > 1:
        yield dict(case, num_workers=case["num_workers"] - 1)
    curves = case["curves"]
    if len(curves) > 1:
        for j in range(len(curves)):
            yield dict(case, curves=curves[:j] + curves[j + 1:])
    if case["max_steps"] > 2:
        yield dict(case, max_steps=case["max_steps"] - 1)


# ---------------------------------------------------------------- shrinkers
def drop_job(case, j):
    n = case["njobs"]
    c = dict(case, njobs=n - 1)
    if case.get("searches"):
        c["searches"] = case["searches"][:j] + case["searches"][j + 1:]
    if "curves" in case:
        c["curves"] = case["curves"][:j] + case["curves"][j + 1:]
        c["sched"] = [x - (x > j) for x in case["sched"] if x != j]
    if "ops" in case:
        c["ops"] = [[o[0], o[1] - (o[1] > j)] + o[2:] for o in case["ops"] if o[1] != j]
    return c


def shrink_common(case):
    n = case["njobs"]
    if n > 1:
        for j in range(n):
            yield drop_job(case, j)
    for k, v in (("searches", None), ("vtype", "float"), ("ptype", "int"), ("btype", "int"), ("lazy", False), ("min_full", 0), ("mesr", 0), ("min_steps", 1),
                 ("eps", [0, 0]), ("interval", 1), ("min_comp", 0)):
        if k in case and case[k] != v:
            yield dict(case, **{k: v})
    if case["max_steps"] > 2:
        yield dict(case, max_steps=case["max_steps"] - 1)


def shrink_proto(case):
    yield from shrink_common(case)
    s = case["sched"]
    if case.get("drain", True):
        yield dict(case, drain=False)
    if s:
        yield dict(case, sched=s[: len(s) // 2])
        for i in range(len(s)):
            yield dict(case, sched=s[:i] + s[i + 1:])
    curves = case["curves"]
    for j, c in enumerate(curves):
        if len(c) > 1:
            yield dict(case, curves=curves[:j] + [c[:-1]] + curves[j + 1:])
        for t, z in enumerate(c):
            for w in (0, 1, (z // 2 if z else 0)):
                if z is None or w != z and abs(w) < abs(z):
                    yield dict(case, curves=curves[:j] + [c[:t] + [w] + c[t + 1:]] + curves[j + 1:])
                    break


def shrink_free(case):
    yield from shrink_common(case)
    ops = case["ops"]
    for i in range(len(ops)):
        yield dict(case, ops=ops[:i] + ops[i + 1:])


# ---------------------------------------------------------------- streams
def streams(tier):
    th = tier == "thorough"
    n = 6000 if th else 600
    return [
        Stream("asha_protocol", gen_proto("asha", n), check_proto, shrink_proto, timeout=60),
        Stream("median_protocol", gen_proto("median", n), check_proto, shrink_proto, timeout=60),
        Stream("simple_protocol", lambda rng, tier: itertools.chain(gen_proto("idle", n // 10)(rng, tier), gen_proto("const", n // 5)(rng, tier)),
               check_proto, shrink_proto, timeout=60),
        Stream("asha_exhaustive", gen_exhaustive("asha", EXH_ASHA), check_any, shrink_block, timeout=300),
        Stream("median_exhaustive", gen_exhaustive("median", EXH_MEDIAN), check_any, shrink_block, timeout=300),
        Stream("free_ops", gen_free(4000 if th else 600), check_free, shrink_free, timeout=60),
        Stream("search_end_to_end", gen_search(1500 if th else 300), check_search, shrink_search, timeout=120),
    ]


# ---------------------------------------------------------------- translator part: constructor defaults
def facts(repo):
    """Defaults of the stopper constructors, read from the imported classes of the current tree (value facts,
    DESIGN 1.2a).  Consumed by DH.C16_Stoppers.LemmasDefaults: with the DEFAULT parameters the stoppers are well-formed
    and successive halving has min_competing = 0 (so 'best is never stopped' needs no side condition)."""
    import inspect
    from fractions import Fraction as Fr

    from .. import srcfacts

    try:
        from deephyper.stopper import MedianStopper, SuccessiveHalvingStopper
    except Exception as e:  # pragma: no cover
        return srcfacts.fail_closed("cannot import the stoppers: %r" % (e,)), {"error": repr(e)}

    want = {
        "asha": (SuccessiveHalvingStopper, ["min_steps", "reduction_factor", "min_early_stopping_rate", "min_competing", "min_fully_completed", "epsilon"]),
        "median": (MedianStopper, ["min_steps", "min_competing", "interval_steps", "epsilon"]),
    }
    lines, info = [], {}
    for tag, (cls, names) in want.items():
        sig = inspect.signature(cls.__init__)
        for nm in names:
            prm = sig.parameters.get(nm)
            if prm is None or prm.default is inspect.Parameter.empty:
                return srcfacts.fail_closed("%s.__init__ has no default for %s" % (cls.__name__, nm)), {"error": nm}
            v = prm.default
            if nm == "epsilon":
                if isinstance(v, bool) or not isinstance(v, (int, float)) or v != v or v in (float("inf"), float("-inf")):
                    return srcfacts.fail_closed("%s.epsilon default %r is not a finite number" % (cls.__name__, v)), {"error": nm}
                fr = Fr(v)
                den = fr.denominator
                if den & (den - 1):
                    return srcfacts.fail_closed("epsilon denominator not a power of two"), {"error": nm}
                lines.append("Definition %s_default_epsilon_num : Z := %s." % (tag, "(%d)" % fr.numerator if fr.numerator < 0 else fr.numerator))
                lines.append("Definition %s_default_epsilon_log2den : Z := %d." % (tag, den.bit_length() - 1))
                info["%s.epsilon" % tag] = repr(v)
            else:
                if isinstance(v, bool) or not isinstance(v, int):
                    if isinstance(v, float) and v == int(v):
                        v = int(v)
                    else:
                        return srcfacts.fail_closed("%s.%s default %r is not an integer" % (cls.__name__, nm, v)), {"error": nm}
                lines.append("Definition %s_default_%s : Z := %s." % (tag, nm, "(%d)" % v if v < 0 else v))
                info["%s.%s" % (tag, nm)] = v
    return "Definition srcfacts_ok := true.\n" + "\n".join(lines) + "\n", info
