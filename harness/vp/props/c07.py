"""C07 - Seeded searches are reproducible.

Tie:
 (a) translator (static half).  facts(repo) walks the eight anchor files (props/c07_sites.py, fail closed) and regenerates
     Generated/Facts_C07.v: every RNG call site with its classification, every environment read with the flow of its value, and
     the two source facts the reachability table rests on.  Theorems C07_sites_complete / C07_sites_seeded / C07_env_benign are
     re-checked against these facts on every run: a new draw from a global generator, a seeded draw changed to a global one, a
     ConfigSpace seed taken from hash()/the clock, an order-sensitive iteration over a set - each breaks a proof obligation.
 (b) correspondence (dynamic half).
     process_pairs : the same seeded search is run in two fresh interpreters (different PYTHONHASHSEED, different perturbation of
                     numpy's and Python's global generators, different log directory) and once more with another seed; the extracted
                     Coq oracle ok_C07 decides  A = B  and  A <> C  on the sequences of proposed configurations (Search.ask outputs
                     as seen by the run-function, and the p:* columns of the returned DataFrame).  Model <-> code: the model's
                     may_touch_global (from the generated sites + reach table) must agree with whether the run changed the state of
                     the global generators.
     site_trace    : an in-process run with a logging RandomState subclass; every draw on the master stream is attributed to the
                     static call site (file, line) that issued it; the extracted `accept` checks that each observed site is listed,
                     declared reachable for the configuration class by the hand-written table, and seeded.
"""
import json
import os
import random
import re
import subprocess
import sys
import tempfile

from ..driver import model
from ..runner import Stream
from .. import srcfacts, build
from . import c07_sites

PROPERTY = "C07"
LEVEL = "proof"
FACTS = ["rng_sites", "env_sites", "cbo_opt_kwargs", "sample_max_size_default", "seed_test_accepts_numpy_int"]
TRUSTED = [
    "partial: hidden nondeterminism inside scikit-learn / scipy / ConfigSpace / pandas (thread summation order, set iteration inside libraries) is not "
    "modelled; it is only sampled by the process pairs",
    "the translator's classification rule (props/c07_sites.py, printed in its docstring and echoed in coverage.facts): generator expressions are "
    "self.<rng attribute>, parameters named random_state/rng/seed, locals assigned from those; a function's random_state parameter is assumed to be "
    "supplied by its callers (keyword call sites inside the anchors are themselves listed as Pass / PassFresh sites, positional hand-over is not checked)",
    "ConfigSpace: ConfigurationSpace.seed(s) makes sample_configuration / hp.rvs(random_state=space.random) a function of s; "
    "numpy RandomState(seed) / scipy rvs(random_state=) are deterministic functions of the seed",
    "the hand-written reachability table (coq/theories/C07_Repro/Keys.v + Model.key_ok): validated only dynamically (stream site_trace, and "
    "global-generator state observed by process_pairs)",
    "only the eight anchor files are walked: a global draw inside another deephyper module (samplers, surrogates, GMMSampler) is seen by the process pairs only",
]
ASSUMPTIONS = [
    "state shared with the caller: another search built from the same HpProblem object may draw at any time (process_pairs 'other_search_on_same_problem'); "
    "Optimizer / Space keep the space objects they are given (Keys.v S_InternalAlias): only Search._problem is an API boundary",
    "num_workers = 1, serial evaluator, deterministic async run-function; the same sequence of search()/ask()/tell() calls in both processes",
    "random_state is a Python int; transfer learning (fit_generative_model / fit_search_space) is outside the property's quantifier",
]
RULE = ("process_pairs: one case per configuration class drawn from search class x surrogate x acquisition x multi-point strategy (ask(n) / tell scripts) x "
        "initial design x space (flat real / mixed / many names / conditional / forbidden) x objectives x failures x seeds; non-trivial = the run left the "
        "initial design (a fitted surrogate / an evolution step proposed at least one configuration). site_trace: the same classes in-process with a logging RandomState")
COQ_DIRS = ("Common",)

F_OK, F_ACCEPT, F_SITES_OK, F_TOUCH, F_BAD, F_ENV_OK, F_UNREACH = 701, 702, 703, 704, 705, 706, 707
CLAUSE = {1: "same_seed_differs", 2: "different_seeds_same_sequence"}
REPO = srcfacts.REPO
HERE = os.path.dirname(os.path.abspath(__file__))
KEYS_V = os.path.join(build.COQ, "theories", "C07_Repro", "Keys.v")
MODEL_V = os.path.join(build.COQ, "theories", "C07_Repro", "Model.v")


# ---------------------------------------------------------------------------------------------- translator
def parse_tables():
    """The numeric constants of Model.v and the two string tables of Keys.v (single source: the Coq files)."""
    consts = {m.group(1): int(m.group(2)) for m in re.finditer(r"Definition\s+([A-Z]_[A-Za-z]+)\s*:=\s*(\d+)\s*\.", build.strip_comments(open(MODEL_V).read()))}
    src = build.strip_comments(open(KEYS_V).read())

    def body(name):
        m = re.search(r"Definition\s+%s\b[^=]*:=\s*\[(.*?)\n\]\s*\." % name, src, re.S)
        if not m:
            raise c07_sites.Closed("Keys.v: table %s not found" % name)
        return m.group(1)

    s = r'"((?:[^"]|"")*)"'
    owners, keys = {}, {}
    lines = [l.strip() for l in body("owner_table").split("\n") if l.strip()]
    for l in lines:
        m = re.fullmatch(r"\(%s,\s*([A-Za-z_]+)\);?" % s, l)
        if not m:
            raise c07_sites.Closed("Keys.v: owner_table line not understood: " + l)
        owners[m.group(1).replace('""', '"')] = consts[m.group(2)]
    lines = [l.strip() for l in body("key_table").split("\n") if l.strip()]
    for l in lines:
        m = re.fullmatch(r"\(\(%s,\s*%s,\s*%s,\s*%s\),\s*([A-Za-z_]+)\);?" % (s, s, s, s), l)
        if not m:
            raise c07_sites.Closed("Keys.v: key_table line not understood: " + l)
        k = tuple(x.replace('""', '"') for x in m.groups()[:4])
        if k not in keys:  # first match wins, as in lookup_key
            keys[k] = consts[m.group(5)]
    return consts, owners, keys


_analysis = {}


def analysis(repo=None):
    """Sites of the current tree + their numeric form (cached per process)."""
    repo = repo or REPO
    if repo in _analysis:
        return _analysis[repo]
    r = c07_sites.analyse(repo)
    try:
        consts, owners, keys = parse_tables()
        for s in r["rng_sites"]:
            k4 = (s["file"], s["func"], s["callee"], s["guard"])
            s["num"] = [owners.get(s["file"], consts["O_Any"]), keys.get(k4, consts["S_None"]), c07_sites.CLASSES.index(s["cls"])]
        for s in r["env_sites"]:
            k4 = (s["file"], s["func"], s["callee"], s["guard"])
            s["num"] = [owners.get(s["file"], consts["O_Any"]), keys.get(k4, consts["S_None"]), c07_sites.ENV_KINDS.index(s["kind"]), c07_sites.FLOWS.index(s["flow"])]
        r["consts"] = consts
        if r["ok"]:
            ex = r["extra"]
            r["world"] = [bool("sample_max_size" in ex["cbo_opt_kwargs"] or ex["sample_max_size_default"] > 0), bool(ex["seed_test_accepts_numpy_int"])]
    except c07_sites.Closed as e:
        r["ok"], r["reason"] = False, str(e)
    _analysis[repo] = r
    return r


def facts(repo):
    r = analysis(repo)
    cs, cl = srcfacts.coq_string, srcfacts.coq_list
    if not r["ok"]:
        text = srcfacts.fail_closed(r["reason"]) + (
            "Definition rng_sites : list ((string * string * string * string) * (Z * Z * Z)) := [].\n"
            "Definition env_sites : list ((string * string * string * string) * (Z * Z * Z)) := [].\n"
            "Definition rng_sites_num : list (Z * Z * Z) := [].\nDefinition env_sites_num : list (Z * Z * Z * Z) := [].\n"
            "Definition cbo_opt_kwargs : list string := [].\nDefinition sample_max_size_default : Z := 1.\nDefinition world_num : bool := true.\n"
            "Definition seed_test_accepts_numpy_int : bool := false.\n")
        return text, {"ok": False, "reason": r["reason"]}
    rows = ["((%s, %s, %s, %s), (%d, %d, %d))" % (cs(s["file"]), cs(s["func"]), cs(s["callee"]), cs(s["guard"]), c07_sites.CLASSES.index(s["cls"]), s["line"], s["end"]) for s in r["rng_sites"]]
    erows = ["((%s, %s, %s, %s), (%d, %d, %d))" % (cs(s["file"]), cs(s["func"]), cs(s["callee"]), cs(s["guard"]), c07_sites.ENV_KINDS.index(s["kind"]), c07_sites.FLOWS.index(s["flow"]), s["line"]) for s in r["env_sites"]]
    ex = r["extra"]
    text = (
        "Definition srcfacts_ok := true.\n"
        "(* classification index: %s *)\n" % ", ".join("%d %s" % (i, c) for i, c in enumerate(c07_sites.CLASSES))
        + "(* ((file, enclosing function, dotted callee, outermost enclosing if-test), (classification, line, end line)) *)\n"
        + "Definition rng_sites : list ((string * string * string * string) * (Z * Z * Z)) :=\n  " + cl(["\n  " + x for x in rows]) + ".\n"
        + "(* environment reads: kind index %s ; flow index %s *)\n" % (", ".join("%d %s" % (i, c) for i, c in enumerate(c07_sites.ENV_KINDS)), ", ".join("%d %s" % (i, c) for i, c in enumerate(c07_sites.FLOWS)))
        + "Definition env_sites : list ((string * string * string * string) * (Z * Z * Z)) :=\n  " + cl(["\n  " + x for x in erows]) + ".\n"
        + "(* numeric copies computed by the translator from the tables of C07_Repro/Keys.v (re-computed and compared by C07_sites_complete) *)\n"
        + "Definition rng_sites_num : list (Z * Z * Z) := " + cl(["(%d, %d, %d)" % tuple(s["num"]) for s in r["rng_sites"]]) + ".\n"
        + "Definition env_sites_num : list (Z * Z * Z * Z) := " + cl(["(%d, %d, %d, %d)" % tuple(s["num"]) for s in r["env_sites"]]) + ".\n"
        + "Definition cbo_opt_kwargs : list string := " + cl([cs(k) for k in ex["cbo_opt_kwargs"]]) + ".\n"
        + "Definition sample_max_size_default : Z := %s.\n" % (("(%d)" % ex["sample_max_size_default"]))
        + "Definition world_num : bool := %s.\n" % ("true" if r["world"][0] else "false")
        + "(* does the test that guards RandomState(random_state) in Search.__init__ accept numpy integers? *)\n"
        + "Definition seed_test_accepts_numpy_int : bool := %s.\n" % ("true" if r["world"][1] else "false")
    )
    info = dict(ok=True, n_rng_sites=len(r["rng_sites"]), n_env_sites=len(r["env_sites"]), rng_attrs=r["rng_attrs"], extra=ex, set_valued_methods=r.get("set_methods"),
                rng_sites=["%s:%d %s %s [%s] %s" % (s["file"], s["line"], s["func"], s["callee"], s["cls"], s["num"]) for s in r["rng_sites"]],
                env_sites=["%s:%d %s %s [%s/%s] %s" % (s["file"], s["line"], s["func"], s["callee"], s["kind"], s["flow"], s["num"]) for s in r["env_sites"]],
                not_seeded=["%s:%d %s [%s]" % (s["file"], s["line"], s["callee"], s["cls"]) for s in r["rng_sites"] if s["cls"] in ("Global", "CtorFresh", "Ext", "PassFresh")],
                env_not_benign=["%s:%d %s" % (s["file"], s["line"], s["callee"]) for s in r["env_sites"] if s["flow"] == "Flows"])
    return text, info


# ---------------------------------------------------------------------------------------------- configuration classes
SEARCHES = ["CBO", "Random", "RegEvo"]
SURROGATES = ["DUMMY", "ET", "RF", "GP"]
ACQS = ["UCB", "EI", "PI", "MES", "gp_hedge"]
STRATEGIES = ["cl_min", "cl_mean", "cl_max", "topk", "boltzmann", "qUCB", "qUCBd"]
INITS = ["random", "sobol", "lhs", "halton", "hammersly", "grid"]
SPACES = ["flat_real", "flat_mixed", "flat_many", "cond", "forbid", "discrete", "tiny"]


def cfg_of(case):
    """The configuration class of a case, as the model's cfg record."""
    kw = case.get("kwargs", {})
    acq = kw.get("acq_func", "UCBd")
    d = acq.endswith("d") and acq != "gp_hedge"
    base = acq[:-1] if d else acq
    return [SEARCHES.index(case["search"]), SURROGATES.index(kw.get("surrogate_model", "ET")) if kw.get("surrogate_model", "ET") in SURROGATES else 4,
            ACQS.index(base) if base in ACQS else 4, bool(d), STRATEGIES.index(kw.get("multi_point_strategy", "cl_max")),
            INITS.index(kw.get("initial_point_generator", "random")), case["space"] in ("cond", "forbid"), int(case.get("nobj", 1)) > 1,
            case.get("warm_how") in ("fit_generative_model", "fit_search_space"),
            {"int": 0, "RandomState": 2}.get(case.get("seed_kind", "int"), 1)]


def model_args(case):
    a = analysis()
    return [a.get("world", [True, False]), cfg_of(case), [s["num"] for s in a["rng_sites"]]]


def describe(case):
    kw = case.get("kwargs", {})
    d = ["search=" + case["search"], "space=" + case["space"], "mode=" + case.get("mode", "search"), "nobj=%d" % case.get("nobj", 1)]
    if case["search"] == "CBO":
        d += ["surrogate=" + kw.get("surrogate_model", "ET"), "acq=" + kw.get("acq_func", "UCBd"), "init=" + kw.get("initial_point_generator", "random")]
        if case.get("mode") == "ask":
            d.append("strategy=" + kw.get("multi_point_strategy", "cl_max"))
    if case.get("fail_mod"):
        d.append("with_failures")
    if case.get("fail_region"):
        d += ["fails_around_optimum", "filter_failures=" + kw.get("filter_failures", "min")]
    if kw.get("update_prior"):
        d.append("update_prior")
    if case.get("seed_kind", "int") != "int":
        d.append("seed_kind=" + case["seed_kind"])
    if case.get("calls"):
        d.append("search_calls=%d" % len(case["calls"]))
    if case.get("warm"):
        d.append("continued_with=" + case.get("warm_how", "fit_surrogate"))
    if case.get("const_obj"):
        d.append("constant_objective")
    if case.get("seed") in (0, 2**32 - 1):
        d.append("edge_seed")
    if case.get("interfere"):
        d.append("other_search_on_same_problem=" + case["interfere"])
    if case.get("threads"):
        d.append("n_jobs=%d" % kw.get("n_jobs", 1))
    return d


def sig_of(case, clause, **extra):
    kw = case.get("kwargs", {})
    s = dict(clause=clause, search=case["search"])
    if case["search"] == "CBO" and clause in CLAUSE.values():
        acq = kw.get("acq_func", "UCBd")
        s.update(acq=acq if acq.startswith("MES") else "non-MES")   # coarse on purpose: one report per failure class
    if case.get("seed_kind", "int") != "int":
        s.update(seed_kind=case["seed_kind"])
    s.update(extra)
    return s


# ---------------------------------------------------------------------------------------------- children
def spec_of(case, seed, perturb):
    s = {k: case[k] for k in ("search", "space", "kwargs", "nobj", "fail_mod", "fail_region", "mode", "evals", "batches", "interfere", "threads", "repeat", "seed_kind", "calls", "warm", "warm_how", "const_obj") if k in case}
    s.update(seed=seed, perturb=perturb)
    return s


QUIET = {}
# what an application around the search may look like: logging configured at DEBUG with a handler, warnings shown, another number of OpenMP
# threads, progress bars disabled by the environment, another working directory, asserts stripped (python -O), verbose=1
# (sys.flags: -b in the quick tier; -O as well in the thorough tier - without byte-code cache it recompiles every module, +5 s per process)
LOUD = dict(log="DEBUG", warnings="always", omp="2", tqdm_disable="1", cwd=True, pyflags=["-b"], verbose=1, affinity=2)   # affinity: 2 CPUs instead of all


def start_child(specs, hashseed, ambient=None):
    ambient = ambient or QUIET
    env = dict(os.environ)
    env.update(PYTHONHASHSEED=str(hashseed), OMP_NUM_THREADS=ambient.get("omp", "1"), OPENBLAS_NUM_THREADS="1", MKL_NUM_THREADS="1",
               PYTHONWARNINGS="default" if ambient.get("warnings") else "ignore")
    if ambient.get("tqdm_disable"):
        env["TQDM_DISABLE"] = ambient["tqdm_disable"]
    cwd = None
    if ambient.get("cwd"):
        cwd = tempfile.mkdtemp(prefix="vp_c07_cwd_")
    specs = [dict(s, ambient=dict(ambient, affinity_shift=s.get("perturb", 0)) if ambient.get("affinity") else ambient) for s in specs]
    p = subprocess.Popen(["/venv/bin/python"] + list(ambient.get("pyflags", [])) + [os.path.join(HERE, "c07_child.py"), json.dumps(specs)], env=env, cwd=cwd,
                         stdout=subprocess.PIPE, stderr=subprocess.PIPE, text=True)
    p._vp_cwd = cwd
    return p


def finish_child(p, n, timeout=240):
    import shutil

    try:
        out, err = p.communicate(timeout=timeout)
    except subprocess.TimeoutExpired:
        p.kill()
        p.communicate()
        return [{"error": "ChildTimeout", "trace": ""}] * n
    finally:
        if getattr(p, "_vp_cwd", None):
            shutil.rmtree(p._vp_cwd, ignore_errors=True)
    for line in reversed(out.splitlines()):
        if line.startswith("C07OUT "):
            return json.loads(line[7:])
    return [{"error": "ChildCrashed", "trace": (err or out)[-1500:]}] * n


def child_timeout(case):
    """Seconds a child may take: the long-history GP cases and the n_jobs=-1 cases are slow on a loaded machine (a timeout is reported as a
    failure, so it must be far in the tail)."""
    heavy = int(case.get("warm", 0)) > 100 or case.get("kwargs", {}).get("n_jobs", 1) not in (1,)
    return 1200 if heavy else 400


def tok(entry):
    """Injective integer token of one (name, repr(value), type name) triple."""
    return int.from_bytes(b"\x01" + ("%s=%s:%s" % tuple(entry)).encode(), "big")


def trace_of(run, key):
    """A configuration is a mapping name -> value: entries sorted by name (the order of the keys of the dict is not part of the property)."""
    t = [[tok(e) for e in sorted(cfgl)] for cfgl in run.get(key) or []]
    if run.get("error"):   # a run cut short by an exception: the error class is the last element of what was observed
        t.append([tok(("!exception", run["error"], "exception"))])
    return t


def check_pair(case):
    m = model()
    pa, pb = case.get("pa", 1), case.get("pb", 7)
    ha, hb = case.get("ha", 1), case.get("hb", 2)
    res = dict(ok=True, kind="oracle", clause="", sig={}, nontrivial=False, desc=describe(case))
    ca = start_child([spec_of(case, case["seed"], pa)], ha)
    loud = LOUD if case.get("ambient", True) else QUIET
    cb = start_child([spec_of(case, case["seed"], pb), spec_of(case, case["seed2"], pb)], hb, loud)
    (A,), (B, C) = finish_child(ca, 1, child_timeout(case)), finish_child(cb, 2, child_timeout(case))
    errs = [r.get("error") for r in (A, B, C)]
    if any(e in ("ChildTimeout", "ChildCrashed") for e in errs):
        return dict(res, ok=False, clause="child_" + [e for e in errs if e in ("ChildTimeout", "ChildCrashed")][0], sig=sig_of(case, "child_failed", exc=str(errs)), nontrivial=True,
                    detail=dict(errors=errs, trace=[r.get("trace") for r in (A, B, C)]))
    for r in (A, B, C):
        r.setdefault("asked", [])
        r.setdefault("globals_touched", [False, False])
    if errs[0] or errs[1] or errs[2]:
        # a configuration that raises (topk/boltzmann: F03; GP + MES; RegularizedEvolution mutating into a forbidden clause): the proposals made
        # before the exception and the exception class are the observable - identical in A and B = reproducible (the exception itself is not this property)
        res["desc"] = res["desc"] + ["exception:%s" % e for e in sorted(set(filter(None, errs)))]
    res["nontrivial"] = len({json.dumps(c) for c in A["asked"]}) >= 3
    touched = [bool(x or y) for x, y in zip(A["globals_touched"], B["globals_touched"])]
    res["desc"] = res["desc"] + ["global_generators_touched=%s" % (any(touched))]
    for key in ("asked", "table"):
        if key == "table" and not ("table" in A and "table" in B and "table" in C):
            continue
        verdict, first = m.call(F_OK, [trace_of(A, key), trace_of(B, key), trace_of(C, key)])
        if verdict == 1:
            fam = json.dumps([case["search"], case.get("seed_kind", "int"), bool(case.get("threads")), bool(case.get("interfere")), key], sort_keys=True)
            if fam in _cause_cache:      # the same family failed before in this process (delta debugging): the diagnosis is not repeated
                cause, extra = _cause_cache[fam], dict(diagnosis="as for the first failure of this family in this process")
            else:
                cause, extra = diagnose(case, A, key, pa, pb, ha, hb, loud)
                _cause_cache[fam] = cause
            # one report per failure class: the acquisition function only identifies a class for a global-generator dependence (F09), the kind
            # of seed only when identical processes differ (F87)
            sig = dict(clause=CLAUSE[1], search=case["search"], cause=cause)
            if cause == "global_rng" and case["search"] == "CBO":
                acq = case.get("kwargs", {}).get("acq_func", "UCBd")
                sig["acq"] = acq if acq.startswith("MES") else "non-MES"
            if cause == "process" and case.get("seed_kind", "int") not in ("int", "RandomState"):
                sig["seed_kind"] = case["seed_kind"]
            return dict(res, ok=False, clause=CLAUSE[1], sig=sig, nontrivial=True,
                        detail=dict(observable=key, first_difference_at=first, cause=cause, run_a=A[key][first:first + 1] if first < len(A[key]) else "shorter",
                                    run_b=B[key][first:first + 1] if first < len(B[key]) else "shorter", n_a=len(A[key]), n_b=len(B[key]),
                                    processes=dict(a=dict(PYTHONHASHSEED=ha, perturb=pa, ambient=QUIET), b=dict(PYTHONHASHSEED=hb, perturb=pb, ambient=loud)), global_generators_touched=touched,
                                    exceptions=dict(a=errs[0], b=errs[1]), **extra))
        if verdict == 2 and not (len(A[key]) == 0 and errs[0]):   # nothing proposed before a reproducible exception: no seed can show
            return dict(res, ok=False, clause=CLAUSE[2], sig=sig_of(case, CLAUSE[2]), nontrivial=True,
                        detail=dict(observable=key, seeds=[case["seed"], case["seed2"]], n=len(A[key])))
    # model <-> code: a run that consumed numpy's / Python's global generator must have a reachable Global site in the model
    predicted = bool(m.call(F_TOUCH, model_args(case)))
    if any(touched) and not predicted:
        return dict(res, ok=False, kind="corr", clause="global_generator_consumed", sig=sig_of(case, "global_generator_consumed"), nontrivial=True,
                    detail=dict(touched=dict(numpy=touched[0], python_random=touched[1]), model_may_touch_global=predicted,
                                note="the search changed the state of a process-global generator although no Global call site is reachable for this class in the model"))
    return res


_cause_cache = {}


def diagnose(case, A, key, pa, pb, ha, hb, loud):
    """Which of the differences between the two processes matters?  (one factor at a time, plus an identical twin)"""
    c1 = start_child([spec_of(case, case["seed"], pa)], hb)          # only the hash seed differs from A
    c2 = start_child([spec_of(case, case["seed"], pb)], ha)          # only the global-generator perturbation differs from A
    c3 = start_child([spec_of(case, case["seed"], pa)], ha)          # identical twin
    c4 = start_child([spec_of(case, case["seed"], pa)], ha, loud)    # only the ambient state (logging, warnings, environment, cwd, -O, verbose) differs
    tmo = child_timeout(case)
    (H,), (G,), (T,), (M,) = finish_child(c1, 1, tmo), finish_child(c2, 1, tmo), finish_child(c3, 1, tmo), finish_child(c4, 1, tmo)
    same = lambda r: r.get("error") not in ("ChildTimeout", "ChildCrashed") and trace_of(r, key) == trace_of(A, key)
    factors = [n for n, r in (("hashseed", H), ("global_rng", G), ("ambient", M)) if not same(r)]
    cause = "process" if not same(T) else "+".join(factors) if factors else "interaction"
    extra = dict(one_factor=dict(identical_twin_same=same(T), only_hashseed_differs_same=same(H), only_global_rng_differs_same=same(G), only_ambient_differs_same=same(M)))
    if "ambient" in factors:
        # which part of the ambient state?
        kids = {k2: start_child([spec_of(case, case["seed"], pa)], ha, {k2: loud[k2]}) for k2 in LOUD if k2 in loud}
        extra["ambient_parts_same"] = {k2: same(finish_child(p2, 1, tmo)[0]) for k2, p2 in kids.items()}
    return cause, extra


# ---------------------------------------------------------------------------------------------- generators
def K(**k):
    return dict(dict(surrogate_model="ET", n_points=64, n_initial_points=4), **k)


def base_case(rng, **k):
    c = dict(search="CBO", space="flat_mixed", kwargs={}, nobj=1, fail_mod=0, mode="search", evals=9)
    c.update(k)
    s = rng.randrange(1, 10**6)
    c.update(seed=s, seed2=s + 1 + rng.randrange(1000), pa=rng.randrange(1, 50), ha=rng.randrange(1, 1000))
    c.update(pb=c["pa"] + 1 + rng.randrange(50), hb=c["ha"] + 1 + rng.randrange(1000))
    if c.get("interfere"):
        c["pb"] = c["pa"] + 1   # the number of sampling calls of the interfering search is 1 + perturb % 4: never the same in the two processes
    return c


def quick_catalogue(rng, full=False):
    B = [2, 2, 3, 3, 2]
    base = [
        base_case(rng, kwargs=K(acq_func="UCBd")),
        base_case(rng, space="cond", kwargs=K(surrogate_model="RF", acq_func="EI")),
        base_case(rng, space="flat_many", kwargs=K(surrogate_model="DUMMY", acq_func="UCB")),
        base_case(rng, space="flat_real", nobj=2, kwargs=K(acq_func="PI", initial_point_generator="sobol")),
        base_case(rng, mode="ask", batches=B, kwargs=K(acq_func="UCB", multi_point_strategy="cl_min")),
        base_case(rng, space="cond", mode="ask", batches=B, kwargs=K(acq_func="UCBd", multi_point_strategy="qUCB")),
        base_case(rng, evals=12, kwargs=K(acq_func="MES", n_initial_points=3)),
        base_case(rng, space="cond", evals=12, kwargs=K(acq_func="MESd", n_initial_points=3)),
        base_case(rng, search="Random", space="cond"),
        base_case(rng, search="RegEvo", space="flat_many", evals=14, kwargs=dict(population_size=6, sample_size=3)),
        base_case(rng, space="forbid", fail_mod=3, kwargs=K(surrogate_model="RF", acq_func="gp_hedge", initial_point_generator="lhs")),
        base_case(rng, search="Random", space="flat_mixed", mode="ask", batches=[3, 2, 4]),
        base_case(rng, space="flat_many", kwargs=K(acq_func="EId", initial_point_generator="halton")),
    ]
    if not full:   # quick tier: one representative per family (the others run in the thorough tier)
        base = [base[i] for i in (0, 1, 2, 3, 4, 5, 6, 8, 9, 10)]
    return base + stress_catalogue(rng, full) + sweep_catalogue(rng, full)


def stress_catalogue(rng, full=False):
    """Configurations that reach the rarely executed paths: a run-function failing around the optimum (so model-based suggestions fail: the
    filter_failures paths, Optimizer.update_next after an all-failed batch with 'ignore'), and a small fully discrete space with a string
    categorical (every candidate batch contains duplicates / already sampled points: Optimizer._filter_duplicated really filters)."""
    B = [2, 2, 2, 2, 2, 2, 2]
    cat = [
        base_case(rng, space="flat_real", fail_region=0.4, evals=14, kwargs=K(acq_func="UCBd", filter_failures="ignore")),
        base_case(rng, space="cond", fail_region=0.4, evals=14, kwargs=K(acq_func="UCBd", filter_failures="ignore")),
        base_case(rng, space="flat_real", fail_region=0.6, mode="ask", batches=B, kwargs=K(acq_func="UCBd", filter_failures="ignore", multi_point_strategy="qUCB")),
        base_case(rng, space="flat_mixed", fail_region=0.6, mode="ask", batches=B, kwargs=K(acq_func="UCB", filter_failures="mean", multi_point_strategy="cl_max")),
        base_case(rng, space="flat_mixed", fail_region=0.4, evals=12, kwargs=K(surrogate_model="RF", acq_func="EI", filter_failures="min")),
        base_case(rng, space="flat_real", evals=12, kwargs=K(acq_func="UCB", update_prior=True)),   # Real.rvs samples from the fitted KDE
        base_case(rng, space="discrete", evals=12, kwargs=K(acq_func="UCBd")),
        base_case(rng, space="discrete", mode="ask", batches=[2, 3, 2, 3, 2], kwargs=K(surrogate_model="DUMMY", acq_func="UCB", multi_point_strategy="cl_max")),
    ]
    if not full:
        cat = [cat[i] for i in (0, 2, 3, 5, 6)]
    return cat + shared_catalogue(rng, full)


def sweep_catalogue(rng, full=False):
    """Blind-spot sweep: state between several search() calls on one object, a search continued from a checkpoint (fit_surrogate from a
    DataFrame / a csv file), the seed given as a numpy integer / a RandomState, the seeds 0 and 2**32-1, an exhausted space, a constant
    objective, every evaluation failing, surrogates / acquisition optimizers that are not the default."""
    def edge(c, seed):
        c.update(seed=seed, seed2=(seed + 12345) % 2**32)
        return c

    cat = [
        base_case(rng, space="flat_mixed", kwargs=K(acq_func="UCBd"), calls=[3, 4, 3, 2]),
        base_case(rng, search="RegEvo", space="cond", kwargs=dict(population_size=5, sample_size=2), calls=[4, 4, 4, 3]),
        base_case(rng, space="cond", evals=7, kwargs=K(acq_func="UCBd"), warm=10, warm_how="fit_surrogate"),
        base_case(rng, space="flat_mixed", evals=7, kwargs=K(surrogate_model="RF", acq_func="EI"), warm=10, warm_how="csv"),
        base_case(rng, space="flat_mixed", evals=8, kwargs=K(acq_func="UCBd"), seed_kind="np.int64"),
        base_case(rng, search="Random", space="cond", evals=8, seed_kind="np.int32"),
        base_case(rng, space="cond", evals=8, kwargs=K(acq_func="UCB"), seed_kind="RandomState"),
        edge(base_case(rng, space="flat_mixed", evals=8, kwargs=K(acq_func="UCBd")), 0),
        edge(base_case(rng, search="RegEvo", space="flat_many", evals=12, kwargs=dict(population_size=5, sample_size=2)), 2**32 - 1),
        base_case(rng, space="tiny", evals=15, kwargs=K(acq_func="UCBd")),
        base_case(rng, space="flat_real", evals=9, const_obj=True, kwargs=K(surrogate_model="RF", acq_func="EI")),
        base_case(rng, space="flat_real", evals=8, fail_region=100.0, kwargs=K(acq_func="UCBd", filter_failures="mean")),
    ]
    return cat if full else [cat[i] for i in (0, 2, 4, 6, 7, 8, 9, 10)]


def variant_case(rng):
    """Surrogates and acquisition optimizers that are not the default (thorough tier)."""
    sm = rng.choice(["TB", "RS", "GBRT", "HGBRT", "ET", "ET", "GP"])
    kw = K(surrogate_model=sm, acq_func=rng.choice(["UCB", "EI", "PI"]))
    if sm in ("ET", "GP"):
        kw["acq_optimizer"] = rng.choice(["sampling", "lbfgs", "ga"] if sm == "ET" else ["sampling", "lbfgs"])
    c = dict(space="flat_real" if sm == "GP" or kw.get("acq_optimizer") in ("lbfgs", "ga") else rng.choice(["flat_mixed", "cond", "flat_many"]), evals=rng.randrange(7, 10), kwargs=kw)
    r = rng.random()
    if r < 0.25:
        c.pop("evals")
        c["calls"] = [rng.randrange(2, 5) for _ in range(3)]
    elif r < 0.4:
        c.update(warm=10, warm_how=rng.choice(["fit_surrogate", "csv"]))
    elif r < 0.5:
        c.update(const_obj=True)
    if rng.random() < 0.2:
        c.update(seed_kind=rng.choice(["np.int64", "np.uint32", "RandomState"]))
    return base_case(rng, **c)


def shared_catalogue(rng, full=False):
    """(a) the observed search shares its HpProblem OBJECT with another search (other seed) built after it in the same process, which draws before
    and between the steps of the observed one - a different number of sampling calls in the two processes; (b) CBO with n_jobs = 4: the
    per-dimension sampling tasks of Space.rvs run in a thread pool (another thread-switch interval in each process, two runs per process)."""
    RE = dict(population_size=5, sample_size=2)
    cat = [
        base_case(rng, search="Random", space="cond", evals=8, interfere="Random"),
        base_case(rng, search="Random", space="flat_many", mode="ask", batches=[2, 1, 3, 2], interfere="RegEvo"),
        base_case(rng, search="RegEvo", space="flat_mixed", mode="ask", batches=[3, 3, 2, 2, 2], kwargs=RE, interfere="Random"),
        base_case(rng, search="CBO", space="cond", evals=10, kwargs=K(acq_func="UCBd"), interfere="Random"),
        base_case(rng, search="CBO", space="cond", mode="ask", batches=[2, 2, 2, 2, 2], kwargs=K(acq_func="UCB", multi_point_strategy="cl_max"), interfere="CBO"),
        base_case(rng, space="flat_many", evals=14, threads=True, repeat=2, kwargs=K(surrogate_model="DUMMY", acq_func="UCB", n_jobs=4)),
        base_case(rng, space="flat_many", evals=10, threads=True, repeat=2, kwargs=K(surrogate_model="ET", acq_func="UCBd", n_jobs=4)),
        base_case(rng, space="flat_many", evals=10, threads=True, repeat=2, kwargs=K(surrogate_model="DUMMY", acq_func="UCB", n_jobs=1)),
        # "all the CPUs the process may use": process B is allowed 2 CPUs, process A all of them; L-BFGS at every fit
        base_case(rng, space="flat_real", evals=12, threads=True, kwargs=K(surrogate_model="GP", acq_func="EI", n_jobs=-1, acq_optimizer_freq=1)),
        # a long history continued with a GP (second entry point fit_surrogate, > 500 observations)
        base_case(rng, space="flat_real", evals=2, kwargs=K(surrogate_model="GP", acq_func="EI", n_initial_points=2, n_points=32), warm=510, warm_how="fit_surrogate"),
    ]
    return cat if full else [cat[i] for i in (0, 2, 4, 5, 6, 8)]


def random_case(rng, surrogates=("DUMMY", "ET", "RF"), search=None):
    search = search or rng.choice(["CBO"] * 6 + ["Random", "RegEvo"])
    space = rng.choice(SPACES)
    inter = dict(interfere=rng.choice(["Random", "RegEvo", "CBO"])) if search != "CBO" and rng.random() < 0.35 else {}
    if search == "Random":
        return base_case(rng, search=search, space=space, **inter, **(dict(mode="ask", batches=[rng.randrange(1, 4) for _ in range(4)]) if rng.random() < 0.4 else dict(evals=rng.randrange(8, 13))))
    if search == "RegEvo":
        pop = rng.randrange(4, 8)
        kw = dict(population_size=pop, sample_size=rng.randrange(2, pop))
        return base_case(rng, search=search, space=space, kwargs=kw, **inter, **(dict(mode="ask", batches=[3, 3, 2, 2, 3, 2]) if rng.random() < 0.3 else dict(evals=pop + rng.randrange(6, 10))))
    sm = rng.choice(list(surrogates))
    acqs = ["UCB", "EI", "PI", "UCBd", "EId", "PId", "MES", "MESd", "gp_hedge", "gp_hedged"]
    if sm == "GP":
        acqs = ["UCB", "EI", "PI", "gp_hedge", "MES"]   # GP + *d: F04 (TypeError)
    if sm == "DUMMY":
        acqs = ["UCB", "UCBd"]
    kw = K(surrogate_model=sm, acq_func=rng.choice(acqs), initial_point_generator=rng.choice(INITS), n_initial_points=rng.randrange(3, 6), n_points=rng.choice([32, 64, 128]))
    c = dict(space="flat_real" if sm == "GP" else space, kwargs=kw, nobj=rng.choice([1, 1, 1, 2, 3]), fail_mod=rng.choice([0, 0, 0, 3, 5]))
    if rng.random() < 0.3:
        c.update(fail_region=rng.choice([0.3, 0.4, 0.6]), fail_mod=0)
        kw["filter_failures"] = rng.choice(["ignore", "ignore", "mean", "min"])
    if rng.random() < 0.4:
        kw["multi_point_strategy"] = rng.choice(["cl_min", "cl_mean", "cl_max", "qUCB", "qUCBd", "topk", "boltzmann"] if sm != "GP" else ["cl_min", "cl_max", "qUCB"])
        c.update(mode="ask", batches=[rng.randrange(1, 4) for _ in range(5)])
    else:
        c.update(evals=rng.randrange(8, 14))
    if c["nobj"] > 1:
        kw["moo_scalarization_strategy"] = rng.choice(["Chebyshev", "Linear", "PBI", "AugChebyshev", "Quadratic"])
    if rng.random() < 0.1:
        kw["update_prior"] = True
    if rng.random() < 0.12:
        kw["n_jobs"] = rng.choice([1, 4])
        c.update(threads=True, repeat=2, space=rng.choice(["flat_many", "flat_mixed"]) if sm != "GP" else "flat_real")
    if rng.random() < 0.15 and sm != "GP":
        c.update(interfere=rng.choice(["Random", "RegEvo", "CBO"]))
    if rng.random() < 0.2 and "filter_failures" not in kw:
        kw["filter_failures"] = rng.choice(["mean", "min", "ignore"])
    return base_case(rng, **c)


KNOWN_KEYS = ("S_MesRvs",)   # F09: the one reachable unseeded site of the pinned tree


def probes(rng):
    """(tags, case): one representative per way of reaching code; the tags are matched against the text (function, callee, guard) of a call
    site that the static check rejects, so that the search for a differing pair starts with the configurations that execute it."""
    B = [2, 2, 2, 2, 2, 2, 2]
    RE = dict(population_size=5, sample_size=2)
    return [
        (["self._problem=", "sharedstate", "randomsearch"], base_case(rng, search="Random", space="cond", evals=8, interfere="Random")),
        (["self._problem=", "sharedstate", "regularizedevolution"], base_case(rng, search="RegEvo", space="flat_mixed", mode="ask", batches=[3, 3, 2, 2, 2], kwargs=RE, interfere="Random")),
        (["self._problem=", "self.space=", "self.config_space=", "config_space"], base_case(rng, search="CBO", space="cond", mode="ask", batches=[2, 2, 2, 2, 2], kwargs=K(acq_func="UCB", multi_point_strategy="cl_max"), interfere="CBO")),
        (["delayed(", "parallel", "_sample_dimension", "n_jobs"], base_case(rng, space="flat_many", evals=14, threads=True, repeat=2, kwargs=K(surrogate_model="DUMMY", acq_func="UCB", n_jobs=4))),
        (["delayed(", "parallel", "fmin_l_bfgs_b", "n_jobs"], base_case(rng, space="flat_real", evals=10, threads=True, repeat=2, kwargs=K(surrogate_model="GP", acq_func="EI", n_jobs=4))),
        (["effective_n_jobs", "cpu_count", "sched_getaffinity", "host", "lbfgs", "fmin_l_bfgs_b", "n_restarts"],
         base_case(rng, space="flat_real", evals=12, threads=True, kwargs=K(surrogate_model="GP", acq_func="EI", n_jobs=-1, acq_optimizer_freq=1))),
        (["optimizer._sample", "np.random.choice", "sample_max_size", "quantile"],
         base_case(rng, space="flat_real", evals=2, kwargs=K(surrogate_model="GP", acq_func="EI", n_initial_points=2, n_points=32), warm=510, warm_how="fit_surrogate")),
        (["_kde", "resample", "update_prior", "real.rvs"], base_case(rng, space="flat_real", evals=12, kwargs=K(acq_func="UCB", update_prior=True))),
        (["update_next", "fail", "ignore", "cbo._tell", "opt_y"], base_case(rng, space="flat_real", fail_region=0.4, evals=14, kwargs=K(acq_func="UCBd", filter_failures="ignore"))),
        (["update_next", "fail", "ignore", "config_space"], base_case(rng, space="cond", fail_region=0.4, evals=14, kwargs=K(acq_func="UCBd", filter_failures="ignore"))),
        (["duplicat", "sampled", "filter", "categor"], base_case(rng, space="discrete", evals=12, kwargs=K(acq_func="UCBd"))),
        (["duplicat", "sampled", "filter", "cl_", "copy", "optimizer.ask"], base_case(rng, space="discrete", mode="ask", batches=[2, 3, 2, 3, 2], kwargs=K(surrogate_model="DUMMY", acq_func="UCB", multi_point_strategy="cl_max"))),
        ([], base_case(rng, kwargs=K(acq_func="UCBd"), evals=12)),
        (["config_space", "cond", "sample_configuration"], base_case(rng, space="cond", kwargs=K(surrogate_model="RF", acq_func="EI"), evals=12)),
        (["optimizer.ask", "copy", "cl_", "lie"], base_case(rng, mode="ask", batches=[2, 3, 2, 3, 2], kwargs=K(acq_func="UCB", multi_point_strategy="cl_max"))),
        (["qlcb", "qucb", "exponential", "fail", "filter_failures"], base_case(rng, space="flat_real", fail_region=0.6, mode="ask", batches=B, kwargs=K(acq_func="UCBd", filter_failures="ignore", multi_point_strategy="qUCB"))),
        (["fail", "filter_failures", "mean"], base_case(rng, space="flat_mixed", fail_region=0.6, mode="ask", batches=B, kwargs=K(acq_func="UCB", filter_failures="mean", multi_point_strategy="cl_max"))),
        (["moo", "scalar", "weight"], base_case(rng, nobj=2, kwargs=K(acq_func="PI"), evals=12)),
        (["boltzmann", "topk", "_last_x", "multinomial"], base_case(rng, mode="ask", batches=[2, 3, 2, 3], kwargs=K(acq_func="UCB", multi_point_strategy="boltzmann"))),
        (["gp_hedge", "gains", "multinomial"], base_case(rng, kwargs=K(acq_func="gp_hedge"), evals=12)),
        (["mes", "acquisition"], base_case(rng, kwargs=K(acq_func="MES", n_initial_points=3), evals=16)),
        (["initial_point", "generate", "sampler"], base_case(rng, kwargs=K(acq_func="UCB", initial_point_generator="lhs"), evals=10)),
        (["randomsearch", "config_space"], base_case(rng, search="Random", space="cond", evals=10)),
        (["randomsearch"], base_case(rng, search="Random", space="flat_many", evals=10)),
        (["regularizedevolution", "population"], base_case(rng, search="RegEvo", space="flat_many", evals=16, kwargs=dict(population_size=5, sample_size=2))),
        (["regularizedevolution", "active", "config_space"], base_case(rng, search="RegEvo", space="cond", evals=16, kwargs=dict(population_size=5, sample_size=2))),
    ]


def targeted_classes(rng):
    """Configurations that reach a call site which the static check rejects (per the extracted model on the generated sites: an RNG site not
    fed by the seeded stream, or an environment read that flows into the search) - a proof obligation is broken: the dynamic search starts there.
    Returned in the order of how well a probe's tags match the text of the rejected sites."""
    a = analysis()
    try:
        m = model()
        pr = probes(rng)
        if not a["ok"]:
            # unknown shape somewhere: every class is a target; the text of the offending node still tells where to look first
            text = a["reason"].lower()
            ranked = sorted(range(len(pr)), key=lambda n: (-sum(1 for t in pr[n][0] if t in text), n))
            return [pr[n][1] for n in ranked[:6]], ["translator failed closed: " + a["reason"]]
        cs = a["consts"]
        known = {cs[k] for k in KNOWN_KEYS}
        old_env = {cs["S_SdvSetOrder"], cs["S_RegevoSetOrder"], cs["S_InternalAlias"]}
        hits, scored = [], []
        for n, (tags, c) in enumerate(pr):
            bad = [a["rng_sites"][i] for i in m.call(F_BAD, model_args(c)) if a["rng_sites"][i]["num"][1] not in known]
            ebad = []
            if not m.call(F_ENV_OK, [a.get("world", [True, False]), cfg_of(c), [s["num"] for s in a["env_sites"]]]):
                ebad = [s for s in a["env_sites"] if s["flow"] == "Flows" and s["num"][1] not in old_env]
            if bad or ebad:
                text = " ".join("%s %s %s %s" % (s["file"], s["func"], s["callee"], s["guard"]) for s in bad + ebad).lower()
                scored.append((-sum(1 for t in tags if t in text), n, c))
                hits += ["%s:%d %s %s" % (s["file"], s["line"], s["func"], s["callee"]) for s in bad + ebad]
        return [c for _, _, c in sorted(scored, key=lambda x: x[:2])], sorted(set(hits))
    except Exception:
        return [], []


def gen_pairs(rng, tier):
    tgt, _ = targeted_classes(rng)
    # three seeds per targeted class: a global draw need not change the proposals of every run
    for c in tgt[:6]:
        for _ in range(3 if tier != "quick" else 2):
            c2 = dict(c)
            s = rng.randrange(1, 10**6)
            c2.update(seed=s, seed2=s + 17, pa=rng.randrange(1, 50), pb=rng.randrange(51, 100))
            yield c2
    if tier == "quick":
        yield from quick_catalogue(rng)
    elif tier == "search":
        yield from quick_catalogue(rng)[:6]
        for _ in range(10):
            yield random_case(rng)
    else:
        yield from quick_catalogue(rng, full=True)
        for sm in ("GP", "GP", "GP"):
            yield random_case(rng, surrogates=(sm,), search="CBO")
        for _ in range(55):
            yield random_case(rng)
        for _ in range(14):
            yield variant_case(rng)


def search_around(rng, tier, case):
    """Search-on-break: the same class, other seeds / perturbations, a longer run."""
    for i in range(8):
        c = dict(case)
        s = rng.randrange(1, 10**6)
        c.update(seed=s, seed2=s + 5, pa=rng.randrange(1, 50), pb=rng.randrange(51, 100), ha=rng.randrange(1, 500), hb=rng.randrange(501, 1000))
        if "evals" in c:
            c["evals"] = max(c["evals"], 14)
        yield c


def shrink_pair(case):
    if case.get("mode") == "ask" and len(case["batches"]) > 2:
        yield dict(case, batches=case["batches"][:-1])
    if case.get("mode", "search") == "search" and case["evals"] > 5:
        yield dict(case, evals=case["evals"] - 2)
    if case.get("nobj", 1) > 1:
        yield dict(case, nobj=1, kwargs={k: v for k, v in case["kwargs"].items() if k != "moo_scalarization_strategy"})
    if case.get("fail_mod"):
        yield dict(case, fail_mod=0)
    if case.get("fail_region"):
        yield dict(case, fail_region=0.0)
    if case.get("calls") and len(case["calls"]) > 1:
        yield dict(case, calls=case["calls"][:-1])
    if case.get("const_obj"):
        yield dict(case, const_obj=False)
    if case.get("repeat", 1) > 1:
        yield dict(case, repeat=case["repeat"] - 1)
    if case["space"] != "flat_real":
        yield dict(case, space="flat_real")
    kw = case.get("kwargs", {})
    for k in ("initial_point_generator", "filter_failures", "multi_point_strategy"):
        if k in kw and not (k == "multi_point_strategy" and case.get("mode") == "ask"):
            yield dict(case, kwargs={a: b for a, b in kw.items() if a != k})


# ---------------------------------------------------------------------------------------------- site traces (in-process)
LOGGED = ("randint", "rand", "randn", "random", "random_sample", "choice", "shuffle", "permutation", "multinomial", "exponential", "uniform", "normal",
          "standard_normal", "beta", "gamma", "dirichlet", "binomial", "poisson", "bytes", "get_state", "tomaxint", "random_integers", "triangular",
          "lognormal", "standard_exponential", "standard_gamma", "multivariate_normal", "geometric", "laplace", "logistic", "weibull")


def site_index(a, rel, lineno, method):
    """The static site that issued a draw observed at (file, line): the innermost listed call containing the line; among several on the same
    lines the one whose callee ends with the method that was invoked."""
    def pref(s):
        if method == "RandomState":   # a generator was constructed below this line: the constructor / ConfigSpace .seed( site
            return 0 if s["cls"] in ("CtorSeeded", "CtorFresh", "CSSeed") else 1
        return 0 if s["callee"].split(".")[-1] == method else 1

    cands = [(s["end"] - s["line"], pref(s), i) for i, s in enumerate(a["rng_sites"]) if s["file"] == rel and s["line"] <= lineno <= s["end"]]
    return min(cands)[2] if cands else None


def check_trace(case):
    import numpy as np

    from . import c07_child as child

    a = analysis()
    m = model()
    res = dict(ok=True, kind="oracle", clause="", sig={}, nontrivial=False, desc=describe(case))
    root = os.path.join(os.path.realpath(REPO), "src", "deephyper") + os.sep
    events = []

    def note(method):
        f = sys._getframe(2)
        direct = True
        while f is not None:
            fn = os.path.realpath(f.f_code.co_filename)
            if fn.startswith(root):
                events.append((fn[len(root):], f.f_lineno, method, direct))
                return
            direct = False
            f = f.f_back

    def wrap(name):
        def method(self, *args, **kw):
            note(name)
            return getattr(RS0, name)(self, *args, **kw)
        return method

    RS0 = np.random.RandomState
    body = {n: wrap(n) for n in LOGGED if hasattr(RS0, n)}

    def init(self, *args, **kw):
        note("RandomState")
        RS0.__init__(self, *args, **kw)

    body["__init__"] = init
    LoggingRS = type("LoggingRS", (RS0,), body)
    spec = spec_of(case, case["seed"], case.get("pa", 1))
    master = LoggingRS(case["seed"])
    del events[:]
    # every RandomState constructed during the run (child states of Space.rvs, ConfigSpace's generator, sklearn's check_random_state(int))
    # is a logging one as well; numpy's global generator stays what it is (its consumption is observed through its state)
    np.random.RandomState = LoggingRS
    try:
        out = child.run_one(spec, random_state=master)
    except Exception as e:
        res["desc"] = res["desc"] + ["exception:" + type(e).__name__]   # F03 / F04-style configuration errors are not this property
        return res
    finally:
        np.random.RandomState = RS0
    if not a["ok"]:
        # the translator failed closed (reported through the broken proof obligation): the site list is incomplete, only the state of the
        # global generators is checked
        res["desc"] = res["desc"] + ["translator_failed_closed", "global_generators_touched=%s" % any(out["globals_touched"])]
        return res
    sched, outside, unlisted, mediated = [], set(), [], set()
    for rel, ln, meth, direct in events:
        if rel not in c07_sites.ANCHORS:
            outside.add(rel)
            continue
        i = site_index(a, rel, ln, meth)
        if i is None:
            # a draw issued by library code (estimator fit, scaler, ...) below a line that lists no site: seeded through a Pass site at construction
            (unlisted if direct else mediated).add("%s:%d %s" % (rel, ln, meth)) if not direct else unlisted.append("%s:%d %s" % (rel, ln, meth))
        elif i not in sched:
            sched.append(i)
    res["desc"] = res["desc"] + ["library_draw_below:%s" % x for x in sorted(mediated)] + ["draws_outside_anchors:%s" % x for x in sorted(outside)]
    res["nontrivial"] = len(sched) >= 3
    res["desc"] = res["desc"] + ["sites_observed=%d" % len(sched)] + ["site:%s:%s" % (a["rng_sites"][i]["func"], a["rng_sites"][i]["callee"]) for i in sched]
    if unlisted:
        return dict(res, ok=False, kind="corr", clause="observed_draw_not_listed", sig=sig_of(case, "observed_draw_not_listed"), nontrivial=True,
                    detail=dict(unlisted=sorted(set(unlisted))[:10], note="a draw on the search's RandomState was issued from a line of an anchor file where the translator lists no RNG call site"))
    args = model_args(case)
    if not m.call(F_ACCEPT, args + [sched]):
        unreach = m.call(F_UNREACH, args + [sched])
        names = lambda idx: ["%s:%d %s %s [%s] num=%s" % (a["rng_sites"][i]["file"], a["rng_sites"][i]["line"], a["rng_sites"][i]["func"], a["rng_sites"][i]["callee"], a["rng_sites"][i]["cls"], a["rng_sites"][i]["num"]) for i in idx]
        if unreach:
            return dict(res, ok=False, kind="corr", clause="observed_site_declared_unreachable", sig=sig_of(case, "observed_site_declared_unreachable"), nontrivial=True,
                        detail=dict(sites=names(unreach), cfg=cfg_of(case), note="the hand-written reachability table (Keys.v / Model.key_ok) says this class cannot execute a site that it did execute"))
        bad = [i for i in sched if i in set(m.call(F_BAD, args))]
        return dict(res, ok=False, kind="oracle", clause="observed_unseeded_site", sig=sig_of(case, "observed_unseeded_site"), nontrivial=True, detail=dict(sites=names(bad)))
    touched = out["globals_touched"]
    predicted = bool(m.call(F_TOUCH, args))
    res["desc"].append("global_generators_touched=%s" % any(touched))
    if any(touched) and not predicted:
        return dict(res, ok=False, kind="corr", clause="global_generator_consumed", sig=sig_of(case, "global_generator_consumed"), nontrivial=True,
                    detail=dict(touched=dict(numpy=touched[0], python_random=touched[1]), model_may_touch_global=predicted))
    return res


def gen_trace_cases(rng, tier):
    n = 40 if tier == "thorough" else 10
    cat = quick_catalogue(rng)
    if tier != "thorough":   # the usual classes plus three of the stress configurations (failing run-function, discrete space)
        st = stress_catalogue(rng, full=True)
        cat = cat[:8] + [st[0], st[1], st[6]]
        n = len(cat)
    for c in cat[:n]:
        yield dict(c, evals=min(c.get("evals", 9), 10)) if "evals" in c else c
    for _ in range(max(0, n - len(cat))):
        yield random_case(rng, surrogates=("DUMMY", "ET", "RF", "GP") if rng.random() < 0.15 else ("DUMMY", "ET", "RF"))


def gen_trace(rng, tier):
    # the interfering search of the shared-problem pairs belongs to another class (its draws would be attributed to the observed class): not traced
    for c in gen_trace_cases(rng, tier):
        yield {k: v for k, v in c.items() if k not in ("interfere", "warm", "warm_how")}   # (the checkpoint is produced by a RandomSearch, too)


def streams(tier):
    LOUD["pyflags"] = ["-b", "-O"] if tier == "thorough" else ["-b"]
    return [
        Stream("process_pairs", gen_pairs, check_pair, shrink=shrink_pair, parallel=True, timeout=3000, search_gen=search_around),
        Stream("site_trace", gen_trace, check_trace, shrink=shrink_pair, parallel=True, timeout=300),
    ]
