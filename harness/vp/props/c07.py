"""C07 - Seeded searches are reproducible.

Tie:
 (a) translator (static half).  facts(repo) walks the eight anchor files (props/c07_sites.py, fail closed) and regenerates
     Generated/Facts_C07.v: every RNG call site with its classification, every environment read with the flow of its value, and
     the two source facts the reachability table rests on.  Theorems C07_sites_complete / C07_sites_seeded / C07_env_benign are
     re-checked against these facts on every run: a new draw from a global generator, a seeded draw changed to a global one, a
     ConfigSpace seed taken from hash()/the clock, an order-sensitive iteration over a set - each breaks a proof obligation.
 (b) correspondence (dynamic half).
     process_pairs : the same seeded search is run in two fresh interpreters (different PYTHONHASHSEED, different perturbation of
                     numpy's and Python's global generators, different log directory) and once more with another seed; the extracted
                     Coq oracle ok_C07 decides  A = B  and  A <> C  on the sequences of proposed configurations (Search.ask outputs
                     as seen by the run-function, and the p:* columns of the returned DataFrame).  Model <-> code: the model's
                     may_touch_global (from the generated sites + reach table) must agree with whether the run changed the state of
                     the global generators.
     site_trace    : an in-process run with a logging RandomState subclass; every draw on the master stream is attributed to the
                     static call site (file, line) that issued it; the extracted `accept` checks that each observed site is listed,
                     declared reachable for the configuration class by the hand-written table, and seeded.
"""
import json
import os
import random
import re
import subprocess
import sys
import tempfile

from ..driver import model
from ..runner import Stream
from .. import srcfacts, build
from . import c07_sites

PROPERTY = "C07"
LEVEL = "proof"
FACTS = ["rng_sites", "env_sites", "cbo_opt_kwargs", "sample_max_size_default"]
TRUSTED = [
    "partial: hidden nondeterminism inside scikit-learn / scipy / ConfigSpace / pandas (thread summation order, set iteration inside libraries) is not "
    "modelled; it is only sampled by the process pairs",
    "the translator's classification rule (props/c07_sites.py, printed in its docstring and echoed in coverage.facts): generator expressions are "
    "self.<rng attribute>, parameters named random_state/rng/seed, locals assigned from those; a function's random_state parameter is assumed to be "
    "supplied by its callers (keyword call sites inside the anchors are themselves listed as Pass / PassFresh sites, positional hand-over is not checked)",
    "ConfigSpace: ConfigurationSpace.seed(s) makes sample_configuration / hp.rvs(random_state=space.random) a function of s; "
    "numpy RandomState(seed) / scipy rvs(random_state=) are deterministic functions of the seed",
    "the hand-written reachability table (coq/theories/C07_Repro/Keys.v + Model.key_ok): validated only dynamically (stream site_trace, and "
    "global-generator state observed by process_pairs)",
    "only the eight anchor files are walked: a global draw inside another deephyper module (samplers, surrogates, GMMSampler) is seen by the process pairs only",
]
ASSUMPTIONS = [
    "num_workers = 1, serial evaluator, deterministic async run-function; the same sequence of search()/ask()/tell() calls in both processes",
    "random_state is a Python int; transfer learning (fit_generative_model / fit_search_space) is outside the property's quantifier",
]
RULE = ("process_pairs: one case per configuration class drawn from search class x surrogate x acquisition x multi-point strategy (ask(n) / tell scripts) x "
        "initial design x space (flat real / mixed / many names / conditional / forbidden) x objectives x failures x seeds; non-trivial = the run left the "
        "initial design (a fitted surrogate / an evolution step proposed at least one configuration). site_trace: the same classes in-process with a logging RandomState")
COQ_DIRS = ("Common",)

F_OK, F_ACCEPT, F_SITES_OK, F_TOUCH, F_BAD, F_ENV_OK, F_UNREACH = 701, 702, 703, 704, 705, 706, 707
CLAUSE = {1: "same_seed_differs", 2: "different_seeds_same_sequence"}
REPO = srcfacts.REPO
HERE = os.path.dirname(os.path.abspath(__file__))
KEYS_V = os.path.join(build.COQ, "theories", "C07_Repro", "Keys.v")
MODEL_V = os.path.join(build.COQ, "theories", "C07_Repro", "Model.v")


# ---------------------------------------------------------------------------------------------- translator
def parse_tables():
    """The numeric constants of Model.v and the two string tables of Keys.v (single source: the Coq files)."""
    consts = {m.group(1): int(m.group(2)) for m in re.finditer(r"Definition\s+([A-Z]_[A-Za-z]+)\s*:=\s*(\d+)\s*\.", build.strip_comments(open(MODEL_V).read()))}
    src = build.strip_comments(open(KEYS_V).read())

    def body(name):
        m = re.search(r"Definition\s+%s\b[^=]*:=\s*\[(.*?)\n\]\s*\." % name, src, re.S)
        if not m:
            raise c07_sites.Closed("Keys.v: table %s not found" % name)
        return m.group(1)

    s = r'"((?:[^"]|"")*)"'
    owners, keys = {}, {}
    lines = [l.strip() for l in body("owner_table").split("\n") if l.strip()]
    for l in lines:
        m = re.fullmatch(r"\(%s,\s*([A-Za-z_]+)\);?" % s, l)
        if not m:
            raise c07_sites.Closed("Keys.v: owner_table line not understood: " + l)
        owners[m.group(1).replace('""', '"')] = consts[m.group(2)]
    lines = [l.strip() for l in body("key_table").split("\n") if l.strip()]
    for l in lines:
        m = re.fullmatch(r"\(\(%s,\s*%s,\s*%s,\s*%s\),\s*([A-Za-z_]+)\);?" % (s, s, s, s), l)
        if not m:
            raise c07_sites.Closed("Keys.v: key_table line not understood: " + l)
        k = tuple(x.replace('""', '"') for x in m.groups()[:4])
        if k not in keys:  # first match wins, as in lookup_key
            keys[k] = consts[m.group(5)]
    return consts, owners, keys


_analysis = {}


def analysis(repo=None):
    """Sites of the current tree + their numeric form (cached per process)."""
    repo = repo or REPO
    if repo in _analysis:
        return _analysis[repo]
    r = c07_sites.analyse(repo)
    try:
        consts, owners, keys = parse_tables()
        for s in r["rng_sites"]:
            k4 = (s["file"], s["func"], s["callee"], s["guard"])
            s["num"] = [owners.get(s["file"], consts["O_Any"]), keys.get(k4, consts["S_None"]), c07_sites.CLASSES.index(s["cls"])]
        for s in r["env_sites"]:
            k4 = (s["file"], s["func"], s["callee"], s["guard"])
            s["num"] = [owners.get(s["file"], consts["O_Any"]), keys.get(k4, consts["S_None"]), c07_sites.ENV_KINDS.index(s["kind"]), c07_sites.FLOWS.index(s["flow"])]
        r["consts"] = consts
        if r["ok"]:
            ex = r["extra"]
            r["world"] = [bool("sample_max_size" in ex["cbo_opt_kwargs"] or ex["sample_max_size_default"] > 0)]
    except c07_sites.Closed as e:
        r["ok"], r["reason"] = False, str(e)
    _analysis[repo] = r
    return r


def facts(repo):
    r = analysis(repo)
    cs, cl = srcfacts.coq_string, srcfacts.coq_list
    if not r["ok"]:
        text = srcfacts.fail_closed(r["reason"]) + (
            "Definition rng_sites : list ((string * string * string * string) * (Z * Z * Z)) := [].\n"
            "Definition env_sites : list ((string * string * string * string) * (Z * Z * Z)) := [].\n"
            "Definition rng_sites_num : list (Z * Z * Z) := [].\nDefinition env_sites_num : list (Z * Z * Z * Z) := [].\n"
            "Definition cbo_opt_kwargs : list string := [].\nDefinition sample_max_size_default : Z := 1.\nDefinition world_num : bool := true.\n")
        return text, {"ok": False, "reason": r["reason"]}
    rows = ["((%s, %s, %s, %s), (%d, %d, %d))" % (cs(s["file"]), cs(s["func"]), cs(s["callee"]), cs(s["guard"]), c07_sites.CLASSES.index(s["cls"]), s["line"], s["end"]) for s in r["rng_sites"]]
    erows = ["((%s, %s, %s, %s), (%d, %d, %d))" % (cs(s["file"]), cs(s["func"]), cs(s["callee"]), cs(s["guard"]), c07_sites.ENV_KINDS.index(s["kind"]), c07_sites.FLOWS.index(s["flow"]), s["line"]) for s in r["env_sites"]]
    ex = r["extra"]
    text = (
        "Definition srcfacts_ok := true.\n"
        "(* classification index: %s *)\n" % ", ".join("%d %s" % (i, c) for i, c in enumerate(c07_sites.CLASSES))
        + "(* ((file, enclosing function, dotted callee, outermost enclosing if-test), (classification, line, end line)) *)\n"
        + "Definition rng_sites : list ((string * string * string * string) * (Z * Z * Z)) :=\n  " + cl(["\n  " + x for x in rows]) + ".\n"
        + "(* environment reads: kind index %s ; flow index %s *)\n" % (", ".join("%d %s" % (i, c) for i, c in enumerate(c07_sites.ENV_KINDS)), ", ".join("%d %s" % (i, c) for i, c in enumerate(c07_sites.FLOWS)))
        + "Definition env_sites : list ((string * string * string * string) * (Z * Z * Z)) :=\n  " + cl(["\n  " + x for x in erows]) + ".\n"
        + "(* numeric copies computed by the translator from the tables of C07_Repro/Keys.v (re-computed and compared by C07_sites_complete) *)\n"
        + "Definition rng_sites_num : list (Z * Z * Z) := " + cl(["(%d, %d, %d)" % tuple(s["num"]) for s in r["rng_sites"]]) + ".\n"
        + "Definition env_sites_num : list (Z * Z * Z * Z) := " + cl(["(%d, %d, %d, %d)" % tuple(s["num"]) for s in r["env_sites"]]) + ".\n"
        + "Definition cbo_opt_kwargs : list string := " + cl([cs(k) for k in ex["cbo_opt_kwargs"]]) + ".\n"
        + "Definition sample_max_size_default : Z := %s.\n" % (("(%d)" % ex["sample_max_size_default"]))
        + "Definition world_num : bool := %s.\n" % ("true" if r["world"][0] else "false")
    )
    info = dict(ok=True, n_rng_sites=len(r["rng_sites"]), n_env_sites=len(r["env_sites"]), rng_attrs=r["rng_attrs"], extra=ex, set_valued_methods=r.get("set_methods"),
                rng_sites=["%s:%d %s %s [%s] %s" % (s["file"], s["line"], s["func"], s["callee"], s["cls"], s["num"]) for s in r["rng_sites"]],
                env_sites=["%s:%d %s %s [%s/%s] %s" % (s["file"], s["line"], s["func"], s["callee"], s["kind"], s["flow"], s["num"]) for s in r["env_sites"]],
                not_seeded=["%s:%d %s [%s]" % (s["file"], s["line"], s["callee"], s["cls"]) for s in r["rng_sites"] if s["cls"] in ("Global", "CtorFresh", "Ext", "PassFresh")],
                env_not_benign=["%s:%d %s" % (s["file"], s["line"], s["callee"]) for s in r["env_sites"] if s["flow"] == "Flows"])
    return text, info


def streams(tier):
    return []
