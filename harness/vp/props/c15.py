"""C15 - Results on disk survive crashes and are never destroyed by a new search.

Tie: CRASH INJECTION.  A child interpreter (c15_child.py) patches builtins.open / io.open / os.rename / os.replace before
importing deephyper, records every completed operation on log_dir/results* (including pandas' to_csv) and kills itself
(os._exit) right after operation k.  For every scenario:
  1. one un-crashed run gives the full operation sequence T (with the written text parsed into header / row-of-uid lines),
     the finished evaluations and the observed batching (dump calls);
  2. ORACLE ok_trace (extracted, entry 1502) replays T in the verified file-system model: at EVERY crash point every *.csv
     file must be a well-formed results file (a zero-byte file is NOT) whose rows are finished evaluations, and no row id
     present before an operation may be missing after it (in-place rewrite, rename over an existing file);
  3. CORRESPONDENCE code <-> model of the code: T must be the trace the extracted dump model (entry 1501, variant Today or
     Fixed) emits for the observed batching;
  4. for EVERY k a crashed run: CORRESPONDENCE file-system model <-> OS: the bytes that survive must be exactly what
     `crash T k` (entry 1503) predicts (buffered writes reach the file at close); ORACLE ok_survivors (entry 1504) on the
     real bytes; and CBO.fit_surrogate must load the surviving results.csv;
  5. RESTART at every crash point: in the directory the kill left behind (stale results.csv.tmp included) a forked child
     creates a NEW search (CBO-DUMMY for even k, with fit_surrogate on the renamed survivor; RandomSearch for odd k) and
     runs search(2..3): it must not raise, and the ORACLE ok_restart (entry 1505) on the bytes before / after decides:
     every *.csv well formed, no row id lost, the new evaluations are rows of the new results.csv, every earlier *.csv
     is intact under a name that is not results.csv.  Opens of results* with a mode other than "w" / "a" break the
     correspondence with the model (clause open_mode).
"""
import csv
import io
import json
import os
import shutil
import subprocess
import sys
import tempfile

from ..driver import model
from ..runner import Stream

PROPERTY = "C15"
LEVEL = "proof"
COQ_DIRS = ("Common", "C04_Results", "C11_Pareto")
TRUSTED = [
    "crash = process kill (os._exit) only; the OS page cache / power loss are out of scope",
    "python's buffered text writer: what one dump writes (far below the 8 KiB buffer) reaches the file at close; write(2) of < 8 KiB is atomic - "
    "VALIDATED at every crash point: the surviving bytes must equal the file-system model's prediction",
    "the child's wrappers around builtins.open / io.open / os.rename / os.replace see every operation on log_dir/results* (pandas' to_csv included)",
    "python csv module for parsing written text and survivors; uid of a row = its objective / objective_0 cell (or the F_<uid> label)",
    "time.strftime('%Y%m%d-%H%M%S') is pinned in the child for the same-second scenarios (no wall-clock dependence)",
    "CBO(surrogate_model='DUMMY').fit_surrogate as the loader of a surviving results.csv",
]
ASSUMPTIONS = ["one process writes to log_dir", "log_dir is empty when the first search is created", "serial evaluator, RandomSearch"]
RULE = ("(a later search may be driven only through ask / tell / dump_jobs_done_to_csv instead of search(), in the scenarios and in the restarts) "
        "quick: every crash point (+ a restart in every surviving directory) of a 2-call single-objective search (batch 2), of a 1-call and a 2-call two-objective search, of a single-objective search whose "
        "first evaluations fail, and of 3 searches created within one second; thorough: batches 1-8, 1-3 calls, failures, 2-5 same-second searches. "
        "non-trivial = every scenario (each has >= 10 crash points)")

F_TRACE, F_OKTRACE, F_CRASH, F_OKSURV, F_OKRESTART = 1501, 1502, 1503, 1504, 1505
CHILD = os.path.join(os.path.dirname(os.path.abspath(__file__)), "c15_child.py")
PAR = int(os.environ.get("VP_C15_PAR", "6"))


# ------------------------------------------------------------------ running children
PRE_HEADER = "p:x,objective,job_id,job_status,m:timestamp_submit,m:timestamp_gather"


def pre_files(scen):
    """scen["pre"] = {file name: [uids]} -> {file name: text}; a name that is not *.csv gets garbage (a stale temporary file)."""
    out = {}
    for fn, uids in (scen.get("pre") or {}).items():
        if fn.endswith(".csv"):
            out[fn] = "\r\n".join([PRE_HEADER] + ["1.5,%d.0,%d,DONE,0.1,0.2" % (u, i) for i, u in enumerate(uids)]) + "\r\n"
        else:
            out[fn] = "p:x,objective\r\n0.5,"
    return out


def pre_ops(scen, names):
    """The same files as operations of an earlier process, in front of the recorded trace (the oracle replays from an empty directory)."""
    ops, uids, stale = [], [], []
    tmp = names.tok("results.csv.tmp")
    for fn, us in (scen.get("pre") or {}).items():
        f = names.tok(fn)
        if fn.endswith(".csv"):          # appears at once (written somewhere else, then moved in)
            ops += [[0, tmp], [2, tmp, [[0, 6]] + [[1, u, 6] for u in us]], [3, tmp], [4, tmp, f]]
            uids += us
        else:
            stale = [[0, f], [2, f, [[0, 2], [1, -1, 2]]], [3, f]]
    return ops + stale, uids


def read_dir(log_dir):
    out = {}
    for fn in sorted(os.listdir(log_dir)):
        if fn.startswith("results"):
            with open(os.path.join(log_dir, fn), newline="") as f:
                out[fn] = f.read()
    return out


def run_children(scen, base, ks, tag="", extra=None):
    """One interpreter patches and imports deephyper once, then forks one process per job (PAR at a time).
    Crash jobs: a fresh log_dir per crash point k.  Restart jobs (extra(k) given): the directory the crashed process left.
    Returns {k: dict(ops, actions, finished, survivors{name: text}, rc, err, log_dir)}; the caller removes `base`."""
    jobs = []
    for k in ks:
        log_dir, side = os.path.join(base, "log%d" % k), os.path.join(base, "side%s%d" % (tag, k))
        if not os.path.isdir(log_dir):
            os.makedirs(log_dir)
            for fn, text in pre_files(scen).items():      # what earlier runs left in the directory
                with open(os.path.join(log_dir, fn), "w", newline="") as f:
                    f.write(text)
        os.makedirs(side)
        jobs.append([k if extra is None else extra(k)["restart"].get("kill", 0), log_dir, side] + ([extra(k)] if extra is not None else []))
    p = subprocess.run([sys.executable, CHILD, json.dumps(scen), str(PAR)], input=json.dumps(jobs), env=dict(os.environ),
                       stdout=subprocess.PIPE, stderr=subprocess.PIPE, text=True, timeout=800)
    if p.returncode != 0:
        raise RuntimeError("fork server failed: " + p.stderr[-1500:])
    codes = json.loads(p.stdout)
    out = {}
    for k, job, rc in zip(ks, jobs, codes):
        log_dir, side = job[1], job[2]
        res = dict(rc=rc, err="", log_dir=log_dir)
        ef = os.path.join(side, "err.txt")
        if os.path.exists(ef):
            res["err"] = open(ef).read()[-1500:]
        rd = lambda name: [json.loads(ln) for ln in open(os.path.join(side, name))] if os.path.exists(os.path.join(side, name)) else []
        res["ops"], res["actions"] = rd("ops.jsonl"), rd("actions.jsonl")
        fin = os.path.join(side, "finished.txt")
        res["finished"] = [tuple(int(x) for x in ln.split()) for ln in open(fin)] if os.path.exists(fin) else []
        res["survivors"] = read_dir(log_dir)
        out[k] = res
    return out


# ------------------------------------------------------------------ text -> abstract lines
class Names:
    """file names -> tokens: results.csv = 0, results.csv.tmp (any non-csv) = -1, other *.csv = 1, 2, ... in order of appearance."""

    def __init__(self):
        self.t = {"results.csv": 0}

    def tok(self, name):
        if name not in self.t:
            self.t[name] = (max([v for v in self.t.values() if v > 0], default=0) + 1) if name.endswith(".csv") else -1
        return self.t[name]


def uid_of(row, header):
    for col in ("objective", "objective_0"):
        if col in header:
            i = header.index(col)
            if i < len(row):
                c = row[i]
                if c.startswith("F_") and c[2:].isdigit():
                    return int(c[2:])
                try:
                    x = float(c)
                    if x == int(x):
                        return int(x)
                except ValueError:
                    pass
    return -1  # a row whose evaluation cannot be identified


def parse_lines(text, header):
    """-> (list of abstract lines, header names after these lines); a header line starts with 'p:'."""
    out = []
    for row in csv.reader(io.StringIO(text, newline="")):
        if row and row[0].startswith("p:"):
            header = row
            out.append([0, len(row)])
        else:
            out.append([1, uid_of(row, header or []), len(row)])
    return out, header


def open_modes(ops):
    return sorted(set(o["mode"] for o in ops if o["op"] == "open"))


def abstract_ops(ops, names):
    """Recorded operations -> model operations; the text of every write must consist of complete lines."""
    out, hdr, cur = [], {}, {}
    for o in ops:
        if o["op"] == "open":
            f = names.tok(o["f"])
            if "a" in o["mode"]:
                out.append([1, f])
                cur[f] = hdr.get(f)
            else:
                out.append([0, f])
                cur[f] = None
                hdr[f] = None
        elif o["op"] == "write":
            f = names.tok(o["f"])
            if not o["text"].endswith("\n"):
                raise ValueError("partial line written: %r" % o["text"][-60:])
            lines, cur[f] = parse_lines(o["text"], cur.get(f))
            out.append([2, f, lines])
        elif o["op"] == "close":
            f = names.tok(o["f"])
            out.append([3, f])
            if cur.get(f) is not None:
                hdr[f] = cur[f]
        else:
            a, b = names.tok(o["a"]), names.tok(o["b"])
            out.append([4 if o["op"] == "rename" else 5, a, b])
            hdr[b] = hdr.pop(a, None)
    return out


def abstract_files(surv, names):
    out = []
    for fn, text in surv.items():
        lines, _ = parse_lines(text, None)
        out.append([names.tok(fn), lines])
    return sorted(out)


def shape(ops):
    """Operations without the identity of the rows (the order of the jobs of one gather is a set iteration order)."""
    return [[o[0], o[1]] + ([[(ln[0], ln[-1]) for ln in o[2]]] if o[0] == 2 else list(o[2:])) for o in ops]


def merge_writes(ops):
    """Canonical form for comparing traces: consecutive writes to one file are one write (pandas chunks its output)."""
    out = []
    for o in ops:
        if o[0] == 2 and out and out[-1][0] == 2 and out[-1][1] == o[1]:
            out[-1] = [2, o[1], out[-1][2] + o[2]]
        elif o[0] == 2 and not o[2]:
            continue
        else:
            out.append([o[0], o[1]] + [x for x in o[2:]])
    return out


# ------------------------------------------------------------------ the model's actions from the observed batching
def enc_job(uid, fail, multi):
    if fail:
        robj = [1, 100 + uid]          # one label token per failed evaluation (F_<uid>)
    elif multi:
        robj = [2, [uid, (uid * 7) % 5]]
    else:
        robj = [0, [0, uid]]
    return [uid, [[1, [0, 0]]], [0, [0, robj]], 3, [[2, [1, 4]]], [[3, [1, 4]]]]


def actions_of(run, scen, names, ops_abs):
    fin = dict(run["finished"])
    acts, prev_post, si = [], [], -1
    renames = [o for o in ops_abs if o[0] == 4]
    ri = 0
    for a in run["actions"]:
        if a["act"] == "new":
            si += 1
            prev_post = []
            # candidates: the name the implementation chose, if it renamed at this creation
            cands = []
            if ri < len(renames) and renames_at(run, a, ri):
                cands = [renames[ri][2]]
                ri += 1
            acts.append([0, cands])
        elif a["act"] == "dump":
            pre = a["pre"]
            if pre[:len(prev_post)] != prev_post:
                raise ValueError("jobs_done is not a queue")
            new = pre[len(prev_post):]
            multi = scen["searches"][si].get("multi", False)
            acts.append([1, [[enc_job(u, bool(fin.get(u, 0)), multi) for u in new], a["flush"]]])
        elif a["act"] == "dumped":
            prev_post = a["post"]
        elif a["act"] == "end":
            acts.append([2])
    return acts


def renames_at(run, new_action, ri):
    """Did a rename complete between this 'new' marker and the next recorded action?"""
    acts = run["actions"]
    i = acts.index(new_action)
    lo = new_action["at"]
    hi = acts[i + 1]["at"] if i + 1 < len(acts) and "at" in acts[i + 1] else 10 ** 9
    return any(o["op"] == "rename" and lo < o["i"] <= hi for o in run["ops"])


# ------------------------------------------------------------------ the check
def check(case):
    scen = case["scen"]
    m = model()
    nsearch = len(scen["searches"])
    res = dict(ok=True, kind="oracle", clause="", sig={}, nontrivial=True,
               desc=["searches=%d" % nsearch, "multi=%s" % any(s.get("multi") for s in scen["searches"]),
                     "calls=%d" % max(len(s["calls"]) for s in scen["searches"]), "workers=%d" % max(s.get("workers", 1) for s in scen["searches"]),
                     "failures=%s" % any(any(s.get("fails", [])) for s in scen["searches"])])
    base = tempfile.mkdtemp(prefix="vp_c15_")
    try:
        return check_in(case, scen, m, res, base)
    finally:
        shutil.rmtree(base, ignore_errors=True)


RESTART_CLAUSES = {1: "restart:file_not_wellformed", 2: "restart:rows_lost", 3: "restart:new_evaluations_missing", 4: "restart:earlier_results_not_kept"}


def check_in(case, scen, m, res, base):
    nsearch = len(scen["searches"])
    os.makedirs(os.path.join(base, "full"))
    full = run_children(scen, os.path.join(base, "full"), [0])[0]
    if full["rc"] != 0:
        return dict(res, ok=False, clause="child_failed", detail=full["err"])
    raised = [a for a in full["actions"] if a["act"] == "raised"]
    if raised:
        return dict(res, ok=False, clause="search_raised:" + raised[0]["exc"], detail=raised[0])
    names = Names()
    P, pre_uids = pre_ops(scen, names)           # files of earlier runs, as operations in front of the recorded trace
    T_obs = abstract_ops(full["ops"], names)
    T = P + T_obs
    N = len(T_obs)
    finished = pre_uids + [u for u, _ in full["finished"]]
    res["desc"].append("ops=%d" % (N // 10 * 10))
    res["sig"].update(searches=nsearch if nsearch < 2 else 2)
    if scen.get("pre"):
        res["desc"].append("older_files=%d" % len(scen["pre"]))
    # ---- 2. the oracle on the whole trace: every crash point, in the verified file-system model
    focus = case.get("focus", "files")
    res["desc"].append("focus=" + focus)
    ok, bad, loss = m.call(F_OKTRACE, [finished, T])
    viol = None
    k = bad if focus == "files" else loss          # the two clauses of the oracle are reported by separate cases
    if k >= 0:
        files = dict((f, c) for f, c in m.call(F_CRASH, [T, k]))
        op = T[k - 1] if k >= 1 else None
        if focus == "loss":
            clause = "rows_lost:" + {0: "open_w_truncates", 4: "rename_overwrites", 5: "replace_overwrites"}.get(op[0], "op%d" % op[0])
        elif files.get(0) == []:
            clause = "zero_byte_file"
        else:
            clause = "malformed_file"
        viol = dict(res, ok=False, clause=clause, detail=dict(crash_point=k - len(P), op=op, files_after=sorted(files.items()), trace=T[:k + 2], finished=finished))
        viol["sig"] = dict(res["sig"], clause=clause)
    # ---- 3. the code against the model of the code
    try:
        acts = actions_of(full, scen, names, T_obs)
    except ValueError as e:
        return dict(res, ok=False, kind="corr", clause="batching", detail=str(e))
    canon = merge_writes(T_obs)
    variant = None
    for v, nm in ((1, "fixed"), (0, "today")):
        if merge_writes(m.call(F_TRACE, [v, acts])) == canon:
            variant = nm
            break
    res["desc"].append("variant=%s" % variant)
    modes = open_modes(full["ops"])
    # ---- 4. every crash point for real, and a RESTART in what every kill left behind
    jobs = list(range(1, N + 1)) if focus == "files" else []
    multi0 = bool(scen["searches"][0].get("multi"))
    if jobs:
        runs = run_children(scen, base, jobs)
        befores = {}
        for k in jobs:
            r = runs[k]
            if r["rc"] != 77:
                return dict(res, ok=False, kind="corr", clause="crash_not_reached", detail=dict(k=k, rc=r["rc"], err=r["err"], ops=len(r["ops"])))
            nm = Names()                 # tokens by order of appearance: the real-clock names differ between processes
            Pk, _ = pre_ops(scen, nm)
            try:
                Tk = abstract_ops(r["ops"], nm)
            except ValueError as e:
                return dict(res, ok=False, kind="corr", clause="partial_line", detail=str(e))
            if shape(Tk) != shape(T_obs[:k]):
                return dict(res, ok=False, kind="corr", clause="not_deterministic", detail=dict(k=k, crashed=Tk[-3:], full=T_obs[max(0, k - 3):k]))
            surv = abstract_files(r["survivors"], nm)
            # the file-system model against the OS, on the operations THIS process completed
            pred = sorted([f, c] for f, c in m.call(F_CRASH, [Pk + Tk, len(Pk) + k]))
            fin_k = pre_uids + [u for u, _ in r["finished"]]
            okk = m.call(F_OKSURV, [fin_k, surv])
            if not okk and viol is None:
                return dict(res, ok=False, clause="survivor_not_wellformed", detail=dict(k=k, survivors=r["survivors"], finished=fin_k))
            if surv != pred:
                return dict(res, ok=False, kind="corr", clause="fs_model", detail=dict(k=k, survivors=surv, predicted=pred, text=r["survivors"]))
            path = os.path.join(r["log_dir"], "results.csv")
            if os.path.exists(path) and okk:
                err = fit_surrogate(path)
                if err and viol is None:
                    return dict(res, ok=False, clause="fit_surrogate:" + err[0], detail=dict(k=k, error=err[1], survivor=r["survivors"].get("results.csv")))
            befores[k] = (nm, surv, fin_k)
        if viol is None:
            # RESTART: a new search (CBO-DUMMY for even k, RandomSearch for odd k) is created and run in every surviving
            # directory; two crash points out of three it is KILLED again (second kill, at its operation `kill`); then a
            # further new search is created and run to its end in what is left
            def spec2(k):
                # the new search is run by search() or (one crash point out of four) only through ask / tell / dump
                return dict(restart=dict(kind="cbo" if k % 2 == 0 else "random", n=2 + k % 2, multi=multi0, base=9000,
                                         drive="manual" if k % 4 == 1 else "search", kill=0 if k % 3 == 0 else 1 + (k * 7) % 9))

            def spec3(k):
                return dict(restart=dict(kind="random" if k % 2 == 0 else "cbo", n=2, multi=multi0, base=9500, kill=0,
                                         drive="manual" if k % 4 == 2 else "search"))

            def failed(k, r2, spec, before, stage):
                detail = dict(k=k, stage=stage, restart=spec["restart"], before=before, after=r2["survivors"], actions=r2["actions"][-3:], err=r2["err"])
                rz = [a for a in r2["actions"] if a["act"] == "raised"]
                if r2["rc"] not in (0, 77) or rz:
                    out = dict(res, ok=False, clause="restart_raised:" + (rz[0]["exc"] if rz else "child_failed"), detail=detail)
                    out["sig"] = dict(res["sig"], clause="restart_raised")
                    return out, detail
                return None, detail

            reruns = run_children(scen, base, jobs, tag="r", extra=spec2)
            state2 = {}
            for k in jobs:
                r2 = reruns[k]
                nm, surv, fin_k = befores[k]
                bad, detail = failed(k, r2, spec2(k), runs[k]["survivors"], "restart")
                if bad:
                    return bad
                after = abstract_files(r2["survivors"], nm)
                newfin = [u for u, _ in r2["finished"]]
                okr, cl = m.call(F_OKRESTART, [fin_k, newfin, surv, after])
                # a restart that was killed itself: only "every file well formed" and "nothing lost" are due
                if (r2["rc"] == 0 and not okr) or (r2["rc"] == 77 and cl in (1, 2)):
                    return dict(res, ok=False, clause=RESTART_CLAUSES.get(cl, "restart:?") + ("" if r2["rc"] == 0 else ":second_kill"), detail=detail)
                state2[k] = (after, fin_k + newfin)
            reruns3 = run_children(scen, base, jobs, tag="s", extra=spec3)
            for k in jobs:
                r3 = reruns3[k]
                nm = befores[k][0]
                before3, fin3 = state2[k]
                bad, detail = failed(k, r3, spec3(k), reruns[k]["survivors"], "restart_after_restart")
                if bad:
                    return bad
                after3 = abstract_files(r3["survivors"], nm)
                newfin3 = [u for u, _ in r3["finished"]]
                okr, cl = m.call(F_OKRESTART, [fin3, newfin3, before3, after3])
                if not okr:
                    return dict(res, ok=False, clause=RESTART_CLAUSES.get(cl, "restart:?") + ":after_restart", detail=detail)
            res["desc"].append("restarts=%d" % (len(jobs) // 10 * 10))
            res["desc"].append("second_kills=%d" % (sum(1 for k in jobs if reruns[k]["rc"] == 77) // 5 * 5))
    if viol is not None:
        return viol
    if variant is None:
        return dict(res, ok=False, kind="corr", clause="trace_vs_model", detail=dict(observed=canon, today=merge_writes(m.call(F_TRACE, [0, acts])), fixed=merge_writes(m.call(F_TRACE, [1, acts]))))
    if any(md not in ("w", "a") for md in modes):
        return dict(res, ok=False, kind="corr", clause="open_mode", detail=dict(modes=modes, note="the model opens with 'w' (first write, temporary file) or 'a' (append) only"))
    return res


def fit_surrogate(path):
    import warnings

    warnings.filterwarnings("ignore")
    from deephyper.evaluator import Evaluator
    from deephyper.hpo import CBO, HpProblem

    async def run(job):
        return 0.0

    problem = HpProblem()
    problem.add_hyperparameter((0.0, 10.0), "x")
    d = tempfile.mkdtemp(prefix="vp_c15f_")
    try:
        ev = Evaluator.create(run, method="serial")
        s = CBO(problem, ev, log_dir=d, surrogate_model="DUMMY", random_state=1, verbose=0)
        s.fit_surrogate(path)
        ev.close()
        return None
    except Exception as e:
        return type(e).__name__, str(e)[:300]
    finally:
        shutil.rmtree(d, ignore_errors=True)


# ------------------------------------------------------------------ scenarios
def gen(rng, tier):
    S = lambda **k: dict(scen=k)
    quick = [
        S(searches=[dict(workers=2, calls=[4, 2])]),
        S(searches=[dict(workers=2, calls=[4], multi=True)]),
        S(searches=[dict(workers=2, calls=[2, 2], multi=True)]),
        S(searches=[dict(workers=1, calls=[3, 1], fails=[True, True, False, False])]),
        # a complete search() call in which EVERY evaluation fails (the header is forced by the flush), then further calls
        S(searches=[dict(workers=1, calls=[1, 2], fails=[True, True, False])]),
        S(searches=[dict(workers=1, calls=[2]), dict(workers=1, calls=[2]), dict(workers=1, calls=[2])], same_second=True),
        # the later search is driven ONLY through the public ask / tell / dump_jobs_done_to_csv loop (no search() call)
        S(searches=[dict(workers=1, calls=[2]), dict(workers=2, calls=[2, 1], drive="manual")], same_second=True),
        # a directory that earlier runs left behind: older results files (two of them under the names the rename tries
        # first within this second), a stale temporary file; two searches
        S(searches=[dict(workers=1, calls=[2]), dict(workers=2, calls=[1, 1], multi=True)], same_second=True,
          pre={"results_20260101-000000.csv": [7001, 7002], "results_20260101-000000_1.csv": [7003], "results_20250101-120000.csv": [7004],
               "results.csv.tmp": []}),
    ]
    if tier == "search":
        for i in range(6):
            yield dict(S(searches=[dict(workers=rng.randint(1, 2), calls=[rng.randint(1, 3)], multi=rng.random() < 0.5)]), focus=["files", "loss"][i % 2])
        return
    for c in quick:
        yield dict(c, focus="files")
        yield dict(c, focus="loss")
    if tier == "thorough":
        more = []
        for w in (1, 3, 4, 8):
            more.append(S(searches=[dict(workers=w, calls=[rng.randint(1, 4) for _ in range(rng.randint(1, 3))], multi=(w % 2 == 0))]))
        more.append(S(searches=[dict(workers=2, calls=[3, 2, 2], multi=True)]))
        more.append(S(searches=[dict(workers=2, calls=[2, 2], fails=[True, True, True, False, True, False])]))
        more.append(S(searches=[dict(workers=2, calls=[2, 2, 2], fails=[True] * 6 + [False, True])]))
        more.append(S(searches=[dict(workers=1, calls=[2, 1], fails=[True, True, True]), dict(workers=1, calls=[1, 1], fails=[True, False])], same_second=True))
        more.append(S(searches=[dict(workers=1, calls=[2]) for _ in range(5)], same_second=True))
        more.append(S(searches=[dict(workers=2, calls=[2], multi=True), dict(workers=1, calls=[1, 1])], same_second=True))
        more.append(S(searches=[dict(workers=1, calls=[2]), dict(workers=1, calls=[2])]))   # two searches, real clock
        more.append(S(searches=[dict(workers=2, calls=[2, 2], drive="manual", multi=True), dict(workers=1, calls=[2], multi=True)]))
        more.append(S(searches=[dict(workers=1, calls=[2]), dict(workers=2, calls=[2, 1], drive="manual"), dict(workers=1, calls=[1])], same_second=True))
        more.append(S(searches=[dict(workers=1, calls=[1, 1], drive="manual", fails=[True, False]), dict(workers=1, calls=[2], drive="manual")], same_second=True))
        for i in range(16):
            ns = rng.choice([1, 1, 1, 2, 3])
            searches = []
            for _ in range(ns):
                multi = rng.random() < 0.4
                sc = dict(workers=rng.randint(1, 8), calls=[rng.randint(1, 5) for _ in range(rng.randint(1, 3))], multi=multi)
                if rng.random() < 0.4:
                    # failures; a multi-objective search starts with a success (a failure first is C04 / F06)
                    sc["fails"] = ([False] if multi else []) + [rng.random() < 0.6 for _ in range(rng.randint(2, 6))]
                    if multi:
                        sc["workers"] = 1
                searches.append(sc)
            more.append(S(searches=searches, same_second=(ns > 1 and rng.random() < 0.7)))
        for c in more:
            yield dict(c, focus="files")
            yield dict(c, focus="loss")


def shrink(case):
    sc = case["scen"]
    ss = sc["searches"]
    if len(ss) > 2:
        for i in range(len(ss)):
            yield dict(case, scen=dict(sc, searches=ss[:i] + ss[i + 1:]))
    for i, s in enumerate(ss):
        if len(s["calls"]) > 1:
            yield dict(case, scen=dict(sc, searches=ss[:i] + [dict(s, calls=s["calls"][:-1])] + ss[i + 1:]))
        for j, n in enumerate(s["calls"]):
            if n > 1:
                yield dict(case, scen=dict(sc, searches=ss[:i] + [dict(s, calls=s["calls"][:j] + [n - 1] + s["calls"][j + 1:])] + ss[i + 1:]))
        if s.get("workers", 1) > 1:
            yield dict(case, scen=dict(sc, searches=ss[:i] + [dict(s, workers=s["workers"] - 1)] + ss[i + 1:]))


def streams(tier):
    return [Stream("crash_points", gen, check, shrink, timeout=900)]
