"""C20 - Ensemble selection and prediction are well-formed and order-stable.

Tie (functional correspondence of the SELECTION LOGIC):
  * the loss oracle of the model is computed by calling the REAL aggregator + loss (through the selector's own
    `_aggregate` / `_evaluate`) on exactly the multisets the model asks for; np.argsort's result is passed to the model
    as the `order` oracle after the extracted checker `ok_sorting_perm` accepted it;
  * the harness drives the extracted `cont` / `step` / `finalize` of Model.v round by round (candidate losses of each
    round as integers on one power-of-two scale) and then re-runs the complete extracted `greedy` on the recorded
    table of losses, which must give the same answer (so the driving loop below is tied to the Gallina `loop`);
  * the model is the REPAIRED code (fixes/F19_greedy_no_admissible_candidate.patch); where today's code raises or
    hangs the check reports the oracle failure `greedy_total` (selection never fails).
Oracles (extracted from Check.v): ok_sorting_perm, ok_topk, ok_idx/ok_count/ok_pos/ok_sum (= ok_wf), ok_noworse,
ok_member_order.  Every implementation call runs under a watchdog: non-termination is a finding, not a hang.
"""
import hashlib
import itertools
import signal
import threading
import time
import types
import warnings
from fractions import Fraction

import numpy as np

from .. import findings
from ..driver import model
from ..runner import Stream

PROPERTY = "C20"
LEVEL = "proof"
FACTS = None
COQ_DIRS = ("Common",)
TRUSTED = [
    "reference loss: every aggregated loss (candidate losses handed to the model, starting loss, loss of the returned ensemble) is computed "
    "by the real aggregator + loss on the members AS THE HARNESS KNOWS THEM, all of them MaskedArrays as soon as one is (a complete member "
    "= nothing masked), never on arrays read back from an OnlineSelector nor through the selector's own scoring of a plain/masked mixture",
    "loss oracle: aggregated losses are whatever the real Aggregator.aggregate + Loss + Selector._reduce return (finite floats, "
    "converted exactly with float.as_integer_ratio and sent as integers over one power-of-two denominator per call)",
    "np.argsort returns a sorting permutation (checked on every case by the extracted ok_sorting_perm; numpy's argsort is not stable, "
    "so the model takes the permutation as an input); np.nanargmin returns the first minimal non-NaN index; np.unique sorts and counts",
    "the comparison loss_min_ >= loss_min - eps_tol is made in binary64 by the code and exactly by the model: cases where a candidate "
    "falls strictly between the exact and the rounded threshold are skipped (counted as rounding_borderline)",
    "RandomState(seed).randint reproduces the selector's bootstrap draws (same seed, same call sequence)",
    "harness loop that drives step/cont (cross-checked on every case against the extracted complete greedy run on the recorded loss table)",
    "reuse / online: the only state a GreedySelector keeps between select() calls is its RandomState; the harness carries the same "
    "RandomState position from call to call (the model takes the draws as an input; C20_greedy_stateless: irrelevant without bagging)",
    "EnsemblePredictor: every call asks about another X and the members echo it, so an output computed for an earlier call is recognised; "
    "a failing member is reported by RuntimeError('Failed to call .predict...') (the documented behaviour); Model.run_calls with "
    "close_on_failure = true is the code of /repo (gather all, close(), then raise)",
    "EnsemblePredictor: completion order is read from time.monotonic() stamps inside the members' predictions (also across the "
    "processes of the process backend); predict() is observed through a recording Aggregator",
    "EnsemblePredictor: the ensemble's evaluator numbers its jobs 0, 1, 2, ... in submission order and keeps counting across calls "
    "(call c of n members = job numbers c*n .. c*n+n-1, handed to the model as integers); completion order is recorded inside predict()",
]
ASSUMPTIONS = [
    "k_init >= 1, k >= 0, eps_tol >= 0, at least one candidate; every aggregated loss is finite",
    "termination is claimed (C20_greedy_total) for max_it >= 0, or with_replacement=False, or early_stopping=True with eps_tol > 0 and "
    "losses >= 0; early_stopping=False + with_replacement=True + max_it < 0 is excluded (C20_noES_replacement_nontermination_refuted), "
    "and so is eps_tol = 0 with a loss that is not integer valued (C20_eps0_nontermination_refuted): the generators keep eps_tol = 0 for the integer table losses",
    "no-worse is claimed with early stopping only (C20_noES_refuted)",
    "not part of the property, seen while sweeping: EnsemblePredictor(evaluator='serial') cannot be constructed (SerialEvaluator wants a "
    "coroutine) although the docstring names it; a used aggregator keeps the numpy module in self._np, so a used selector cannot be "
    "pickled / deep-copied (shallow copies are exercised)",
]
RULE = ("topk/greedy: 1..12 candidates, all option combinations, losses SquaredError/AbsoluteError + MeanAggregator, "
        "CategoricalCrossEntropy/ZeroOneLoss + MixedCategoricalAggregator, plain and masked predictions, and a synthetic table loss "
        "(arbitrary small integers per weight vector, many ties); greedy with masks also has members that predict every sample (all-False mask, "
        "or a plain ndarray next to masked members); online: OnlineSelector.on_done job by job, a random mixture of jobs covering all / a part of the samples; predictor_order: every "
        "latency order of <= 4 (quick) / 5 (thorough) members on the thread backend, sequences of up to 40 calls on one ensemble (job numbers "
        "beyond 10 and 100) and ensembles of 11-13 members with sampled latency orders. Edges: integer-typed arrays, tuple / ndarray containers, NaN / inf / 1e300 under masks, table losses 1 ulp apart, "
        "1e300 and 1e-300 sized, k = 0. reuse: one Greedy + one TopK selector object, 2-4 select() calls, RandomState carried over. "
        "online: one callback / selector object, job outputs overwritten and result lists emptied by the caller after each call, integer "
        "targets, on_done_other. predictor_order also: predict() through a recording aggregator with non-uniform weights, members as "
        "loaders, the caller re-ordering ensemble.predictors between calls, default and process evaluators; calls on subsets of the members (varying member counts on one evaluator, through "
        "predictions_from_predictors and through predict() of a shallow copy sharing the evaluator); a member that raises at every position (finishing first / last), the call must raise "
        "RuntimeError and the later calls (other X, other latencies, other member order) must return their own outputs. "
        "non-trivial = at least one greedy step accepted, "
        "or a tie among the candidate losses, or a completion order different from the submission order")

F_OKORDER, F_TOPK, F_OKTOPK, F_INIT, F_CONT, F_STEP, F_FINAL, F_OKGREEDY, F_NOWORSE, F_RUN, F_BYID, F_OKMEMBERS, F_ARGSORT, F_CALLS = range(2001, 2015)

CAP = 60           # rounds after which the model-driven run is declared "out of fuel"
WATCHDOG = 2.0     # CPU seconds for one implementation call (a terminating call of <= CAP rounds needs a few 10 ms)
warnings.filterwarnings("ignore")
try:  # imported once in the parent: the forked workers inherit the modules (the import alone can take a minute on a loaded machine)
    import deephyper.ensemble  # noqa: F401
    import deephyper.ensemble.selector  # noqa: F401
    import deephyper.ensemble.aggregator  # noqa: F401
    import deephyper.ensemble.loss  # noqa: F401
    import deephyper.predictor  # noqa: F401
except Exception:  # reported by the first case that needs it
    pass


# ------------------------------------------------------------------ watchdog
class ImplTimeout(BaseException):
    """Not an Exception: numpy.ma swallows `Exception`s in several places, which would disarm a one-shot watchdog."""


def _raise_timeout(signum, frame):
    raise ImplTimeout()


def _disarm(which):
    while True:  # the repeating timer may fire while we are cancelling it
        try:
            signal.setitimer(which, 0)
            return
        except ImplTimeout:
            continue


def with_watchdog(fn, seconds=WATCHDOG, wall=False):
    """Runs fn() under an interval timer; returns ('ok', value) | ('timeout', None) | ('exc', exception).
    The timer counts the CPU time of this process (ITIMER_PROF): a loop that never ends burns CPU, while a loaded
    machine cannot turn a 20 ms call into a time-out.  wall=True (calls that sleep) uses the wall clock instead.
    A call that blocks without using CPU is left to the runner's per-case alarm.
    The timer is always disarmed before the previous handler comes back, and SIGPROF is never left with its default
    action (which would kill the worker and leave the pool waiting for it)."""
    main = threading.current_thread() is threading.main_thread()
    which, sig = (signal.ITIMER_REAL, signal.SIGALRM) if wall else (signal.ITIMER_PROF, signal.SIGPROF)
    status, value = "ok", None
    old, left = None, 0
    if main:
        old = signal.signal(sig, _raise_timeout)
        left = signal.alarm(0) if wall else 0
        signal.setitimer(which, seconds, 0.25)  # repeats until cancelled
    try:
        try:
            value = fn()
        finally:
            if main:
                _disarm(which)
    except ImplTimeout:
        status, value = "timeout", None
    except Exception as e:  # reported by the caller with its class
        status, value = "exc", e
    finally:
        if main:
            _disarm(which)
            signal.signal(sig, old if (callable(old) or (wall and old is not None)) else signal.SIG_IGN)
            if left:
                signal.alarm(left)
    return status, value


# ------------------------------------------------------------------ exact numbers
def frac(x):
    x = float(x)
    if x != x or x in (float("inf"), float("-inf")):
        raise NonFinite(x)
    return Fraction(x)


class NonFinite(Exception):
    pass


def to_scale(fracs):
    den = 1
    for f in fracs:
        den = max(den, f.denominator)  # all denominators are powers of two
    return [int(f * den) for f in fracs], den


# ------------------------------------------------------------------ building the real objects
class TableLoss:
    """A loss defined on the ensemble's weight vector (members predict one-hot vectors, MeanAggregator averages them):
    an arbitrary small integer per weight vector - reaches selection paths no convex loss produces (ties everywhere,
    losses that go up and down)."""

    def __init__(self, mode, salt):
        self.mode, self.salt = mode, salt

    def __call__(self, y_true, y_pred):
        w = np.asarray(y_pred, dtype=float).reshape(-1)
        if self.mode.startswith("weight_of:"):
            j = int(self.mode.split(":")[1])
            return np.array([w[j] if j < len(w) else 0.0])
        key = tuple(Fraction(float(v)).limit_denominator(97) for v in w)
        h = int(hashlib.sha1((repr(key) + self.salt).encode()).hexdigest(), 16)
        if self.mode.startswith("ulp"):    # losses that differ by single units in the last place of 1.0
            return np.array([1.0 + (h % int(self.mode[3:])) * 2.0 ** -52])
        if self.mode.startswith("huge"):   # huge / tiny magnitudes (exact in binary64, no overflow in a mean of one value)
            return np.array([float(h % int(self.mode[4:])) * 1e300])
        if self.mode.startswith("tiny"):
            return np.array([float(h % int(self.mode[4:])) * 1e-300])
        if self.mode.startswith("nhash"):  # always negative (like a log-likelihood of a sharp predictive distribution)
            return np.array([float(-1 - h % int(self.mode[5:]))])
        if self.mode.startswith("shash"):  # signed values: a generic loss callable may be negative (e.g. a log-likelihood)
            v = int(self.mode[5:])
            return np.array([float(h % v - v // 2)])
        v = int(self.mode[4:])
        return np.array([float(h % v)])


def build(case):
    """-> (y, predictions, loss, aggregator)"""
    from deephyper.ensemble.aggregator import MeanAggregator, MixedCategoricalAggregator
    from deephyper.ensemble.loss import AbsoluteError, CategoricalCrossEntropy, SquaredError, ZeroOneLoss

    kind = case["kind"]
    n = len(case["preds"])
    if kind == "table":
        y = np.zeros(n)
        preds = [np.eye(n)[i] for i in range(n)]
        return y, preds, TableLoss(case["table"], case.get("salt", "")), MeanAggregator()
    masks = case.get("masks")
    if kind in ("se", "ae"):
        dt = int if case.get("int_dtype") else float  # integer-typed targets / predictions (as in tests/ensemble)
        y = np.array(case["y"], dtype=dt)
        preds = [np.array(p, dtype=dt) for p in case["preds"]]
        loss = SquaredError() if kind == "se" else AbsoluteError()
        agg = MeanAggregator()
    else:
        y = np.array(case["y"], dtype=int)
        preds = [np.array(p, dtype=float) for p in case["preds"]]
        loss = CategoricalCrossEntropy() if kind == "cce" else ZeroOneLoss(predict_proba=True)
        agg = MixedCategoricalAggregator()
    if masks is not None:
        plain = case.get("plain") or [False] * len(preds)
        out = []
        for p, mk, pl in zip(preds, masks, plain):
            mk = np.array(mk, dtype=bool)
            if p.ndim == 2:
                mk = np.repeat(mk[:, None], p.shape[1], axis=1)
            junk = case.get("junk")
            if junk is not None and mk.any() and p.dtype.kind == "f":  # what lies under a mask must not matter (NaN, inf, 1e300)
                p = p.copy()
                p[mk] = {"nan": np.nan, "inf": np.inf, "big": 1e300}[junk]
            # a member that predicts every sample may come as a plain ndarray (plain[i]) or with an all-False mask
            out.append(p if (pl and not mk.any()) else np.ma.masked_array(p, mask=mk))
        preds = out
    return y, preds, loss, agg


def reference_preds(preds):
    """The members as the harness knows them, for the REFERENCE loss: if any member carries a mask every member becomes
    a MaskedArray (a plain member = nothing masked), so that the real aggregator takes its mask-aware path whatever
    mixture of plain / masked arrays the selector was given or has stored."""
    if not any(isinstance(p, np.ma.MaskedArray) for p in preds):
        return preds
    return [p if isinstance(p, np.ma.MaskedArray) else np.ma.masked_array(p, mask=np.zeros(p.shape, dtype=bool)) for p in preds]


def as_container(case, preds):
    """The candidates as the caller hands them over: a list (default), a tuple, or one 2-d/3-d ndarray."""
    c = case.get("container")
    if c == "tuple":
        return tuple(preds)
    if c == "array" and not any(isinstance(p, np.ma.MaskedArray) for p in preds):
        return np.array(preds)
    return list(preds)


def snapshot(y, preds):
    return (np.array(y, copy=True), [(type(p), np.array(np.ma.getdata(p), copy=True), np.array(np.ma.getmaskarray(p), copy=True)) for p in preds])


def unchanged(snap, y, preds):
    """select() / on_done() must not edit what the caller handed over (targets, the candidate container, the arrays)."""
    y0, ps = snap
    if not np.array_equal(y0, y) or len(ps) != len(preds):
        return False
    for (t, d, mk), p in zip(ps, preds):
        if type(p) is not t or not np.array_equal(d, np.ma.getdata(p), equal_nan=True) or not np.array_equal(mk, np.ma.getmaskarray(p)):
            return False
    return True


def rs_at(state, seed):
    """A RandomState positioned where the selector's own one is: freshly seeded, or after the draws of the earlier
    select() calls on the same selector object (the only state a GreedySelector keeps between calls)."""
    r = np.random.RandomState(seed)
    if state is not None:
        r.set_state(state)
    return r


def mixed_plain(preds):
    return any(not isinstance(p, np.ma.MaskedArray) for p in preds) and any(isinstance(p, np.ma.MaskedArray) and np.ma.getmaskarray(p).any() for p in preds)


def opts_kwargs(o):
    return dict(k=o["k"], k_init=o["k_init"], max_it=o["max_it"], eps_tol=o["eps_tol"], with_replacement=o["repl"],
                early_stopping=o["es"], bagging=o["bag"], random_state=o.get("seed", 0))


def opts_enc(o, eps_int):
    return [o["k"], o["k_init"], o["max_it"] if o["max_it"] >= 0 else -1, eps_int, bool(o["repl"]), bool(o["es"]), bool(o["bag"])]


def opts_desc(o, n):
    return ["opts:es=%d,repl=%d,bag=%d,maxit=%s" % (o["es"], o["repl"], o["bag"], "none" if o["max_it"] < 0 else "set"),
            "n_vs_k=%s" % ("lt" if n < o["k"] else "ge"), "n_vs_kinit=%s" % ("lt" if n < o["k_init"] else "ge")]


# ------------------------------------------------------------------ the loss oracle = the real code
class Oracle:
    """Aggregated losses computed by the real selector object's aggregator + loss, memoised per multiset, on the
    REFERENCE form of the members (reference_preds): the judge of `no_worse` and the losses the model is driven with do
    not depend on how the selector scores candidates internally, nor on the arrays an OnlineSelector has stored."""

    def __init__(self, S, y, preds):
        self.S, self.y, self.preds, self.memo = S, y, reference_preds(preds), {}

    def _agg(self, members, w=None):
        if len(set(type(p) for p in members)) > 1:  # cannot happen after reference_preds
            raise AssertionError("reference members of mixed types")
        return self.S._evaluate(self.y, self.S._aggregate(members, w) if w is not None else self.S._aggregate(members))

    def single(self, i):
        return frac(self.S._evaluate(self.y, self.preds[i]))

    def start(self, init):  # weights=None, members in the order of the starting list (as the code does)
        return frac(self._agg([self.preds[i] for i in init]))

    def multi(self, ms):  # np.unique + counts / sum, as the code does
        key = tuple(sorted(ms))
        if key not in self.memo:
            idx, cnt = np.unique(list(ms), return_counts=True)
            w = cnt / np.sum(cnt)
            self.memo[key] = frac(self._agg([self.preds[i] for i in idx], w))
        return self.memo[key]

    def returned(self, idx, w):  # the loss of what select() returned
        return frac(self._agg([self.preds[i] for i in idx], np.array(w)))


def drive_model(m, fixed, o, n, order, orc, rs):
    """Runs Model.loop by calling the extracted cont/step; the real code supplies the candidate losses of each round.
    -> dict(status='done'|'allnan'|'fuel', sel, loss, rounds, table, bags, L0, borderline)"""
    eps = frac(o["eps_tol"])
    sel = m.call(F_INIT, [opts_enc(o, 0), order])
    init = list(sel)
    L0 = orc.start(sel)
    lmin, it, table, bags, borderline = L0, 0, {}, [], False
    status = None
    while status is None:
        if it >= CAP:
            status = "fuel"
            break
        if not m.call(F_CONT, [fixed, opts_enc(o, 0), n, sel, it]):
            status = "done"
            break
        bag = [int(b) for b in np.unique(rs.randint(low=0, high=n, size=n))] if o["bag"] else []
        bags.append(bag)
        cand = [orc.multi(tuple(sel) + (i,)) for i in range(n)]
        for i in range(n):
            table[tuple(sel) + (i,)] = cand[i]
        if o["es"]:
            thr_f = Fraction(float(lmin) - float(eps))
            thr_x = lmin - eps
            if any((c >= thr_f) != (c >= thr_x) for c in cand):
                borderline = True
        ints, _ = to_scale([lmin, eps] + cand)
        tag, i, _l = m.call(F_STEP, [opts_enc(o, ints[1]), n, sel, ints[0], bag, ints[2:]])
        if tag == 2:
            status = "done" if fixed else "allnan"
        elif tag == 0:
            status = "done"
        else:
            sel, lmin, it = sel + [i], cand[i], it + 1
    return dict(status=status, sel=sel, loss=lmin, rounds=it, table=table, bags=bags, L0=L0, borderline=borderline, init=init, rs_end=rs.get_state())


def full_run(m, fixed, o, n, order, run):
    """The complete extracted `greedy` on the recorded table: must agree with the driven run."""
    keys = list(run["table"])
    ints, _ = to_scale([run["L0"], frac(o["eps_tol"])] + [run["table"][k] for k in keys])
    table = [[list(k), v] for k, v in zip(keys, ints[2:])]
    tag, sel, loss = m.call(F_RUN, [fixed, opts_enc(o, ints[1]), n, order, ints[0], run["bags"], table, run["rounds"] + 2])
    return tag, sel


def candidate_orders(losses_f):
    """np.argsort as the code calls it, plus the stable variant (a harmless rewrite); each must be a sorting permutation."""
    outs = []
    for kw in ({}, {"kind": "stable"}):
        o = [int(i) for i in np.argsort(losses_f, **kw)]
        if o not in outs:
            outs.append(o)
    return outs


# ------------------------------------------------------------------ TopK
def check_topk(case):
    from deephyper.ensemble.selector import TopKSelector

    y, preds, loss, _agg = build(case)
    n, k = len(preds), case["k"]
    S = TopKSelector(loss, k=k)
    res = dict(ok=True, kind="oracle", clause="", sig={}, nontrivial=False, desc=["n=%d" % n, "kind=%s" % case["kind"], "k_vs_n=%s" % ("gt" if k > n else "le")])
    given = as_container(case, preds)
    snap = snapshot(y, preds)
    st, out = with_watchdog(lambda: S.select(y, given))
    if not unchanged(snap, y, list(given)):
        return dict(res, ok=False, clause="input_mutated", detail="select() edited the targets / candidates it was given")
    return judge_topk(model(), S, y, preds, k, res, st, out)


def judge_topk(m, S, y, preds, k, res, st, out):
    n = len(preds)
    if st == "timeout":
        return dict(res, ok=False, clause="topk_total", sig={"error": "nontermination"}, detail="no answer within %.0fs" % WATCHDOG)
    if st == "exc":
        return dict(res, ok=False, clause="topk_total", sig={"error": type(out).__name__}, detail=repr(out))
    idx, w = out
    idx = [int(i) for i in idx]
    losses = [frac(S._evaluate(y, p)) for p in preds]
    ints, _ = to_scale(losses)
    res["nontrivial"] = len(set(ints)) < n or k < n
    if len(set(ints)) < n:
        res["desc"] = res["desc"] + ["ties"]
    if any(i < 0 for i in idx) or not m.call(F_OKTOPK, [ints, k, idx]):
        return dict(res, ok=False, clause="topk_lowest", detail=dict(idx=idx, losses=[float(x) for x in losses]))
    if len(w) != len(idx) or any(not (float(x) > 0) for x in w) or len(set(float(x) for x in w)) > 1:
        return dict(res, ok=False, clause="topk_weights", detail=dict(w=[float(x) for x in w]))
    # correspondence: the model on numpy's permutation selects the same multiset of loss values
    order = [int(i) for i in np.argsort([float(x) for x in losses])]
    if not m.call(F_OKORDER, [ints, order]):
        return dict(res, ok=False, kind="corr", clause="argsort_not_sorting", detail=dict(order=order))
    mod = m.call(F_TOPK, [k, order])
    if sorted(ints[i] for i in mod) != sorted(ints[i] for i in idx):
        return dict(res, ok=False, kind="corr", clause="topk_values", detail=dict(model=mod, impl=idx))
    if m.call(F_ARGSORT, ints) != [int(i) for i in np.argsort([float(x) for x in losses], kind="stable")]:
        return dict(res, ok=False, kind="corr", clause="argsort_stable_model", detail="Model.argsort differs from the stable sort")
    return res


# ------------------------------------------------------------------ Greedy
def compare_greedy(m, S, y, preds, o, res, impl_status, impl_out, rs_state=None):
    """Shared by the greedy, reuse and online streams.  impl_status/impl_out as returned by with_watchdog(select);
    rs_state: where the selector's RandomState stood before this call (None: freshly seeded).  The result carries
    '_rs_end' (where it stands afterwards according to the model) - callers pop it."""
    r_ = _compare_greedy(m, S, y, preds, o, res, impl_status, impl_out, rs_state)
    return r_


def _compare_greedy(m, S, y, preds, o, res, impl_status, impl_out, rs_state):
    n = len(preds)
    orc = Oracle(S, y, preds)
    try:
        losses = [orc.single(i) for i in range(n)]
        ints, _ = to_scale(losses)
        runs = []
        for order in candidate_orders([float(x) for x in losses]):
            if not m.call(F_OKORDER, [ints, order]):
                return dict(res, ok=False, kind="corr", clause="argsort_not_sorting", detail=dict(order=order))
            run = drive_model(m, True, o, n, order, orc, rs_at(rs_state, o.get("seed", 0)))
            run["order"] = order
            runs.append(run)
    except NonFinite as e:
        # fail closed: the generators only produce finite data, so a non-finite aggregated loss is the code's doing
        return dict(res, ok=False, clause="loss_not_finite", detail="reference aggregated loss is %s" % e)
    run = runs[0]
    res["_rs_end"] = run["rs_end"]
    res["desc"] = res["desc"] + ["model=%s" % run["status"], "rounds=%s" % (run["rounds"] if run["rounds"] < 6 else "6+")]
    res["nontrivial"] = run["rounds"] > 0 or len(set(ints)) < n
    sig = dict(early_stopping=bool(o["es"]), with_replacement=bool(o["repl"]), bagging=bool(o["bag"]), max_it_neg=o["max_it"] < 0)
    mixed = dict(mixed_plain=True) if mixed_plain(preds) else {}
    sig.update(mixed)
    if mixed:
        res["desc"] = res["desc"] + ["mixed_plain_and_masked"]
    # the driven run and the complete extracted greedy agree (ties the harness loop to Model.loop)
    for r in runs:
        if r["status"] != "done":
            continue
        tag, sel = full_run(m, True, o, n, r["order"], r)
        if (tag, sel) != (0, r["sel"]):
            return dict(res, ok=False, kind="corr", clause="driver_vs_extracted_loop", detail=dict(driven=[r["status"], r["sel"]], extracted=[tag, sel]))
    # --- selection never fails
    if impl_status == "timeout":
        return dict(res, ok=False, clause="greedy_total", sig=dict(sig, error="nontermination", model="terminates" if run["status"] == "done" else "out_of_fuel"),
                    detail="select() gave no answer within %.0fs; the repaired model: %s after %d rounds" % (WATCHDOG, run["status"], run["rounds"]))
    if impl_status == "exc":
        if isinstance(impl_out, ValueError) and "All-NaN" in str(impl_out):
            today = drive_model(m, False, o, n, run["order"], orc, rs_at(rs_state, o.get("seed", 0)))
            return dict(res, ok=False, clause="greedy_total", sig=dict(sig, error="AllNaN"),
                        detail="select() raised %r; model of today's code: %s, repaired model: %s -> %s" % (impl_out, today["status"], run["status"], run["sel"]))
        raise impl_out
    idx, w = impl_out
    idx, w = [int(i) for i in idx], [float(x) for x in w]
    # --- oracle: well-formed
    try:
        wi, wscale = to_scale([frac(x) for x in w])
    except NonFinite:
        return dict(res, ok=False, clause="wf_weights_positive", detail=dict(w=w))
    tol = wscale >> 40
    flags = m.call(F_OKGREEDY, [n, o["k"], o["k_init"], idx if all(i >= 0 for i in idx) else [n], wi, wscale, tol])
    for name, f in zip(["wf_indices", "wf_count", "wf_weights_positive", "wf_weights_sum", "wf_all"], flags):
        if not f or len(w) != len(idx):
            return dict(res, ok=False, clause=name, detail=dict(idx=idx, w=w, k=o["k"], k_init=o["k_init"], n=n))
    # --- oracle: no worse than the starting ensemble, judged with the reference loss (claimed with early stopping; F20 without)
    try:
        Lf = orc.returned(idx, w)
    except NonFinite:
        return dict(res, ok=False, clause="no_worse", sig=sig, detail="loss of the returned ensemble is not finite")
    L0 = max(r["L0"] for r in runs)  # ties in argsort: the starting ensemble is one of the admissible ones
    tolL = max(abs(L0), Fraction(1)) / (1 << 30)
    ints2, _ = to_scale([tolL, L0, Lf])
    worse = None
    # the untouched starting ensemble is returned (uniform weights): its loss IS the starting loss (Model: sel = init /\ loss = L0);
    # re-evaluating it with explicit weights instead of weights=None only adds rounding, which a 0/1 loss turns into 0 vs 1 at a tie
    untouched = len(set(w)) == 1 and any(sorted(r["init"]) == idx for r in runs)
    if not untouched and not m.call(F_NOWORSE, ints2):
        worse = dict(res, ok=False, clause="no_worse", sig=sig, detail=dict(start=float(L0), final=float(Lf), idx=idx, w=w))
    if worse is not None and o["es"]:
        return worse  # the property itself fails: reported before any disagreement with the model
    # --- correspondence with the repaired model (driven with the reference losses)
    if all(r["status"] == "fuel" for r in runs):
        res["desc"] = res["desc"] + ["inconclusive:model_long_run"]
        res["nontrivial"] = False
    else:
        matched = False
        for r in runs:
            if r["status"] != "done":
                continue
            fin = m.call(F_FINAL, [n, r["sel"]])
            if [f[0] for f in fin] == idx and [float(Fraction(f[1], f[2])) for f in fin] == w:
                matched, run = True, r
                res["_rs_end"] = r["rs_end"]
                break
        if not matched and any(r["status"] == "fuel" for r in runs):
            # the run on one of the admissible argsort results exceeded CAP rounds: nothing to compare the answer with
            res["desc"] = res["desc"] + ["inconclusive:model_long_run"]
            res["nontrivial"] = False
        elif not matched:
            if any(r["borderline"] for r in runs):
                return dict(res, nontrivial=False, desc=res["desc"] + ["skipped:rounding_borderline"])
            r = [r for r in runs if r["status"] == "done"][0]
            fin = m.call(F_FINAL, [n, r["sel"]])
            return dict(res, ok=False, kind="corr", clause="greedy_selection", sig=dict(mixed),
                        detail=dict(impl=[idx, w], model=[[f[0] for f in fin], [f[1] / f[2] for f in fin]], model_sel=r["sel"], order=r["order"]))
    if worse is not None:
        return worse
    return res


def check_greedy(case):
    from deephyper.ensemble.selector import GreedySelector

    y, preds, loss, agg = build(case)
    o = case["opts"]
    n = len(preds)
    res = dict(ok=True, kind="oracle", clause="", sig={}, nontrivial=False,
               desc=["n=%d" % n, "kind=%s%s" % (case["kind"], "+masked" if case.get("masks") else "")] + opts_desc(o, n))
    S = GreedySelector(loss, agg, **opts_kwargs(o))
    given = as_container(case, preds)
    snap = snapshot(y, preds)
    st, out = with_watchdog(lambda: S.select(y, given))
    if not unchanged(snap, y, list(given)):
        return dict(res, ok=False, clause="input_mutated", detail="select() edited the targets / candidates it was given")
    S2 = GreedySelector(loss, agg, **opts_kwargs(o))  # a fresh object for the oracle calls (same code, untouched RNG)
    r = compare_greedy(model(), S2, y, preds, o, res, st, out)
    r.pop("_rs_end", None)
    return r


# ------------------------------------------------------------------ OnlineSelector
def check_online(case):
    """OnlineSelector.on_done job by job on ONE callback object holding ONE selector object (its RandomState goes on
    from call to call).  After every call the harness overwrites the arrays of the job output it handed over and empties
    the result lists it read - the callback must have kept its own copies - and every prefix is judged with the
    reference loss on the harness's own copy of the job outputs."""
    from deephyper.ensemble.selector import GreedySelector, OnlineSelector, TopKSelector
    from deephyper.ensemble.aggregator import MeanAggregator
    from deephyper.ensemble.loss import SquaredError

    y = np.array(case["y"], dtype=int if case.get("int_y") else float)
    y0 = y.copy()
    o = case["opts"]
    res = dict(ok=True, kind="oracle", clause="", sig={}, nontrivial=False,
               desc=["jobs=%d" % len(case["jobs"]), "selector=%s" % case["selector"]] + (["int_targets"] if case.get("int_y") else []))
    m = model()
    if case["selector"] == "greedy":
        mk = lambda: GreedySelector(SquaredError(), MeanAggregator(), **opts_kwargs(o))
    else:
        mk = lambda: TopKSelector(SquaredError(), k=o["k"])
    online = OnlineSelector(y=y, selector=mk(), ensemble=None, load_predictor_func=None)
    nt, first_total = False, None
    ref = []  # the finished jobs' predictions as the harness knows them (never read back from the selector)
    cov = set()
    rs_state = None
    for j, job in enumerate(case["jobs"]):
        if job["fail"]:
            out = {"objective": "F_fail", "online_selector": {"y_pred": [], "y_pred_idx": []}}
        else:
            out = {"objective": job.get("obj", 0.0), "online_selector": {"y_pred": np.array(job["pred"], dtype=float), "y_pred_idx": np.array(job["idx"], dtype=int)}}
            full = np.zeros(y.shape, dtype=float)
            mask = np.ones(y.shape, dtype=bool)
            full[out["online_selector"]["y_pred_idx"]] = out["online_selector"]["y_pred"]
            mask[out["online_selector"]["y_pred_idx"]] = False
            ref.append(np.ma.masked_array(full, mask=mask))
            cov.add("complete" if not mask.any() else "partial")
        before = len(online.y_predictors)
        jobobj = types.SimpleNamespace(id="0.%d" % j, output=out)
        st, e = with_watchdog(lambda: (online.on_done_other if job.get("other") else online.on_done)(jobobj))
        n = len(online.y_predictors)
        preds = list(ref)
        r = dict(res, desc=res["desc"] + ["n=%d" % n])
        if not np.array_equal(y0, y):
            return dict(r, ok=False, clause="input_mutated", detail="on_done() edited the targets")
        if job["fail"]:
            if st != "ok" or n != before:
                return dict(r, ok=False, clause="online_failed_job", detail=repr(e))
            continue
        if n != before + 1 or n != len(ref) or online.y_predictors_job_ids[-1] != "0.%d" % j:
            return dict(r, ok=False, clause="online_bookkeeping", detail=dict(n=n, before=before))
        if st == "ok":
            impl_out = (list(online.selected_predictors_indexes), list(online.selected_predictors_weights))
            job_ids = list(online.selected_predictors_job_ids)
            if job_ids != ["0.%d" % [k for k, jb in enumerate(case["jobs"]) if not jb["fail"]][i] for i in impl_out[0] if 0 <= i < n]:
                return dict(r, ok=False, clause="online_job_ids", detail=dict(job_ids=job_ids, idx=impl_out[0]))
            # the caller goes on using (and editing) what it handed over and what it read
            out["online_selector"]["y_pred"][...] = 99.0
            out["online_selector"]["y_pred_idx"][...] = 0
            try:
                online.selected_predictors_indexes.clear()
                online.selected_predictors_weights.clear()
            except AttributeError:
                pass
        else:
            impl_out = e
        if case["selector"] == "greedy":
            r = compare_greedy(m, mk(), y, preds, o, r, st, impl_out, rs_state)
            rs_state = r.pop("_rs_end", rs_state)
        else:
            r = judge_topk(m, mk(), y, preds, o["k"], r, st, impl_out)
        nt = nt or r.get("nontrivial")
        if not r["ok"]:
            r["detail"] = dict(after_job=j, inner=r.get("detail"))
            if r["clause"] != "greedy_total" or o["bag"]:
                return r  # (with bagging the selector's RandomState is in an unknown position after a failed call)
            # selection failed on this prefix (raise / hang): remember the first such failure, keep feeding jobs - the
            # callback's lists are already updated, so later prefixes are still checked
            first_total = first_total or r
            if r["sig"].get("error") == "nontermination":
                return first_total
        res["desc"] = [d for d in r["desc"] if not d.startswith("n=")]
        if o["bag"] and case["selector"] == "greedy" and any(d.startswith(("inconclusive", "skipped")) for d in r["desc"]):
            return dict(res, nontrivial=False, desc=res["desc"] + ["stopped:rng_position_unknown"])  # see check_reuse
    if first_total is not None:
        return first_total
    return dict(res, nontrivial=bool(nt), desc=list(dict.fromkeys(res["desc"] + ["coverage=%s" % ("mixed" if len(cov) > 1 else "".join(cov) or "none")])))


# ------------------------------------------------------------------ one selector object, several select() calls
def check_reuse(case):
    """ONE GreedySelector and ONE TopKSelector object, select() called on 2-4 different candidate sets in a row
    (optionally shallow-copied in between).  The only state a selector may carry from call to call is the
    position of its RandomState (bagging draws): the model is driven with that position (C20_greedy_stateless: without
    bagging the answer is a function of the call's inputs alone).  The returned lists are emptied by the caller after
    each call; targets and candidates must come back unedited."""
    import copy
    from deephyper.ensemble.selector import GreedySelector, TopKSelector

    o = case["opts"]
    m = model()
    S = T = None
    rs_state = None
    res0 = dict(ok=True, kind="oracle", clause="", sig={}, nontrivial=False,
                desc=["calls=%d" % len(case["steps"]), "kind=%s" % case["kind"]] + (["copied_between_calls"] if case.get("pickle") else []))
    nt = False
    for t, data in enumerate(case["steps"]):
        sub = dict(data, kind=case["kind"])
        y, preds, loss, agg = build(sub)
        n = len(preds)
        if S is None:
            S, T = GreedySelector(loss, agg, **opts_kwargs(o)), TopKSelector(loss, k=case["k"])
        elif case.get("pickle"):
            # (a used aggregator keeps the numpy module in self._np, so pickle / deepcopy of a used selector raise
            #  TypeError - outside this property; a shallow copy shares the RandomState object, as it must)
            S, T = copy.copy(S), copy.copy(T)
        res = dict(res0, desc=res0["desc"] + opts_desc(o, n)[:1])
        given = as_container(sub, preds)
        snap = snapshot(y, preds)
        st, out = with_watchdog(lambda: S.select(y, given))
        if not unchanged(snap, y, list(given)):
            return dict(res, ok=False, clause="input_mutated", detail="call %d: select() edited the targets / candidates" % t)
        kept = (list(out[0]), list(out[1])) if st == "ok" else out
        if st == "ok":
            for l in out:
                if isinstance(l, list):
                    l.clear()
        S2 = GreedySelector(S.loss_func, S.aggregator, **opts_kwargs(o))
        r = compare_greedy(m, S2, y, preds, o, res, st, kept, rs_state)
        rs_state = r.pop("_rs_end", rs_state)
        if r["ok"]:
            st, out = with_watchdog(lambda: T.select(y, given))
            if not unchanged(snap, y, list(given)):
                return dict(res, ok=False, clause="input_mutated", detail="call %d: TopK select() edited the targets / candidates" % t)
            kept = (list(out[0]), list(out[1])) if st == "ok" else out
            r2 = judge_topk(m, T, y, preds, case["k"], res, st, kept)
            if not r2["ok"]:
                r = r2
        nt = nt or r.get("nontrivial")
        if not r["ok"]:
            r["detail"] = dict(call=t, inner=r.get("detail"))
            return r
        if o["bag"] and any(d.startswith(("inconclusive", "skipped")) for d in r["desc"]):
            # the model did not follow this call to its end, so the position of the RandomState is unknown from here on
            return dict(res0, nontrivial=False, desc=res0["desc"] + ["stopped:rng_position_unknown"])
    return dict(res0, nontrivial=bool(nt) and len(case["steps"]) > 1)


# ------------------------------------------------------------------ EnsemblePredictor: member order under every latency order
_MEMBERS = {}


def member_classes():
    """Module-level classes (picklable by reference for the process backend): a member that sleeps `delay`, then returns
    [its tag, the time it finished]; a loader of such a member; an aggregator that records what predict() hands it."""
    if not _MEMBERS:
        from deephyper.ensemble.aggregator import Aggregator
        from deephyper.predictor import Predictor, PredictorLoader

        class TaggedMember(Predictor):
            def __init__(self, tag):
                self.tag, self.delay, self.fail = tag, 0.0, False

            def predict(self, X):
                time.sleep(self.delay)
                if self.fail:
                    raise ValueError("member %d fails" % self.tag)
                # member-distinguishing and call-distinguishing prediction: [tag, finishing time, the X it was asked about]
                return np.array([float(self.tag), time.monotonic(), float(np.asarray(X).reshape(-1)[0])])

        class TaggedLoader(PredictorLoader):
            def __init__(self, tag):
                self.tag, self.delay, self.fail = tag, 0.0, False

            def load(self):
                mb = TaggedMember(self.tag)
                mb.delay, mb.fail = self.delay, self.fail
                return mb

        class SpyAggregator(Aggregator):
            def __init__(self):
                self.seen = None

            def aggregate(self, y, weights=None):
                self.seen = ([np.asarray(a, dtype=float).copy() for a in y], None if weights is None else list(weights))
                return np.zeros(1)

        for c in (TaggedMember, TaggedLoader, SpyAggregator):
            c.__module__, c.__qualname__ = __name__, c.__name__
            globals()[c.__name__] = c
        _MEMBERS.update(member=TaggedMember, loader=TaggedLoader, spy=SpyAggregator)
    return _MEMBERS


def check_predictor(case):
    """One EnsemblePredictor, one or SEVERAL calls on it (case["calls"]: one list of ranks per call; ranks[i] = position
    of member i in the intended completion order of that call), through predictions_from_predictors or through predict()
    (then observed by a recording aggregator, together with the weights), on the thread backend with n workers, the
    default evaluator (evaluator=None) and the process backend, with members given as Predictors or as
    PredictorLoaders, and with the caller re-ordering `ensemble.predictors` / `weights` between calls.

    The ensemble's evaluator keeps numbering its jobs across calls ("0.<number>"): a call on k members submits the job
    numbers base .. base+k-1, base = the number of jobs of all earlier calls; calls on SUBSETS of the members (another k)
    make base anything, not a multiple of k (C20_order_by_id_calls holds for every base).  The model's order_by_id takes the ids as INTEGERS (Z, compared with
    Z.leb - Model.order_by_id; C20_order_by_id / C20_order_by_id_calls need strictly increasing integer ids), so the
    harness hands it (job number, member) pairs in completion order; sequences of calls and ensembles of 11-13 members
    make the job numbers of one call straddle 9->10 and 99->100, where the order of the id STRINGS differs from the
    integer order (C20_string_ids_refuted)."""
    from deephyper.ensemble import EnsemblePredictor
    from deephyper.ensemble.aggregator import MeanAggregator

    K = member_classes()
    calls = case["calls"] if "calls" in case else [case["ranks"]]
    n = len(calls[0])
    backend = case.get("evaluator", "thread_n")
    last = sum(len((case.get("subsets") or {}).get(str(c)) or calls[0]) for c in range(len(calls))) - 1
    res = dict(ok=True, kind="oracle", clause="", sig={}, nontrivial=False,
               desc=["members=%s" % (n if n <= 5 else "6-10" if n <= 10 else "11+"), "calls=%s" % (len(calls) if len(calls) < 3 else "3+"),
                     "last_job_number=%s" % ("<10" if last < 10 else "10-99" if last < 100 else "100+"), "backend=%s" % backend]
                    + (["members_as_loaders"] if case.get("loader") else []))
    m = model()
    weights = [float(i + 1) for i in range(n)]
    obs = observe_predictor_child(case) if backend == "process" else observe_predictor(case)
    permuted = 0
    mcalls, seen = [], []  # the same history for Model.run_calls (close_on_failure = true: the code of /repo)
    sizes = set()
    for c, o in enumerate(obs["calls"]):
        current = o["current"]
        base = sum(len(q["current"]) for q in obs["calls"][:c])  # jobs submitted by the earlier calls (whatever their member counts)
        n = len(current)
        sizes.add(n)
        if o.get("note"):
            return dict(res, ok=False, clause="member_order", detail=dict(call=c, note=o["note"]))
        if o["failing"] or o.get("raised"):
            # a failing member: the call must raise RuntimeError - and must not disturb the calls that follow
            if not o.get("raised"):
                return dict(res, ok=False, clause="member_failure_not_reported", detail=dict(call=c, failing=o["failing"], returned=o.get("tags")))
            if not o["failing"]:
                return dict(res, ok=False, clause="spurious_failure", detail=dict(call=c))
            mcalls.append([[100 * c + i for i in range(n)], True, n, [[base + i, 100 * c + i] for i in range(n)]])
            seen.append([1, []])
            res["desc"] = res["desc"] + ["failing_member_at=%s" % ("first" if 0 in [current.index(t) for t in o["failing"]] else "last" if n - 1 in [current.index(t) for t in o["failing"]] else "middle")]
            continue
        if "wseen" in o and (o["wseen"] is None or [float(x) for x in o["wseen"]] != [weights[t] for t in current]):
            return dict(res, ok=False, clause="predict_weights", detail=dict(call=c, weights=o["wseen"], expected=[weights[t] for t in current]))
        stale = [x != float(c) for x in o["xs"]]  # an output computed for another call's X
        got = [current.index(t) if (t in current and not st_) else n for t, st_ in zip(o["tags"], stale)]  # positions in ens.predictors
        if len(got) != n or not m.call(F_OKMEMBERS, [n, got]):
            return dict(res, ok=False, clause="stale_outputs_of_earlier_call" if any(stale) else "member_order",
                        detail=dict(call=c, job_numbers=[base, base + n - 1], returned_tags=o["tags"], returned_for_X=o["xs"], members=current))
        completion = [g for _, g in sorted(zip(o["fin"], got))]  # positions in the order in which the members finished
        permuted += completion != sorted(completion)
        mod = m.call(F_BYID, [[base + i, i] for i in completion])
        if [p[1] for p in mod] != got:
            return dict(res, ok=False, kind="corr", clause="order_by_id", detail=dict(call=c, model=mod, impl=got, completion=completion))
        mcalls.append([[100 * c + i for i in range(n)], False, n, [[base + i, 100 * c + i] for i in completion]])
        seen.append([0, [100 * c + g for g in got]])
    if mcalls and m.call(F_CALLS, [True, mcalls]) != seen:
        return dict(res, ok=False, kind="corr", clause="call_sequence", detail=dict(model=m.call(F_CALLS, [True, mcalls]), impl=seen))
    if obs["status"] == "timeout":
        return dict(res, ok=False, clause="predictor_total", sig={"error": "nontermination"}, detail=obs["detail"])
    if obs["status"] != "ok":
        raise RuntimeError(obs["detail"])
    if len(sizes) > 1:
        res["desc"] = res["desc"] + ["member_count_varies_between_calls"]
    res["nontrivial"] = permuted > 0 or last >= 10
    res["desc"].append("completion_order=%s" % ("permuted" if permuted else "as_submitted"))
    return res


def observe_predictor(case):
    import copy
    return _observe_predictor(case, copy)


def _observe_predictor(case, copy):
    """Runs the implementation part of a predictor case -> dict(status='ok'|'timeout'|'exc', detail, calls=[per call:
    dict(current=tags in the order of ens.predictors, tags=returned, fin=finishing times[, wseen][, note])])."""
    from deephyper.ensemble import EnsemblePredictor
    from deephyper.ensemble.aggregator import MeanAggregator

    K = member_classes()
    calls = case["calls"] if "calls" in case else [case["ranks"]]
    n = len(calls[0])
    backend = case.get("evaluator", "thread_n")
    members = [(K["loader"] if case.get("loader") else K["member"])(i) for i in range(n)]
    ev = {"thread_n": {"method": "thread", "method_kwargs": {"num_workers": n}},
          "thread_default": None,  # (evaluator="serial" cannot be constructed: SerialEvaluator wants a coroutine run-function)
          "process": {"method": "process", "method_kwargs": {"num_workers": min(n, 4)}}}[backend]
    spy = K["spy"]()
    weights = [float(i + 1) for i in range(n)]  # non-uniform: a re-ordering would pair members with other weights
    limit = 60 if backend == "process" else 20
    out_calls = []
    st, ens = with_watchdog(lambda: EnsemblePredictor(predictors=list(members), aggregator=spy if case.get("via_predict") else MeanAggregator(),
                                                       weights=list(weights), evaluator=ev), seconds=limit, wall=True)
    if st != "ok":
        return dict(status=st, detail="constructor: %r" % (ens,), calls=out_calls)
    current = list(range(n))  # tags in the order of ens.predictors
    for c, ranks in enumerate(calls):
        perm = (case.get("reorder") or {}).get(str(c))
        if perm:  # the caller re-orders its ensemble between two calls (members loaded in another order)
            current = [current[i] for i in perm]
            ens.predictors = [members[t] for t in current]
            ens.weights = [weights[t] for t in current]
        failing = (case.get("fail") or {}).get(str(c)) or []
        for t, mb in enumerate(members):
            mb.delay = case["unit"] * ranks[t]
            mb.fail = t in failing
        X = np.full((1, 1), float(c))  # every call asks about another X
        sub = (case.get("subsets") or {}).get(str(c))
        # a call on a SUBSET of the members (another number of jobs on the same evaluator): through the public
        # predictions_from_predictors(X, predictors), or through predict() of a shallow copy of the ensemble that shares
        # the evaluator (what OnlineSelector.ensemble hands out)
        cur = list(sub) if sub else list(current)
        target = ens
        if sub and case.get("via_predict"):
            target = copy.copy(ens)
            target.predictors = [members[t] for t in cur]
            target.weights = [weights[t] for t in cur]
        o = dict(current=cur, failing=[t for t in failing if t in cur])
        if case.get("via_predict"):
            spy.seen = None
            st, out = with_watchdog(lambda: target.predict(X), seconds=limit, wall=True)
            if st == "ok":
                if spy.seen is None:
                    out_calls.append(dict(o, note="predict() never aggregated"))
                    break
                out, o["wseen"] = spy.seen
        else:
            st, out = with_watchdog(lambda: ens.predictions_from_predictors(X, [members[t] for t in cur]), seconds=limit, wall=True)
        if st == "exc" and isinstance(out, RuntimeError) and "Failed to call .predict" in str(out):
            out_calls.append(dict(o, raised="RuntimeError"))  # the documented way of reporting a failing member
            continue
        if st != "ok":
            return dict(status=st, detail="call %d: %s" % (c, "no answer within %ds" % limit if st == "timeout" else repr(out)), calls=out_calls)
        o["tags"] = [int(np.asarray(a).reshape(-1)[0]) for a in out]
        o["fin"] = [float(np.asarray(a).reshape(-1)[1]) for a in out]
        o["xs"] = [float(np.asarray(a).reshape(-1)[2]) for a in out]
        out_calls.append(o)
    return dict(status="ok", detail="", calls=out_calls)


def observe_predictor_child(case):
    """The process backend leaves worker / resource-tracker processes behind that keep the caller's stdout open: such a
    case runs in its own interpreter and its own session, and the whole process group is killed afterwards."""
    import json
    import os
    import subprocess
    import sys

    code = "import sys, json; from vp.props import c20; print('OBS=' + json.dumps(c20.observe_predictor(json.loads(sys.argv[1]))))"
    p = subprocess.Popen([sys.executable, "-c", code, json.dumps(case)], stdin=subprocess.DEVNULL, stdout=subprocess.PIPE, stderr=subprocess.DEVNULL,
                         text=True, start_new_session=True, env=dict(os.environ))
    lines = []
    try:
        for line in p.stdout:  # stop reading at the answer: the pipe stays open as long as a straggler lives
            lines.append(line)
            if line.startswith("OBS="):
                break
    finally:
        try:
            os.killpg(p.pid, signal.SIGKILL)
        except ProcessLookupError:
            pass
        p.stdout.close()
        p.wait()
    for line in lines:
        if line.startswith("OBS="):
            return json.loads(line[4:])
    return dict(status="exc", detail="child interpreter gave no answer: %r" % "".join(lines)[-500:], calls=[])


# ------------------------------------------------------------------ search-on-break
def searching(stream_name, check):
    """The runner's search-on-break stops at the first oracle failure it meets and, if that one matches an open known
    finding, drops the correspondence break that started the search.  Open findings of this property are easy to meet
    (F20, F19c are whole option classes), so in cases produced for the search (marked _search) a failure of a known
    class is not a failure: the search goes on until it meets an unknown one or reports no-failing-input-found."""
    def f(case):
        r = check(case)
        if isinstance(case, dict) and case.get("_search") and not r["ok"] and r.get("kind") == "oracle":
            sig = dict(r.get("sig") or {})
            sig.setdefault("clause", r.get("clause", ""))
            sig["stream"] = stream_name
            if findings.match(PROPERTY, sig) is not None:
                return dict(r, ok=True, nontrivial=False, desc=["search:known_class_skipped"])
        return r
    return f


def mark_search(gen):
    def g(rng, tier):
        for c in gen(rng, tier):
            if tier == "search":
                c["_search"] = True
            yield c
    return g


# ------------------------------------------------------------------ generators
def gen_values(rng, kind, n, msamp, style):
    """-> (y, preds) as nested lists"""
    if kind in ("se", "ae"):
        if style == "grid":      # quarter grid: many equal losses
            y = [rng.randint(-4, 4) / 4 for _ in range(msamp)]
            preds = [[rng.randint(-8, 8) / 4 for _ in range(msamp)] for _ in range(n)]
        elif style == "dups":    # repeated members
            base = [[rng.randint(-8, 8) / 4 for _ in range(msamp)] for _ in range(max(1, n // 2))]
            y = [rng.randint(-4, 4) / 4 for _ in range(msamp)]
            preds = [list(rng.choice(base)) for _ in range(n)]
        elif style == "far":     # one member far off in the direction of another: never the best candidate
            y = [0.0] * msamp
            preds = [[rng.choice([-1.0, 1.0]) * rng.choice([1, 1, 1, 10]) for _ in range(msamp)] for _ in range(n)]
        elif style == "opposed":  # errors of alternating sign: averaging members helps, so greedy steps are accepted
            y = [rng.uniform(-2, 2) for _ in range(msamp)]
            preds = [[yy + (1 if (i + s) % 2 else -1) * rng.uniform(0.2, 2.0) for s, yy in enumerate(y)] for i in range(n)]
        else:
            y = [rng.uniform(-2, 2) for _ in range(msamp)]
            preds = [[yy + rng.gauss(0, 1.5) for yy in y] for _ in range(n)]
        return y, preds
    C = 3
    y = [rng.randint(0, C - 1) for _ in range(msamp)]
    preds = []
    for _ in range(n):
        rows = []
        for _s in range(msamp):
            if style == "grid":
                c = [rng.randint(0, 4) for _ in range(C)]
                if sum(c) == 0:
                    c[rng.randint(0, C - 1)] = 1
                rows.append([v / sum(c) for v in c])
            else:
                c = [rng.random() + 0.05 for _ in range(C)]
                rows.append([v / sum(c) for v in c])
        preds.append(rows)
    return y, preds


def gen_masks(rng, n, msamp):
    masks = []
    for _ in range(n):
        mk = [rng.random() < 0.3 for _ in range(msamp)]
        if all(mk):
            mk[rng.randrange(msamp)] = False
        if rng.random() < 0.3:
            mk = [False] * msamp  # a member that predicts every sample, next to members that predict a part
        masks.append(mk)
    # every sample is seen by at least one member of any pair? not needed: a fully masked cell is ignored by the masked mean
    return masks


def gen_opts(rng, n, kind, i):
    k_init = rng.choice([1, 1, 1, 2, 2, 3, 5, 15])
    k = k_init + rng.choice([1, 2, 3, 5, 10]) if rng.random() < 0.8 else rng.choice([0, 1, 2, 3, 5])
    es, repl, bag = bool(i & 1), bool(i & 2), bool(i & 4)
    max_it = rng.choice([-1] * 12 + [0, 1, 1, 3, 3, 10, 10])
    if not es and repl and max_it < 0 and rng.random() < 0.6:
        max_it = rng.choice([1, 3, 10, 30])  # the class that may run for ever costs one watchdog period per case: keep it at ~6 %
    if kind == "table":
        eps = rng.choice([0.0, 0.0, 1e-3, 1.0, 2.0])
    else:
        eps = rng.choice([1e-3, 1e-3, 1e-3, 0.0625, 0.5])
    return dict(k=k, k_init=k_init, max_it=max_it, eps_tol=eps, es=es, repl=repl, bag=bag, seed=rng.randint(0, 999))


KINDS = ["se", "se", "ae", "cce", "zo", "table", "table"]
STYLES = ["float", "opposed", "opposed", "grid", "dups", "far"]


def gen_case(rng, i, small=False, kind=None):
    kind = kind or KINDS[i % len(KINDS)]
    n = rng.choice([1, 2, 2, 3, 3, 4, 4, 5, 6, 8, 10, 12]) if not small else rng.randint(1, 4)
    msamp = rng.randint(1, 5)
    if kind == "table":
        mode = rng.choice(["hash2", "hash4", "hash16", "hash64", "shash8", "shash64", "nhash4", "nhash16", "ulp2", "ulp3", "huge4", "tiny4",
                           "weight_of:%d" % rng.randrange(n)])
        case = dict(kind=kind, preds=[0] * n, table=mode, salt=str(rng.randint(0, 10 ** 6)))
        if mode.startswith("weight_of"):
            case["_frac_loss"] = True  # not integer valued: eps_tol = 0 would allow an endless strictly decreasing run
    else:
        style = rng.choice(STYLES)
        y, preds = gen_values(rng, kind, n, msamp, style)
        case = dict(kind=kind, y=y, preds=preds)
        if kind in ("se", "ae") and style in ("grid", "far") and rng.random() < 0.4:
            # integer-typed targets and predictions (numpy int64 arrays), as in tests/ensemble
            f = 4 if style == "grid" else 1
            case.update(y=[int(v * f) for v in y], preds=[[int(v * f) for v in p] for p in preds], int_dtype=True)
        if rng.random() < 0.3:
            case["masks"] = gen_masks(rng, n, msamp)
            if rng.random() < 0.25:  # complete members handed over as plain ndarrays instead of all-False masks
                case["plain"] = [not any(mk) and rng.random() < 0.6 for mk in case["masks"]]
            if kind in ("se", "ae") and not case.get("int_dtype") and rng.random() < 0.35:
                case["junk"] = rng.choice(["nan", "inf", "big"])  # what lies under a mask
        r = rng.random()
        if r < 0.12:
            case["container"] = "tuple"
        elif r < 0.22 and "masks" not in case:
            case["container"] = "array"
    return case, n


def gen_greedy(count):
    def gen(rng, tier):
        k = count if tier != "search" else max(count, 600)
        for i in range(k):
            case, n = gen_case(rng, i, small=(tier == "search"))
            case["opts"] = gen_opts(rng, n, case["kind"], rng.randrange(8))
            if case.pop("_frac_loss", False) and case["opts"]["eps_tol"] == 0.0:
                case["opts"]["eps_tol"] = 1e-3  # termination with early stopping is claimed for eps_tol > 0 only
            yield case
    return gen


def gen_topk(count):
    def gen(rng, tier):
        for i in range(count):
            case, n = gen_case(rng, i, small=(tier == "search"))
            case["k"] = rng.choice([0, 1, 1, 2, 3, 5, 12, 20])
            case.pop("_frac_loss", None)
            yield case
    return gen


def gen_reuse(count):
    def gen(rng, tier):
        for i in range(count if tier != "search" else min(count, 40)):
            kind = KINDS[i % len(KINDS)]
            steps, opts = [], None
            shared = None
            for _ in range(rng.randint(2, 4)):
                c, n = gen_case(rng, i, small=(tier == "search"), kind=kind)
                frac_loss = c.pop("_frac_loss", False)
                if kind == "table":
                    shared = shared or dict(table=c["table"] if not frac_loss else "hash4", salt=c["salt"])
                    c.update(shared)  # one loss function for the life of the selector
                c.pop("kind")
                steps.append(c)
            opts = gen_opts(rng, 3, kind, rng.randrange(8) | (4 if i % 3 == 0 else 0))  # bagging in a third: the draws go on across calls
            if opts["max_it"] == 0:
                opts["max_it"] = 3
            yield dict(kind=kind, steps=steps, opts=opts, k=rng.choice([0, 1, 2, 3, 5]), pickle=rng.random() < 0.3)
    return gen


def shrink_reuse(case):
    st = case["steps"]
    if len(st) > 1:
        yield dict(case, steps=st[:-1])
        yield dict(case, steps=st[1:])
    if case.get("pickle"):
        yield dict(case, pickle=False)
    if case["opts"]["bag"]:
        yield dict(case, opts=dict(case["opts"], bag=False))


def gen_online(count):
    def gen(rng, tier):
        for i in range(count):
            msamp = rng.randint(2, 6)
            y = [rng.randint(-4, 4) / 4 for _ in range(msamp)]
            jobs = []
            for _ in range(rng.randint(1, 7)):
                # a mixture of jobs that predict every validation sample and jobs that predict a part of them
                idx = list(range(msamp)) if rng.random() < 0.4 else sorted(rng.sample(range(msamp), rng.randint(1, msamp)))
                jobs.append(dict(fail=rng.random() < (0.15 if i % 25 else 1.0), idx=idx, pred=[rng.randint(-8, 8) / 4 for _ in idx],
                                 obj=rng.choice([0.0, 0.0, -1.5, 2, True]), other=rng.random() < 0.2))
            o = gen_opts(rng, 3, "se", rng.randrange(8))
            if o["max_it"] == 0:
                o["max_it"] = -1
            case = dict(y=y, jobs=jobs, selector="greedy" if i % 4 else "topk", opts=o)
            if i % 5 == 0:  # integer-typed targets
                case.update(y=[int(v * 4) for v in y], int_y=True)
            yield case
    return gen


def gen_predictor(maxn):
    def gen(rng, tier):
        # one call, every latency order of <= maxn members
        for n in range(1, (maxn if tier != "search" else 3) + 1):
            for perm in itertools.permutations(range(n)):
                yield dict(ranks=list(perm), unit=0.04)

        def perm(n):
            p = list(range(n))
            rng.shuffle(p)
            return p

        th = tier == "thorough"
        # one long-lived ensemble queried several times: the job numbers of a call pass 9->10 (and 99->100)
        seqs = [(3, 5), (2, 7), (4, 4), (6, 3), (9, 2), (7, 3), (4, 30), (7, 16), (3, 36)]
        if th:
            seqs += [(n, c) for n in (2, 3, 4, 5, 6, 8) for c in (6, 12)] + [(5, 25), (3, 40), (9, 13), (10, 11)]
        if tier == "search":
            seqs = [(3, 5), (6, 3)]
        for n, c in seqs:
            yield dict(calls=[perm(n) for _ in range(c)], unit=0.004 if n * c > 40 else 0.01)
        # other entry points: predict() (observed by a recording aggregator), members given as loaders, the caller re-ordering
        # ensemble.predictors between calls, the default / serial / process evaluators
        for k, (n, c) in enumerate([(3, 5), (4, 4), (6, 3), (12, 2), (5, 3), (3, 12)] + ([(4, 6), (7, 4), (13, 2), (3, 36)] if th else [])):
            case = dict(calls=[perm(n) for _ in range(c)], unit=0.004, via_predict=(k % 2 == 0), loader=(k % 3 == 0))
            case["reorder"] = {str(cc): perm(n) for cc in range(1, c) if rng.random() < 0.6}
            yield case
        for backend, n, c in [("thread_default", 4, 3), ("thread_default", 3, 5), ("process", 4, 3), ("process", 12, 1)] + ([("process", 3, 5), ("thread_default", 12, 2)] if th else []):
            if tier == "search" and backend == "process":
                continue
            yield dict(calls=[perm(n) for _ in range(c)], unit=0.05 if backend == "process" else 0.004, evaluator=backend, via_predict=(n == 4 and backend != "process"))
        # calls with VARYING member counts on one evaluator (subsets through predictions_from_predictors, or predict() of a
        # shallow copy of the ensemble that shares the evaluator, as OnlineSelector.ensemble does): the first job number of a
        # call is then not a multiple of its member count.  Every latency order of the 3-member call after a 2-member call.
        def subset(n, size):
            return rng.sample(range(n), size)

        for lat in itertools.permutations(range(3)):
            for via in (False, True):
                yield dict(calls=[perm(3), list(lat), perm(3)], unit=0.006, subsets={"0": subset(3, 2)}, via_predict=via)
        for k, (n, c) in enumerate([(4, 6), (5, 5), (6, 5), (3, 8), (12, 4)] + ([(4, 12), (7, 8), (13, 4), (5, 30)] if th else [])):
            if tier == "search" and n > 4:
                continue
            subs = {str(cc): subset(n, rng.randint(1, n)) for cc in range(c) if rng.random() < 0.6}
            case = dict(calls=[perm(n) for _ in range(c)], unit=0.004, subsets=subs, via_predict=(k % 2 == 1), loader=(k % 3 == 2),
                        evaluator="thread_default" if k % 4 == 3 else "thread_n")
            if k % 2 == 0:
                case["fail"] = {str(rng.randrange(1, c)): [rng.randrange(n)]}
            yield case
        # a member that raises, at every position, finishing before / after the others, followed by further calls on the same
        # ensemble with another X, other latencies and (half of the time) another member order
        k = 0
        for n in ((2, 3, 4) if not th else (2, 3, 4, 5, 6, 12)):
            for pos in (range(n) if n <= 6 else (0, 5, 11)):
                for when in ("first", "last"):
                    for backend in ("thread_n", "thread_default") + (("process",) if (th and n == 3) or (n == 3 and pos == 1 and when == "first") else ()):
                        if tier == "search" and (backend == "process" or n > 3):
                            continue
                        k += 1
                        calls = [perm(n) for _ in range(5)]
                        r = [x for x in range(n) if x != pos]
                        rng.shuffle(r)
                        calls[1] = [0 if t == pos else 1 + r.index(t) for t in range(n)] if when == "first" else [n - 1 if t == pos else r.index(t) for t in range(n)]
                        case = dict(calls=calls, unit=0.03 if backend == "process" else 0.006, evaluator=backend, via_predict=(k % 3 == 0), loader=(k % 4 == 0),
                                    fail={"1": [pos], "3": sorted(rng.sample(range(n), rng.randint(1, n)))})
                        if k % 2:
                            case["reorder"] = {"2": perm(n), "4": perm(n)}
                        yield case
        # larger ensembles, a few sampled latency orders, one or two calls
        for n in (11, 12, 13):
            orders = [list(range(n)), list(range(n))[::-1]] + [perm(n) for _ in range(4 if th else 1)]
            for k, o in enumerate(orders):
                yield dict(calls=[o] + ([perm(n)] if k % 2 else []), unit=0.006)
    return gen


def shrink_predictor(case):
    if "calls" in case and len(case["calls"]) > 1:
        yield dict(case, calls=case["calls"][:-1])  # prefixes only: the job numbers of a call depend on the calls before it


# ------------------------------------------------------------------ shrinkers
def shrink_sel(case):
    n = len(case["preds"])
    if n > 1:
        for i in range(n):
            c = dict(case, preds=case["preds"][:i] + case["preds"][i + 1:])
            if case.get("masks"):
                c["masks"] = case["masks"][:i] + case["masks"][i + 1:]
            if case.get("plain"):
                c["plain"] = case["plain"][:i] + case["plain"][i + 1:]
            if case["kind"] == "table" and case["table"].startswith("weight_of:") and int(case["table"].split(":")[1]) >= n - 1:
                continue
            yield c
    if case["kind"] != "table":
        ms = len(case["y"])
        if ms > 1:
            for j in range(ms):
                c = dict(case, y=case["y"][:j] + case["y"][j + 1:], preds=[p[:j] + p[j + 1:] for p in case["preds"]])
                if case.get("masks"):
                    mk = [q[:j] + q[j + 1:] for q in case["masks"]]
                    if any(all(q) for q in mk):
                        continue
                    c["masks"] = mk
                yield c
        if case.get("masks"):
            yield {k: v for k, v in case.items() if k not in ("masks", "plain")}
        if case.get("plain"):
            yield {k: v for k, v in case.items() if k != "plain"}
        if case["kind"] in ("se", "ae"):
            for i in range(n):
                for j in range(ms):
                    v = case["preds"][i][j]
                    if v != float(round(v)):
                        p = [list(q) for q in case["preds"]]
                        p[i][j] = float(round(v))
                        yield dict(case, preds=p)
    if "opts" in case:
        o = case["opts"]
        for key, vals in (("k", [1, 2, 3]), ("k_init", [1, 2]), ("max_it", [-1]), ("eps_tol", [1e-3]), ("bag", [False]), ("seed", [0])):
            for v in vals:
                if o[key] != v and (not isinstance(v, int) or isinstance(v, bool) or v < o[key] or key in ("max_it", "seed")):
                    yield dict(case, opts=dict(o, **{key: v}))
    elif "k" in case:
        for v in (1, 2, 3):
            if v < case["k"]:
                yield dict(case, k=v)


def shrink_online(case):
    jobs = case["jobs"]
    for i in range(len(jobs)):
        if len(jobs) > 1:
            yield dict(case, jobs=jobs[:i] + jobs[i + 1:])
    o = case["opts"]
    for key, vals in (("k", [1, 2, 3]), ("k_init", [1, 2]), ("bag", [False]), ("max_it", [-1])):
        for v in vals:
            if o[key] != v:
                yield dict(case, opts=dict(o, **{key: v}))


def streams(tier):
    th = tier == "thorough"
    return [
        Stream("topk", mark_search(gen_topk(5000 if th else 300)), searching("topk", check_topk), shrink_sel, timeout=240),
        Stream("greedy", mark_search(gen_greedy(8000 if th else 400)), searching("greedy", check_greedy), shrink_sel, timeout=240),
        Stream("reuse", mark_search(gen_reuse(600 if th else 90)), searching("reuse", check_reuse), shrink_reuse, timeout=240),
        Stream("online", mark_search(gen_online(1500 if th else 160)), searching("online", check_online), shrink_online, timeout=240),
        Stream("predictor_order", gen_predictor(5 if th else 4), check_predictor, shrink_predictor, timeout=240),
    ]
