"""C13 - Storage keeps what it was given: unique ids, read-your-writes, isolation.

Tie (DESIGN.md 4/C13): step-wise refinement.  The same history is run on MemoryStorage, on SharedMemoryStorage and on the
extracted Coq model (fid 1301, model of the code with fix F25); every return value is compared, the whole storage is
dumped through the public API after the steps (audit operations, part of the history the model runs too), every object
returned by load_job / load_search is KEPT and compared again at the end (snapshot clause; aliasing cannot be stated in
Gallina), and kept objects are scribbled over to see that the storage does not change (snapshot, other direction).
Oracles are the extracted Coq checkers ids_fresh_b (1303), ok_ryw (1304), ok_C13 (1305), ok_exist (1306).
Concurrency: 2..8 client processes on one SharedMemoryStorage, observed histories judged by ok_C13.
Atomicity certificate (stream atomicity_certificate): when the storage uses a lock, structural: (i) a fresh / pickled / deep-copied /
__setstate__-built MemoryStorage owns a lock object before its first operation, the lock attribute is bound only in __init__ /
__setstate__ and its name occurs nowhere as a string (ast of the current source, fail closed), (ii) every public data method blocks
while another thread holds that lock, (iii) the same for the object served by the SharedMemoryStorage manager (probe run inside the
server before any operation).  Without a lock: dis of create_new_search / create_new_job, no eval-breaker opcode between counter
read and write.  A broken certificate is a correspondence break; the search then tries forced two-thread schedules on a fresh
storage (sys.settrace), a fresh-storage stress and the multi-process stress, all judged by ids_fresh_b.

Python value <-> model value: see coq/theories/C13_Storage/Entry.v.  Strings are integer tokens (fixed table for the names
the storage uses itself, case-local table for everything else); no string reaches the extracted code.
"""
import dis
import itertools
import multiprocessing as mp
import os
import sys
import time

from ..driver import model
from ..runner import Stream

PROPERTY = "C13"
LEVEL = "proof"
TRUSTED = [
    "CPython 3.12 eval loop: a thread switch / signal handler only happens at an eval-breaker check (RESUME, JUMP_BACKWARD, CALL*); "
    "dict / str / int primitives used between the counter read and write run no Python code (checked per run against the bytecode: stream atomicity_certificate)",
    "multiprocessing.managers.BaseManager: one server thread per client connection, each request = one call of the MemoryStorage method; arguments and results are pickled (str/int/None/list/tuple/dict round-trip unchanged)",
    "harness token tables: python str <-> integer token; python value <-> canonical flat integer list (dict keys sorted) - harness/vp/props/c13.py enc_val",
    "schedule pressure: the harness sets sys.setswitchinterval(1e-6) while SharedMemoryStorage() forks its server (inherited by the server only), so that server threads switch at almost every eval-breaker check; semantics unchanged",
    "snapshot clause (objects returned by load_job / load_search are unaffected by later stores, and scribbling on them does not change the storage) is observed in Python; immutable Gallina values cannot express aliasing",
]
ASSUMPTIONS = [
    "ids passed to the storage are the strings it handed out or strings of the same shape ('n', 'n.m'); keys are str; values are None/int/str/list/tuple/dict trees (what pickle and deepcopy treat structurally)",
    "aliasing is judged strictly (streams aliasing_store / aliasing_load / through_evaluator): an object handed to store_* or obtained from ANY load may be edited by the caller afterwards without changing what is stored - the property text names load_job / load_search; for the other loads and for the store side this is what 'returns the last value stored' and 'SharedMemoryStorage gives the same answers' require once the caller's edits are part of the history (findings F78 / F79)",
    "keys are str, None or int (no bool: True == 1 as a dictionary key); integer keys are not used with store_job_metadata (a metadata slot replaced by a list would be indexed by them)",
    "concurrency: each client operation is atomic on the server (GIL + certificate); real OS schedules are sampled, not enumerated - the Coq theorem C13_interleaving covers every schedule of atomic operations",
]
RULE = ("values include None/0/False/''/[]/{}/-0.0/nan/inf/2**70/numpy scalars and arrays/dicts with None, '' and integer keys; "
        "exhaustive: every history of length L (4 quick / 5 thorough; all shorter ones are its prefixes) over a fixed 18-operation alphabet (2 searches x 3 jobs x 2 keys) with a full audit after every step, in batches of 18^(L-2); "
        "random: generated histories (length <= 60 quick / 200 thorough) over all 17 public methods, valid and invalid ids, nested mutable values; "
        "non-trivial = at least one successful store followed by a load of the same job, or an error answer")

F_RUN, F_RUN_PREFIX, F_FRESH, F_RYW, F_C13, F_EXIST = 1301, 1302, 1303, 1304, 1305, 1306

RESERVED = ["status", "in", "out", "metadata", "intermediate", "args", "kwargs", "budget", "objective", "job_id_counter", "data", "values"]
TOK = {s: i for i, s in enumerate(RESERVED)}
(T_CS, T_CJ, T_SJ, T_SIN, T_SOUT, T_SSTAT, T_SMETA, T_SSV, T_LSIDS, T_LJIDS, T_LSEARCH, T_LJOB, T_LSV, T_LMETA, T_LOUT, T_LJOBS, T_LSTAT) = range(17)
E_KEY, E_TYPE, E_ATTR = 0, 1, 2


# ------------------------------------------------------------------ tokens and values
class Tokens:
    """str <-> integer token; fixed for RESERVED, case-local (sorted) for the rest, fresh numbers for strings first seen in outputs."""

    def __init__(self, strings):
        self.t = dict(TOK)
        for i, s in enumerate(sorted(set(strings) - set(TOK))):
            self.t[s] = 100 + i
        self.extra = 100000

    def tok(self, s):
        if s is None:  # keys are Hashable: None and integers are legal keys too (bools are avoided: True == 1 as a dict key)
            return 199999
        if isinstance(s, int) and not isinstance(s, bool):
            return 200000 + 2 * abs(s) + (1 if s < 0 else 0)
        if s not in self.t:
            self.t[s] = self.extra
            self.extra += 1
        return self.t[s]


def strings_of(x, acc):
    if isinstance(x, str):
        acc.add(x)
    elif isinstance(x, (list, tuple)):
        for y in x:
            strings_of(y, acc)
    elif isinstance(x, dict):
        for k, v in x.items():
            strings_of(k, acc)
            strings_of(v, acc)
    return acc


def keyable(k):
    return k is None or isinstance(k, str) or (isinstance(k, int) and not isinstance(k, bool))


def mk(j):
    """JSON description -> a FRESH python object.  {'$t': [...]} tuple, {'$f': hex} float, {'$d': [[k, v], ...]} dict with
    keys of any kind, {'$np': [dtype, nested list]} numpy array, {'$nps': [dtype, value]} numpy scalar."""
    if isinstance(j, list):
        return [mk(x) for x in j]
    if isinstance(j, dict):
        if set(j) == {"$t"}:
            return tuple(mk(x) for x in j["$t"])
        if set(j) == {"$f"}:
            return float.fromhex(j["$f"]) if j["$f"] not in ("nan", "inf", "-inf") else float(j["$f"])
        if set(j) == {"$d"}:
            return {mk(k): mk(v) for k, v in j["$d"]}
        if set(j) == {"$np"}:
            import numpy as np

            return np.array(j["$np"][1], dtype=j["$np"][0])
        if set(j) == {"$nps"}:
            import numpy as np

            return np.dtype(j["$nps"][0]).type(j["$nps"][1])
        return {k: mk(v) for k, v in j.items()}
    return j


def enc_val(x, T):
    """python value -> canonical flat list of integers (opaque to the model)."""
    if x is None:
        return [0]
    if type(x).__module__ == "numpy":  # before float / int: numpy scalars subclass them; the kind of number is part of the value
        import numpy as np

        if isinstance(x, np.ndarray):
            return [8, T.tok(str(x.dtype)), x.ndim] + list(x.shape) + enc_val(x.tolist(), T)
        if isinstance(x, np.generic):
            return [9, T.tok(str(x.dtype))] + enc_val(x.item(), T)
    if isinstance(x, bool):
        return [6, int(x)]
    if isinstance(x, int):
        return [1, x]
    if isinstance(x, float):
        import struct

        return [7, struct.unpack("<q", struct.pack("<d", x))[0]]
    if isinstance(x, str):
        return [2, T.tok(x)]
    if isinstance(x, list) or isinstance(x, tuple):
        out = [3 if isinstance(x, list) else 5, len(x)]
        for y in x:
            out += enc_val(y, T)
        return out
    if isinstance(x, dict):
        items = []
        for k, v in x.items():
            if not keyable(k):
                return [99, 1]
            items.append((T.tok(k), enc_val(v, T)))
        items.sort()
        out = [4, len(items)]
        for k, v in items:
            out += [k] + v
        return out
    return [99, 0]


def enc_fval(x, T):
    if isinstance(x, dict) and all(keyable(k) for k in x):
        return [1, [[T.tok(k), enc_val(v, T)] for k, v in x.items()]]
    return [0, enc_val(x, T)]


def enc_rec(d, T):
    if not isinstance(d, dict):
        return [[-1, [0, [99, 2]]]]
    return [[T.tok(k) if keyable(k) else -2, enc_fval(v, T)] for k, v in d.items()]


def sid_str(s):
    return "%d" % s


def jid_str(j):
    return "%d.%d" % (j[0], j[1])


def parse_sid(x):
    try:
        if isinstance(x, str) and str(int(x)) == x:
            return int(x)
    except ValueError:
        pass
    return -777


def parse_jid(x):
    try:
        if isinstance(x, str):
            a, b = x.split(".")
            if str(int(a)) == a and str(int(b)) == b:
                return [int(a), int(b)]
    except ValueError:
        pass
    return [-777, -777]


# ------------------------------------------------------------------ operations
# JSON op:  [name, args...]   ids are ints / [s, p]; keys are str; values are JSON descriptions
def op_data(o, T):
    """JSON op -> model op (data)."""
    n = o[0]
    if n == "create_search":
        return [T_CS]
    if n == "create_job":
        return [T_CJ, o[1]]
    if n == "store_job":
        return [T_SJ, o[1], T.tok(o[2]), enc_fval(mk(o[3]), T)]
    if n == "store_in":
        return [T_SIN, o[1], enc_val(mk(o[2]), T), enc_val(mk(o[3]), T)]
    if n == "store_out":
        return [T_SOUT, o[1], enc_fval(mk(o[2]), T)]
    if n in ("store_status", "job_status_set"):
        return [T_SSTAT, o[1], enc_fval(o[2], T)]
    if n == "store_meta":
        return [T_SMETA, o[1], T.tok(o[2]), enc_val(mk(o[3]), T)]
    if n == "store_sv":
        return [T_SSV, o[1], T.tok(o[2]), enc_fval(mk(o[3]), T)]
    if n == "load_sids":
        return [T_LSIDS]
    if n == "load_jids":
        return [T_LJIDS, o[1]]
    if n == "load_search":
        return [T_LSEARCH, o[1]]
    if n == "load_job":
        return [T_LJOB, o[1]]
    if n == "load_sv":
        return [T_LSV, o[1], T.tok(o[2])]
    if n == "load_meta_all":
        return [T_LMETA, o[1], T.tok(o[2])]
    if n == "load_out_all":
        return [T_LOUT, o[1]]
    if n == "load_jobs":
        return [T_LJOBS, o[1]]
    if n in ("load_status", "job_status_get"):
        return [T_LSTAT, o[1]]
    raise ValueError(n)


NONMODEL = ("scribble", "edit_stored", "edit_loaded", "repickle")  # harness actions, not storage operations


def apply_op(st, o, T, keep=None, handed=None, keep2=None):
    """Runs one JSON op on a storage; returns the output in the model's encoding (Entry.v e_out).
    keep: objects returned by load_job / load_search; keep2: objects returned by the other loads; handed: objects given to stores."""
    n = o[0]

    def give(j):
        x = mk(j)
        if handed is not None:
            handed.append(x)
        return x

    def got(x):
        if keep2 is not None:
            keep2.append(x)
        return x

    try:
        if n == "create_search":
            return [1, parse_sid(st.create_new_search())]
        if n == "create_job":
            return [2, parse_jid(st.create_new_job(sid_str(o[1])))]
        if n == "store_job":
            r = st.store_job(jid_str(o[1]), o[2], give(o[3]))
        elif n == "store_in":
            r = st.store_job_in(jid_str(o[1]), args=give(o[2]), kwargs=give(o[3]))
        elif n == "store_out":
            r = st.store_job_out(jid_str(o[1]), give(o[2]))
        elif n == "store_status":
            r = st.store_job_status(jid_str(o[1]), o[2])
        elif n == "job_status_set":  # through deephyper.evaluator.Job.status
            from deephyper.evaluator import Job, JobStatus

            job = Job(jid_str(o[1]), {}, None, st)
            job.status = JobStatus(o[2])
            r = None
        elif n == "store_meta":
            try:
                r = st.store_job_metadata(jid_str(o[1]), o[2], give(o[3]))
            except IndexError:  # a numpy array in the "metadata" slot rejects a str / None index with IndexError: same answer class
                return [11, E_TYPE]
        elif n == "store_sv":
            r = st.store_search_value(sid_str(o[1]), o[2], give(o[3]))
        elif n == "load_sids":
            return [3, [parse_sid(x) for x in st.load_all_search_ids()]]
        elif n == "load_jids":
            return [4, [parse_jid(x) for x in st.load_all_job_ids(sid_str(o[1]))]]
        elif n == "load_search":
            d = st.load_search(sid_str(o[1]))
            out = [9, [[parse_sid(p), enc_rec(r, T)] for p, r in d.items()]]
            if keep is not None:
                keep.append([d, canon_out(out), o])
            return out
        elif n == "load_job":
            d = st.load_job(jid_str(o[1]))
            out = [8, enc_rec(d, T)]
            if keep is not None:
                keep.append([d, canon_out(out), o])
            return out
        elif n == "load_sv":
            return [5, enc_fval(got(st.load_search_value(sid_str(o[1]), o[2])), T)]
        elif n == "load_meta_all":
            return [6, [enc_val(x, T) for x in got(st.load_metadata_from_all_jobs(sid_str(o[1]), o[2]))]]
        elif n == "load_out_all":
            return [7, [enc_fval(x, T) for x in got(st.load_out_from_all_jobs(sid_str(o[1])))]]
        elif n == "load_jobs":
            d = got(st.load_jobs([jid_str(j) for j in o[1]]))
            return [10, [[parse_jid(j), enc_rec(r, T)] for j, r in d.items()]]
        elif n == "load_status":
            return [5, enc_fval(st.load_job_status(jid_str(o[1])), T)]
        elif n == "job_status_get":
            from deephyper.evaluator import Job

            # Job.status is JobStatus(storage.load_job_status(id)): a VIEW of the stored value (the enum maps 3.0, True, numpy
            # 3 ... to the member with an equal value, and rejects anything else).  The storage's answer is the raw value; the
            # wrapper is only required to be consistent with it.
            job = Job(jid_str(o[1]), {}, None, st)
            raw = st.load_job_status(jid_str(o[1]))
            try:
                view = job.status
            except (ValueError, TypeError):  # not a JobStatus value (store_job(key="status", ...)): the wrapper cannot show it
                return [5, enc_fval(raw, T)]
            if not bool(view.value == raw):
                return [12, enc_val(view.value, T)]
            return [5, enc_fval(raw, T)]
        else:
            raise ValueError(n)
        return [0, []] if r is None else [12, enc_val(r, T)]
    except KeyError:
        return [11, E_KEY]
    except TypeError:
        return [11, E_TYPE]
    except AttributeError:
        return [11, E_ATTR]


def canon_out(x):
    """Order-insensitive where python gives a dict: FM entries, records, load_search / load_jobs results are sorted."""
    tag, p = x[0], x[1]

    def cf(f):
        return [f[0], sorted(f[1])] if f[0] == 1 else f

    def cr(r):
        return sorted([k, cf(f)] for k, f in r)

    if tag == 5:
        return [tag, cf(p)]
    if tag == 7:
        return [tag, [cf(f) for f in p]]
    if tag == 8:
        return [tag, cr(p)]
    if tag in (9, 10):
        seen = {}
        for k, r in p:  # dict semantics: a repeated key keeps its first position, last value
            seen[repr(k)] = [k, cr(r)]
        return [tag, sorted(seen.values())]
    return x


def scribble(x):
    """Destroy an object in place, at every level (what a careless caller may do to something it passed in or got back)."""
    if isinstance(x, dict):
        for v in list(x.values()):
            scribble(v)
        x.clear()
        x["scribbled"] = ["x"]
    elif isinstance(x, list):
        for v in x:
            scribble(v)
        x.append("scribbled")
    elif isinstance(x, tuple):
        for v in x:
            scribble(v)
    elif type(x).__module__ == "numpy" and hasattr(x, "fill") and getattr(x, "ndim", 0) > 0:
        x.fill(7)


# ------------------------------------------------------------------ storages
def allow_children():
    """The runner's pool workers are daemonic; a BaseManager server / client processes are children of the worker."""
    try:
        mp.current_process()._config["daemon"] = False
    except Exception:
        pass


class Shared:
    """SharedMemoryStorage() with a guaranteed shutdown of its manager process.
    switch: thread switch interval inherited by the (forked) server process - a tiny value makes the server threads
    of concurrent clients interleave at almost every eval-breaker check (schedule pressure, no change of semantics)."""

    def __init__(self, switch=None):
        self.switch = switch

    def __enter__(self):
        from deephyper.evaluator.storage import SharedMemoryStorage

        allow_children()
        old = sys.getswitchinterval()
        try:
            if self.switch:
                sys.setswitchinterval(self.switch)
            self.st = SharedMemoryStorage()
        finally:
            sys.setswitchinterval(old)
        return self.st

    def __exit__(self, *a):
        man = getattr(self.st, "_manager", None)
        try:
            if man is not None:
                man.shutdown()
        finally:
            proc = getattr(man, "_process", None)
            if proc is not None and proc.is_alive():
                proc.kill()
                proc.join(5)
        return False


def full_audit(nsearch, jobs, svkeys, metakeys):
    """Dump everything through the public API (deterministic list of ops; the model runs the same)."""
    a = [["load_sids"]]
    for s in range(nsearch):
        a += [["load_jids", s], ["load_search", s], ["load_out_all", s]]
        a += [["load_meta_all", s, k] for k in metakeys]
        a += [["load_sv", s, k] for k in svkeys]
    for j in jobs:
        a += [["load_job", j], ["load_status", j]]
    if jobs:
        a.append(["load_jobs", jobs])
    return a


def light_audit(nsearch, svs):
    a = [["load_sids"]]
    for s in range(nsearch):
        a += [["load_jids", s], ["load_search", s]]
    a += [["load_sv", s, k] for s, k in svs]
    return a


def expand(case):
    """History -> list of (is_audit, op) with the audits the case asks for."""
    ops = case["ops"]
    mode = case.get("audit", "light")
    every = case.get("every", 1)
    out = []
    nsearch, svs = 0, []
    jobs_guess = {}
    for t, o in enumerate(ops):
        out.append((False, o))
        if o[0] == "create_search":
            jobs_guess[nsearch] = 0
            nsearch += 1
        if o[0] == "create_job" and o[1] in jobs_guess:
            jobs_guess[o[1]] += 1
        if o[0] == "store_sv" and [o[1], o[2]] not in svs:
            svs.append([o[1], o[2]])
        if o[0] in NONMODEL:
            continue
        if (t + 1) % every == 0 or t == len(ops) - 1:
            if mode == "full":
                jobs = [[s, p] for s in sorted(jobs_guess) for p in range(jobs_guess[s])]
                aud = full_audit(nsearch, jobs, case.get("svkeys", []), case.get("metakeys", []))
            else:
                aud = light_audit(nsearch, svs)
            out += [(True, a) for a in aud]
    return out


def run_impl(st, xops, T, shared=False):
    """Returns (outputs aligned with the storage operations, failures of the aliasing clauses)."""
    keep, keep2, handed, outs_, fails, alive = [], [], [], [], [], []

    def edit(objs, o, clause):
        if objs:
            i = o[1] % len(objs)
            before = [canon_out(apply_op(st, a, T)) for a in o[2]]
            scribble(objs[i][0] if objs is keep else objs[i])
            objs.pop(i)
            after = [canon_out(apply_op(st, a, T)) for a in o[2]]
            if before != after:
                fails.append(dict(clause=clause, detail=dict(before=before, after=after)))

    for is_audit, o in xops:
        if o[0] == "scribble":        # edit an object obtained from load_job / load_search
            edit(keep, o, "snapshot_writeback")
        elif o[0] == "edit_loaded":   # ... from load_jobs / load_search_value / load_out_from_all_jobs / load_metadata_from_all_jobs
            edit(keep2, o, "loaded_value_aliases_store")
        elif o[0] == "edit_stored":   # edit an object after it was handed to a store_* method
            edit(handed, o, "stored_value_aliases_caller")
        elif o[0] == "repickle":      # the client-side handle goes through pickle in the middle of the history
            if shared:
                import pickle

                alive.append(st)  # CPython: proxies of one address share the connection; finalising one closes it under the others
                st = pickle.loads(pickle.dumps(st))
        else:
            outs_.append(apply_op(st, o, T, keep, handed, keep2))
    for obj, was, o in keep:
        tag = 9 if o[0] == "load_search" else 8
        now = canon_out([tag, [[parse_sid(p), enc_rec(r, T)] for p, r in obj.items()]] if tag == 9 else [tag, enc_rec(obj, T)])
        if now != was:
            fails.append(dict(clause="snapshot", detail=dict(op=o, at_load=was, at_end=now)))
            break
    return outs_, fails


def first_diff(a, b):
    for i, (x, y) in enumerate(zip(a, b)):
        if x != y:
            return i
    return min(len(a), len(b)) if len(a) != len(b) else None


def describe(case, outs_):
    ops = case["ops"]
    d = ["len=%d" % (len(ops) if len(ops) < 10 else len(ops) // 10 * 10)]
    errs = sum(1 for o in outs_ if o[0] == 11)
    d.append("errors=%s" % ("0" if errs == 0 else "1-5" if errs <= 5 else ">5"))
    names = set(o[0] for o in ops)
    for n in sorted(names):
        d.append("op:" + n)
    return d


def check_history(case):
    """One history on MemoryStorage (+ SharedMemoryStorage) and on the model."""
    from deephyper.evaluator.storage import MemoryStorage

    T = Tokens(strings_of(case["ops"], set()) | set(case.get("svkeys", [])) | set(case.get("metakeys", [])))
    xops = expand(case)
    mops = [(a, o) for a, o in xops if o[0] not in NONMODEL]
    mdata = [op_data(o, T) for _, o in mops]
    m = model()
    mouts = [canon_out(x) for x in m.call(F_RUN, mdata)]
    backends = case.get("backends", ["memory", "shared"])
    # F25: a history that uses one of the names the pinned code keeps in the same dictionary as the user's search values
    internal = any(o[0] in ("store_sv", "load_sv") and o[2] in ("job_id_counter", "data") for o in case["ops"])
    sig = dict(internal_search_key=internal)
    # F78 / F79: the caller edits an object after handing it to a store, or an object it got from a load other than load_job / load_search
    for k, name in (("edits_stored", "edit_stored"), ("edits_loaded", "edit_loaded")):
        if any(o[0] == name for o in case["ops"]):
            sig[k] = True
    res = dict(ok=True, kind="oracle", clause="", sig=sig, nontrivial=False, desc=[])
    results = {}
    for b in backends:
        if b == "memory":
            outs_, fails = run_impl(MemoryStorage(), xops, T)
        elif b == "factory":  # the documented second way to obtain a storage
            from deephyper.evaluator.storage import Storage

            outs_, fails = run_impl(Storage.create(method="memory"), xops, T)
        else:
            with Shared() as st:
                outs_, fails = run_impl(st, xops, T, shared=True)
        results[b] = (outs_, fails)
    first = results[backends[0]][0]
    res["desc"] = describe(case, first)
    res["nontrivial"] = any(o[0] == 11 for o in first) or any(o[0].startswith("store") for o in case["ops"])
    for b in backends:
        outs_, fails = results[b]
        cou = [canon_out(x) for x in outs_]
        # --- oracles on the implementation's outputs (extracted Coq checkers)
        if fails and fails[0]["clause"] != "snapshot":
            return dict(res, ok=False, clause=fails[0]["clause"], detail=dict(backend=b, **fails[0]["detail"]))
        if not m.call(F_FRESH, outs_):
            return dict(res, ok=False, clause="fresh_ids", detail=dict(backend=b, ids=[x for x in outs_ if x[0] in (1, 2)]))
        if not m.call(F_EXIST, [[od, x] for od, x in zip(mdata, outs_)]):
            return dict(res, ok=False, clause="created_stays", detail=dict(backend=b, first_diff_with_model=_diff_detail(mops, cou, mouts)))
        if not m.call(F_RYW, [[od, x] for od, x in zip(mdata, outs_)]):
            return dict(res, ok=False, clause="read_your_writes", detail=dict(backend=b, first_diff_with_model=_diff_detail(mops, cou, mouts)))
        if fails:
            return dict(res, ok=False, clause=fails[0]["clause"], detail=dict(backend=b, **fails[0]["detail"]))
    if len(backends) == 2:
        a = [canon_out(x) for x in results[backends[0]][0]]
        b = [canon_out(x) for x in results[backends[1]][0]]
        if a != b:
            i = first_diff(a, b)
            return dict(res, ok=False, clause="same_answers", detail=dict(step=i, op=mops[i][1] if i < len(mops) else None, backends=backends, first=a[i] if i < len(a) else None, second=b[i] if i < len(b) else None))
    # --- correspondence with the model
    for b in backends:
        cou = [canon_out(x) for x in results[b][0]]
        if cou != mouts:
            return dict(res, ok=False, kind="corr", clause="outputs", detail=dict(backend=b, **_diff_detail(mops, cou, mouts)))
    return res


def _diff_detail(mops, cou, mouts):
    i = first_diff(cou, mouts)
    if i is None:
        return dict(step=None)
    return dict(step=i, audit=mops[i][0] if i < len(mops) else None, op=mops[i][1] if i < len(mops) else None,
                impl=cou[i] if i < len(cou) else None, model=mouts[i] if i < len(mouts) else None)


# ------------------------------------------------------------------ generators: exhaustive
JOBS3 = [[0, 0], [0, 1], [1, 0]]


def alphabet_op(a, t):
    """The a-th operation of the exhaustive alphabet at position t of a history (values name their position)."""
    v = ["v", t]
    table = [
        ["create_search"], ["create_job", 0], ["create_job", 1],
        ["store_out", JOBS3[0], [] if t % 2 else v], ["store_out", JOBS3[1], {"o": v} if t % 2 else {}], ["store_out", JOBS3[2], None if t % 2 else 0],
        ["store_meta", JOBS3[0], "ka", v], ["store_meta", JOBS3[0], "kb", t], ["store_meta", JOBS3[1], "ka", None], ["store_meta", JOBS3[2], "ka", {"n": [t]}],
        ["store_job", JOBS3[0], "ka", v], ["store_job", JOBS3[0], "metadata", t], ["store_job", JOBS3[1], "metadata", {"kb": v}],
        ["store_in", JOBS3[0], {"$t": [t, [t]]}, {"x": t}], ["store_status", JOBS3[2], 1 + t % 5],
        ["store_sv", 0, "ka", v], ["store_sv", 1, "ka", {"ka": t}], ["store_sv", 0, "kb", t],
    ]
    return table[a]


NALPHA = 18


def gen_exhaustive(length, nshared):
    """Every history of exactly `length` operations (its prefixes are checked on the way: outputs and a full audit are
    compared after every step), in batches that share their first two operations; plus a sample on both storages."""
    def gen(rng, tier):
        if tier == "search":
            for h in itertools.product(range(NALPHA), repeat=2):
                yield dict(alpha=list(h), backends=["memory", "shared"])
            return
        for pre in itertools.product(range(NALPHA), repeat=2):
            yield dict(prefix=list(pre), extend=length - 2, backends=["memory"])
        for _ in range(nshared):
            yield dict(alpha=[rng.randrange(NALPHA) for _ in range(length)], backends=["memory", "shared"])
    return gen


def check_alpha(alpha, backends):
    ops = [alphabet_op(a, t) for t, a in enumerate(alpha)]
    return check_history(dict(ops=ops, audit="full", every=1, svkeys=["ka", "kb"], metakeys=["ka", "kb"], backends=backends))


def check_exhaustive(case):
    if "prefix" not in case:
        return check_alpha(case["alpha"], case["backends"])
    n = 0
    for ext in itertools.product(range(NALPHA), repeat=case["extend"]):
        alpha = case["prefix"] + list(ext)
        r = check_alpha(alpha, case["backends"])
        n += 1
        if not r["ok"]:
            r["detail"] = dict(alpha=alpha, ops=[alphabet_op(a, t) for t, a in enumerate(alpha)], inner=r.get("detail"))
            return r
    return dict(ok=True, kind="oracle", clause="", sig={}, nontrivial=True, desc=["batch_of=%d" % n, "len=%d" % len(alpha)])


def shrink_alpha(case):
    if "prefix" in case:  # a batch: try its members (short histories; the failing one is named in detail.alpha)
        for ext in itertools.product(range(NALPHA), repeat=case["extend"]):
            yield dict(alpha=case["prefix"] + list(ext), backends=case["backends"])
        return
    h = case["alpha"]
    for i in range(len(h)):
        if len(h) > 1:
            yield dict(case, alpha=h[:i] + h[i + 1:])


# ------------------------------------------------------------------ generators: random histories
KEYPOOL = ["ka", "kb", "kc", "status", "in", "out", "metadata", "intermediate", "budget", "objective", "args", "kwargs", "timestamp_submit",
           "", None, 0, 7]   # falsy and non-str keys are legal (Hashable)
STRPOOL = ["a", "b", "objective", "F", ""]
ODD = [False, True, 0, {"$f": "0x0.0p+0"}, {"$f": "-0x0.0p+0"}, {"$f": "0x1.8p+1"}, {"$f": "nan"}, {"$f": "inf"}, {"$f": "0x1.fffffffffffffp+1023"},
       2 ** 70, -(2 ** 63) - 1, 2 ** 53 + 1, {"$nps": ["int64", 3]}, {"$nps": ["float32", 1.5]}, {"$nps": ["bool", False]},
       {"$np": ["int64", [1, 2, 3]]}, {"$np": ["float64", [[0.0, 1.5], [2.0, -1.0]]]}, {"$np": ["float64", []]},
       {"$d": [[0, 1], [None, 2], ["", 3]]}, {"$d": []}]


def rand_value(rng, depth=0):
    r = rng.random()
    if depth >= 3 or r < 0.35:
        c = rng.random()
        if c < 0.2:
            return None
        if c < 0.55:
            return rng.randint(-3, 40)
        if c < 0.75:
            return rng.choice(ODD)
        return rng.choice(STRPOOL)
    if r < 0.6:
        return [rand_value(rng, depth + 1) for _ in range(rng.randint(0, 3))]
    if r < 0.7:
        return {"$t": [rand_value(rng, depth + 1) for _ in range(rng.randint(0, 3))]}
    return {rng.choice(KEYPOOL[:13]): rand_value(rng, depth + 1) for _ in range(rng.randint(0, 3))}


def gen_random(count, maxlen, reserved=False, alias=None):
    svkeys = ["ka", "kb", "values"] + (["job_id_counter", "data"] if reserved else [])

    def gen(rng, tier):
        k = count * 3 if tier == "search" else count
        for i in range(k):
            n = rng.randint(1, 12) if (tier == "search" or i % 3 == 0) else rng.randint(1, maxlen)
            ns, nj = 0, {}
            ops = []
            # a warm-up so that most operations hit existing objects; every 8th case has ids with two digits
            for _ in range(rng.randint(9, 13) if i % 8 == 5 else rng.randint(0, 2)):
                ops.append(["create_search"])
                nj[ns] = 0
                ns += 1

            def some_sid():
                if ns and rng.random() < 0.9:
                    return rng.randrange(ns)
                return rng.choice([ns, ns + 1, -1])

            def some_jid():
                s = some_sid()
                if s in nj and nj[s] and rng.random() < 0.92:
                    return [s, rng.randrange(nj[s])]
                return [s, rng.choice([nj.get(s, 0), nj.get(s, 0) + 2, -1])]

            if i % 8 == 5:
                n += len(ops)
                for _ in range(rng.randint(0, 14)):  # ... and jobs with two digits
                    s0 = rng.randrange(ns)
                    ops.append(["create_job", s0])
                    nj[s0] += 1
                n += 4
            while len(ops) < n:
                r = rng.random()
                if r < 0.05:
                    ops.append(["create_search"])
                    nj[ns] = 0
                    ns += 1
                elif r < 0.22:
                    s = some_sid()
                    ops.append(["create_job", s])
                    if s in nj:
                        nj[s] += 1
                elif r < 0.32:
                    k0, v0 = rng.choice(KEYPOOL), rand_value(rng)
                    if k0 == "metadata" and isinstance(v0, dict) and set(v0) == {"$np"}:
                        v0 = [v0]  # an array as THE metadata slot would answer later metadata stores with numpy's own IndexError
                    ops.append(["store_job", some_jid(), k0, v0])
                elif r < 0.38:
                    ops.append(["store_in", some_jid(), rand_value(rng), rand_value(rng)])
                elif r < 0.46:
                    ops.append(["store_out", some_jid(), rand_value(rng)])
                elif r < 0.52:
                    ops.append([rng.choice(["store_status", "job_status_set"]), some_jid(), rng.randint(0, 4)])
                elif r < 0.64:  # no integer key here: metadata replaced by a list would be indexed by it
                    ops.append(["store_meta", some_jid(), rng.choice(KEYPOOL[:15]), rand_value(rng)])
                elif r < 0.70:
                    ops.append(["store_sv", some_sid(), rng.choice(svkeys), rand_value(rng)])
                elif r < 0.73:
                    ops.append(["load_sv", some_sid(), rng.choice(svkeys)])
                elif r < 0.79:
                    ops.append(["load_job", some_jid()])
                elif r < 0.82:
                    ops.append(["load_search", some_sid()])
                elif r < 0.85:
                    ops.append([rng.choice(["load_status", "load_status", "job_status_get"]), some_jid()])
                elif r < 0.88:
                    ops.append(["load_meta_all", some_sid(), rng.choice(KEYPOOL)])
                elif r < 0.91:
                    ops.append(["load_out_all", some_sid()])
                elif r < 0.935:
                    ops.append(["load_jobs", [some_jid() for _ in range(rng.randint(0, 4))]])
                elif r < 0.945:
                    ops.append(["load_jids", some_sid()])
                elif r < 0.955:
                    ops.append(["repickle"])
                elif alias and r < 0.99:
                    aud = []
                    for s0 in range(min(ns, 3)):
                        aud += [["load_search", s0], ["load_out_all", s0]] + [["load_sv", s0, k0] for k0 in svkeys[:2]]
                    ops.append(["edit_stored" if alias == "store" else "edit_loaded", rng.randrange(1000), aud])
                else:
                    j = some_jid()
                    ops.append(["scribble", rng.randrange(1000), [["load_job", j], ["load_search", j[0]], ["load_jobs", [j]]]])
            # job_status_get raises ValueError for a status outside the enum: only after statuses in range (always here)
            yield dict(ops=ops, audit="light", every=1 if n <= 25 else rng.choice([3, 7]),
                       backends=["factory", "shared"] if i % 5 == 2 else ["memory", "shared"])
    return gen


def shrink_ops(case):
    ops = case["ops"]
    n = len(ops)
    if n > 4:
        for k in (n // 2, n // 4):
            for i in range(0, n, k):
                yield dict(case, ops=ops[:i] + ops[i + k:])
    for i in range(n):
        if n > 1:
            yield dict(case, ops=ops[:i] + ops[i + 1:])
    for i, o in enumerate(ops):
        if o[0] in ("store_job", "store_meta", "store_sv") and o[3] != [1]:
            yield dict(case, ops=ops[:i] + [o[:3] + [[1]]] + ops[i + 1:])
        if o[0] == "store_out" and o[2] != [1]:
            yield dict(case, ops=ops[:i] + [o[:2] + [[1]]] + ops[i + 1:])
    if len(case.get("backends", [])) == 2:
        yield dict(case, backends=[case["backends"][0]])
        yield dict(case, backends=[case["backends"][1]])


# ------------------------------------------------------------------ concurrency
def resolve(cop, own):
    n = cop[0]
    if n == "new":
        return ["create_job", cop[1]]
    if n in ("listjobs", "loadsearch", "outall"):
        return [dict(listjobs="load_jids", loadsearch="load_search", outall="load_out_all")[n], cop[1]]
    if n == "metaall":
        return ["load_meta_all", cop[1], cop[2]]
    j = own[cop[1]] if cop[1] < len(own) else [-1, -1]
    if n == "store":
        return ["store_job", j, cop[2], cop[3]]
    if n == "out":
        return ["store_out", j, cop[2]]
    if n == "status":
        return ["store_status", j, cop[2]]
    if n == "in":
        return ["store_in", j, cop[2], cop[3]]
    if n == "meta":
        return ["store_meta", j, cop[2], cop[3]]
    if n == "load":
        return ["load_job", j]
    if n == "loadstatus":
        return ["load_status", j]
    if n == "loadjobs":
        return ["load_jobs", [own[i] for i in cop[1:] if i < len(own)]]
    raise ValueError(n)


def client_main(st, script, strings, barrier, conn, pickled=False):
    """One client process: waits at the barrier, runs its script, sends back [(op data, out data)]."""
    o = None
    try:
        if pickled:
            import pickle

            st = pickle.loads(pickle.dumps(st))
        T = Tokens(strings)
        own, hist = [], []
        try:
            barrier.wait(60)
        except Exception:
            pass
        for cop in script:
            o = resolve(cop, own)
            x = apply_op(st, o, T)
            if o[0] == "create_job" and x[0] == 2:
                own.append(x[1])
            hist.append([op_data(o, T), x])
        conn.send(("ok", hist))
    except BaseException as e:  # reported by the parent
        try:
            import traceback

            conn.send(("exc", dict(exc=type(e).__name__, msg=str(e), op=(o[0] if o else None), where=traceback.format_exc()[-600:])))
        except Exception:
            pass
    finally:
        conn.close()


def check_concurrent(case):
    scripts = case["scripts"]
    strings = sorted(strings_of(scripts, set()))
    T = Tokens(strings)
    ctx = mp.get_context(case.get("start", "fork"))
    m = model()
    res = dict(ok=True, kind="oracle", clause="", sig={}, nontrivial=False, desc=["clients=%d" % len(scripts), "proxy=" + ("pickled" if case.get("pickled") else "forked")])
    procs = []
    with Shared(switch=case.get("switch")) as st:
        try:
            for _ in range(case["nsearch"]):
                st.create_new_search()
            for s, k in case.get("pre", []):
                for _ in range(k):
                    j = st.create_new_job(sid_str(s))
                    st.store_job_out(j, ["pre"])
            pre = [parse_jid(j) for s in range(case["nsearch"]) for j in st.load_all_job_ids(sid_str(s))]
            barrier = ctx.Barrier(len(scripts))
            pipes = []
            for sc in scripts:
                a, b = ctx.Pipe(duplex=False)
                p = ctx.Process(target=client_main, args=(st, sc, strings, barrier, b, bool(case.get("pickled"))), daemon=True)
                p.start()
                b.close()
                procs.append(p)
                pipes.append(a)
            hists = []
            for a in pipes:
                if not a.poll(600):  # watchdog only; a healthy case needs seconds
                    return dict(res, ok=False, clause="client_timeout", detail="a client did not answer within 600 s")
                kind, payload = a.recv()
                if kind != "ok":
                    return dict(res, ok=False, clause="client_exception:" + payload["exc"], sig=dict(exc=payload["exc"], op=payload["op"]), detail=payload)
                hists.append(payload)
            for p in procs:
                p.join(30)
            dumps, fin = [], []
            for s in range(case["nsearch"]):
                o = ["load_search", s]
                dumps.append([op_data(o, T), apply_op(st, o, T)])
                fin += [parse_jid(j) for j in st.load_all_job_ids(sid_str(s))]
        finally:
            for p in procs:
                if p.is_alive():
                    p.kill()
                p.join(5)
    created = [[x[1] for _, x in h if x[0] == 2] for h in hists]
    inter = 0
    for ids in created:
        by_s = {}
        for s, p in ids:
            by_s.setdefault(s, []).append(p)
        if any(ps and max(ps) - min(ps) + 1 != len(ps) for ps in by_s.values()):
            inter += 1
    res["nontrivial"] = inter > 0
    res["desc"] += ["interleaved_clients=%d" % inter, "ops_per_client~%d" % (sum(map(len, scripts)) // len(scripts) // 50 * 50)]
    hs = [h + dumps for h in hists]
    if not (m.call(F_C13, [pre, hs, fin]) and all(m.call(F_EXIST, h) for h in hs)):
        # which conjunct: recompute the parts with the same extracted checkers
        allouts = [x for h in hists for _, x in h]
        if not m.call(F_FRESH, allouts):
            clause = "fresh_ids"
        elif not all(m.call(F_RYW, h) for h in hs):
            clause = "client_reads_own_writes_or_final_union"
        elif not all(m.call(F_EXIST, h) for h in hs):
            clause = "created_stays"
        else:
            clause = "final_job_set"
        dup = sorted(map(tuple, sum(created, [])))
        dups = sorted(set(d for d in dup if dup.count(d) > 1))[:5]
        return dict(res, ok=False, clause=clause, detail=dict(duplicates=dups, n_created=len(dup), n_final=len(fin), pre=len(pre)))
    return res


def rand_script(rng, nops, nsearch, heavy_create):
    sc, n_own = [], 0
    for _ in range(nops):
        r = rng.random()
        if n_own == 0 or r < (0.7 if heavy_create else 0.25):
            sc.append(["new", rng.randrange(nsearch)])
            n_own += 1
            continue
        i = rng.randrange(n_own)
        if r < 0.45:
            sc.append(["meta", i, rng.choice(["ka", "kb", "kc"]), rand_value(rng)])
        elif r < 0.6:
            sc.append(["out", i, rand_value(rng)])
        elif r < 0.68:
            sc.append(["store", i, rng.choice(["ka", "kb", "out", "in"]), rand_value(rng)])
        elif r < 0.72:
            sc.append(["status", i, rng.randint(0, 5)])
        elif r < 0.76:
            sc.append(["in", i, rand_value(rng), rand_value(rng)])
        elif r < 0.9:
            sc.append(["load", i])
        elif r < 0.94:
            sc.append(["loadstatus", i])
        elif r < 0.96:
            sc.append(["loadjobs"] + [rng.randrange(n_own) for _ in range(rng.randint(1, 3))])
        elif heavy_create:  # no operation that iterates over the shared dictionaries (finding F26): ids / own writes only
            sc.append(["load", i])
        else:
            c = rng.randrange(4)
            s = rng.randrange(nsearch)
            sc.append([["loadsearch", s], ["listjobs", s], ["outall", s], ["metaall", s, rng.choice(["ka", "kb"])]][c])
    return sc


def gen_concurrent(count, nops, max_clients, nspawn):
    def gen(rng, tier):
        k = count
        # the proxy reaches the clients pickled (what ProcessPoolEvaluator / loky does with a storage): the forked client
        # round-trips it through pickle before use (a real "spawn" start would re-run ./check as __mp_main__)
        for i in range(0 if tier == "search" else nspawn):
            yield dict(nsearch=1, pre=[[0, 1]], scripts=[rand_script(rng, 120, 1, i % 2 == 0) for _ in range(2 + i % 3)], start="fork", pickled=True)
        for i in range(0 if tier == "search" else 2):
            yield reader_writer_case(2, 2, 200 + 100 * i)
        for i in range(k):
            nc = rng.randint(2, max_clients) if i else max_clients
            ns = rng.randint(1, 2)
            heavy = (i % 2 == 0) or tier == "search"
            yield dict(nsearch=ns, pre=[[s, rng.randint(0, 3)] for s in range(ns)],
                       scripts=[rand_script(rng, nops if tier != "search" else nops * 3, ns, heavy) for _ in range(nc)], start="fork",
                       switch=[None, 1e-6][i % 2])
    return gen


def shrink_concurrent(case):
    sc = case["scripts"]
    if len(sc) > 2:
        for i in range(len(sc)):
            yield dict(case, scripts=sc[:i] + sc[i + 1:])
    for i in range(len(sc)):
        if len(sc[i]) > 8:
            yield dict(case, scripts=sc[:i] + [sc[i][:len(sc[i]) // 2]] + sc[i + 1:])


# ------------------------------------------------------------------ atomicity certificate
BREAKERS = ("CALL", "JUMP_BACKWARD", "RESUME", "SEND", "YIELD", "FOR_ITER", "GET_ITER", "BEFORE_WITH", "BEFORE_ASYNC_WITH", "IMPORT")


def lock_held(ins, upto):
    """`with self.<...lock...>:` entered before instruction index upto (and the function has no other way in)."""
    for i in range(min(upto, len(ins)) - 1):
        if ins[i].opname == "LOAD_ATTR" and "lock" in str(ins[i].argval).lower() and ins[i + 1].opname == "BEFORE_WITH":
            return True
    return False


def certificate(fn, counter_name, is_attr):
    """(ok, text): the method runs under the storage lock, or there is no eval-breaker / python-code-running opcode
    between the first read and the write of the counter."""
    if hasattr(fn, "__wrapped__"):  # a decorator: accepted when it is `with self._lock: return method(...)`
        wins = list(dis.get_instructions(fn))
        calls = [i for i, x in enumerate(wins) if x.opname.startswith("CALL") and not x.opname.startswith("CALL_INTRINSIC")]
        if calls and lock_held(wins, calls[0]):
            return True, "synchronized wrapper: " + " ".join(x.opname for x in wins)
        fn = fn.__wrapped__
    ins = list(dis.get_instructions(fn))
    rd = wr = None
    for i, x in enumerate(ins):
        if is_attr:
            if x.opname == "LOAD_ATTR" and x.argval == counter_name and rd is None:
                rd = i
            if x.opname == "STORE_ATTR" and x.argval == counter_name:
                wr = i
        else:
            if x.opname == "LOAD_CONST" and x.argval == counter_name:
                j = i + 1
                while j < len(ins) and ins[j].opname in ("COPY", "SWAP"):
                    j += 1
                if j < len(ins) and ins[j].opname == "BINARY_SUBSCR" and rd is None:
                    rd = j
            if x.opname == "STORE_SUBSCR" and rd is not None and wr is None:
                wr = i
    text = " ".join(x.opname for x in ins)
    if rd is None or wr is None or wr < rd:
        return False, "cannot locate counter read/write of %s: %s" % (counter_name, text)
    if lock_held(ins, rd):
        return True, "lock taken before the counter read"
    bad = [x.opname for x in ins[rd:wr + 1] if x.opname.startswith(BREAKERS) and not x.opname.startswith("CALL_INTRINSIC")]
    return (not bad), ("between read@%d and write@%d: %s" % (rd, wr, " ".join(x.opname for x in ins[rd:wr + 1])))


# ---- atomicity from a lock: structural certificate (the theorems assume atomic operations) ----
METHOD_ARGS = {
    "create_new_search": (), "create_new_job": ("0",), "store_job": ("0.0", "k", 1), "store_job_in": ("0.0", (1,), {"a": 1}),
    "store_job_out": ("0.0", 1), "store_job_metadata": ("0.0", "k", 1), "load_all_search_ids": (), "load_all_job_ids": ("0",),
    "load_search": ("0",), "load_job": ("0.0",), "store_search_value": ("0", "k", 1), "load_search_value": ("0", "k"),
    "load_metadata_from_all_jobs": ("0", "k"), "load_out_from_all_jobs": ("0",), "load_jobs": (["0.0"],),
    "store_job_status": ("0.0", 1), "load_job_status": ("0.0",),
}


def is_lock(x):
    return x is not None and "lock" in type(x).__name__.lower() and hasattr(x, "acquire") and hasattr(x, "release")


def lock_attrs(obj):
    return sorted(k for k, v in vars(obj).items() if is_lock(v))


def data_methods():
    from deephyper.evaluator.storage import Storage

    return sorted(n for n in Storage.__abstractmethods__ if not n.startswith("_"))


def static_lock_facts(cls):
    """ast of the module that defines cls: names X used as `with self.X:`; violations of
    'X is bound only in __init__ / __setstate__ and its name appears nowhere as a string'. Fails closed (raises)."""
    import ast
    import inspect

    mod = inspect.getmodule(cls)
    tree = ast.parse(inspect.getsource(mod))
    with_names = set()
    for node in ast.walk(tree):
        if isinstance(node, (ast.With, ast.AsyncWith)):
            for it in node.items:
                e = it.context_expr
                if isinstance(e, ast.Attribute) and isinstance(e.value, ast.Name):
                    with_names.add(e.attr)
    bad = []

    def visit(node, fn):
        for ch in ast.iter_child_nodes(node):
            f2 = ch.name if isinstance(ch, (ast.FunctionDef, ast.AsyncFunctionDef)) else fn
            if isinstance(ch, ast.Attribute) and ch.attr in with_names and isinstance(ch.ctx, (ast.Store, ast.Del)) and fn not in ("__init__", "__setstate__"):
                bad.append("line %d: self.%s is (re)bound in %s" % (ch.lineno, ch.attr, fn or "<module>"))
            if isinstance(ch, ast.Constant) and isinstance(ch.value, str) and ch.value in with_names:
                bad.append("line %d: the name %r appears as a string in %s (setattr / __dict__ / state dictionary)" % (ch.lineno, ch.value, fn or "<module>"))
            visit(ch, f2)

    visit(tree, None)

    # every public data method runs ENTIRELY under the lock: its body (or the body of its decorator's wrapper) is one `with self.X:`
    def only_with(fn):
        body = [n for n in fn.body if not (isinstance(n, ast.Expr) and isinstance(getattr(n, "value", None), ast.Constant))]
        if len(body) != 1 or not isinstance(body[0], ast.With) or len(body[0].items) != 1:
            return False
        e = body[0].items[0].context_expr
        return isinstance(e, ast.Attribute) and isinstance(e.value, ast.Name) and e.attr in with_names

    sync_decorators = set()
    for node in tree.body:
        if isinstance(node, ast.FunctionDef):
            inner = [n for n in node.body if isinstance(n, ast.FunctionDef)]
            if len(inner) == 1 and only_with(inner[0]):
                sync_decorators.add(node.name)
    wanted = set(data_methods())
    for node in tree.body:
        if isinstance(node, ast.ClassDef) and node.name == cls.__name__:
            for fn in node.body:
                if isinstance(fn, ast.FunctionDef) and fn.name in wanted:
                    wanted.discard(fn.name)
                    decos = [d.id for d in fn.decorator_list if isinstance(d, ast.Name)]
                    if not (any(d in sync_decorators for d in decos) or only_with(fn)):
                        bad.append("line %d: %s does not run entirely under the lock (neither a synchronising decorator nor a body that is one `with self.<lock>:`)" % (fn.lineno, fn.name))
    for m in sorted(wanted):
        bad.append("%s is not defined in class %s" % (m, cls.__name__))
    return sorted(with_names), bad


def blocking_test(obj, names, hold=0.3):
    """Every data method, called from another thread while THIS thread holds the lock(s) of obj, must block until release."""
    import threading

    locks = [getattr(obj, k) for k in names]
    started = {m: threading.Event() for m in METHOD_ARGS}
    done = {m: threading.Event() for m in METHOD_ARGS}

    def call(m):
        started[m].set()
        try:
            getattr(obj, m)(*METHOD_ARGS[m])
        except Exception:
            pass
        finally:
            done[m].set()

    ths = []
    for l in locks:
        l.acquire()
    try:
        for m in METHOD_ARGS:
            t = threading.Thread(target=call, args=(m,), daemon=True)
            t.start()
            ths.append(t)
        for m in METHOD_ARGS:
            started[m].wait(20)
        time.sleep(hold)
        not_blocked = sorted(m for m in METHOD_ARGS if done[m].is_set())
    finally:
        for l in locks:
            l.release()
    for t in ths:
        t.join(20)
    stuck = sorted(m for m in METHOD_ARGS if not done[m].is_set())
    return not_blocked, stuck


def instance_certificate(obj, with_names, prepare=True):
    """Problems (list of str) with the lock discipline of one storage object. (i) is read BEFORE any operation."""
    probs = []
    names = lock_attrs(obj)
    for x in with_names:
        if x not in names:
            probs.append("attribute %s used by `with self.%s` is %r, not a lock, before the first operation" % (x, x, vars(obj).get(x, "<missing>")))
    if not names:
        probs.append("no lock object among the attributes %s" % sorted(vars(obj)))
        return probs
    before = {k: id(getattr(obj, k)) for k in names}
    if prepare:
        s0 = obj.create_new_search()
        j0 = obj.create_new_job(s0)
        if (s0, j0) != ("0", "0.0"):
            probs.append("unexpected first ids %r %r" % (s0, j0))
    not_blocked, stuck = blocking_test(obj, [x for x in with_names if x in names] or names)
    if not_blocked:
        probs.append("methods that ran while another thread held the lock: %s" % not_blocked)
    if stuck:
        probs.append("methods that never returned after the lock was released: %s" % stuck)
    after = {k: id(getattr(obj, k, None)) for k in names}
    if after != before:
        probs.append("the lock object was replaced during operations")
    return probs


def server_probe():
    """Runs INSIDE the manager's server process (registered on BaseManager by the harness): the storages it serves."""
    import gc

    from deephyper.evaluator.storage import MemoryStorage

    from multiprocessing.managers import Server

    with_names, _ = static_lock_facts(MemoryStorage)
    objs = []
    for srv in [o for o in gc.get_objects() if isinstance(o, Server)]:  # the objects this server really serves
        for ent in list(srv.id_to_obj.values()):
            if isinstance(ent[0], MemoryStorage):
                objs.append(ent[0])
    return dict(n=len(objs), problems=[p for o in objs for p in instance_certificate(o, with_names)])


def lock_certificate():
    """(ok, detail) - atomicity of every public data method from the storage lock, certified structurally."""
    import copy
    import pickle
    from multiprocessing.managers import BaseManager

    from deephyper.evaluator.storage import MemoryStorage

    detail = {}
    try:
        with_names, bad = static_lock_facts(MemoryStorage)
    except Exception as e:  # fail closed
        return False, dict(static="cannot analyse the source: %s: %s" % (type(e).__name__, e))
    detail["lock_names"] = with_names
    probs = list(bad)
    if not with_names:
        probs.append("no `with self.<lock>:` in the module")
    meths = data_methods()
    unknown = [m for m in meths if m not in METHOD_ARGS]
    if unknown:
        probs.append("public data methods unknown to the certificate: %s" % unknown)
    for m in meths:
        fn = getattr(MemoryStorage, m)
        if not hasattr(fn, "__wrapped__"):
            src_ok = lock_held(list(dis.get_instructions(fn)), 10 ** 6)
            if not src_ok:
                probs.append("%s is not wrapped and takes no lock" % m)
    # (i) a fresh storage owns its lock at once; also after pickling, deep copy, and a bare __setstate__
    fresh = MemoryStorage()
    variants = dict(fresh=fresh)
    try:
        variants["pickled"] = pickle.loads(pickle.dumps(MemoryStorage()))
        variants["deepcopied"] = copy.deepcopy(MemoryStorage())
        raw = MemoryStorage.__new__(MemoryStorage)
        raw.__setstate__(MemoryStorage().__getstate__())
        variants["setstate"] = raw
    except Exception as e:
        probs.append("pickle / deepcopy / __setstate__ raised %s: %s" % (type(e).__name__, e))
    for name, obj in variants.items():
        probs += ["%s storage: %s" % (name, p) for p in instance_certificate(obj, with_names)]
    # (iii) the object served by the SharedMemoryStorage manager, inspected in the server before any operation
    try:
        BaseManager.register("c13_probe", callable=server_probe)
        with Shared() as st:
            rep = st._manager.c13_probe().copy()
        if rep.get("n") != 1:
            probs.append("manager: expected one served MemoryStorage, found %r" % rep.get("n"))
        probs += ["served storage: %s" % p for p in rep.get("problems", [])]
        if BaseManager._registry.get("MemoryStorage", (None,))[0] is not MemoryStorage:
            probs.append("the manager does not serve deephyper's MemoryStorage class")
    except Exception as e:
        probs.append("manager probe failed: %s: %s" % (type(e).__name__, e))
    detail["problems"] = probs
    return (not probs), detail


def uses_lock():
    from deephyper.evaluator.storage import MemoryStorage

    try:
        with_names, _ = static_lock_facts(MemoryStorage)
    except Exception:
        return True
    return bool(with_names) or bool(lock_attrs(MemoryStorage())) or any(hasattr(getattr(MemoryStorage, m), "__wrapped__") for m in data_methods())


# ---- forced schedules (only after a broken certificate): two threads on a FRESH storage, interleaved with sys.settrace ----
def forced_pair(ka, kb, op):
    """Client A is held before the ka-th line it executes in the storage module until client B has reached its kb-th
    line there (or is blocked / finished); then A runs to the end and B is released.  Returns the two observed histories."""
    import threading

    from deephyper.evaluator.storage import MemoryStorage, _memory_storage

    fname = _memory_storage.__file__
    st = MemoryStorage()
    pre = []
    if op == "create_new_job":  # one search made through the API first (the storage is then no longer unused)
        pre = [[[T_CS], [1, parse_sid(st.create_new_search())]]]
    a_held, b_there, a_done = threading.Event(), threading.Event(), threading.Event()
    out = {}

    def tracer(k, action):
        state = dict(n=0, armed=True)

        def local(frame, event, arg):
            if event == "line" and state["armed"] and frame.f_code.co_filename == fname:
                state["n"] += 1
                if state["n"] == k:
                    state["armed"] = False
                    action()
            return local

        def glob(frame, event, arg):
            return local if frame.f_code.co_filename == fname else None

        return glob

    def run(name, k, action):
        sys.settrace(tracer(k, action))
        try:
            if op == "create_new_search":
                out[name] = [[T_CS], [1, parse_sid(st.create_new_search())]]
            else:
                out[name] = [[T_CJ, 0], [2, parse_jid(st.create_new_job("0"))]]
        except Exception as e:
            out[name] = [[T_CS], [11, 9]]
            out[name + "_exc"] = "%s: %s" % (type(e).__name__, e)
        finally:
            sys.settrace(None)

    def a_action():
        a_held.set()
        b_there.wait(0.3)

    def b_action():
        b_there.set()
        a_done.wait(5)

    def client_a():
        run("A", ka, a_action)
        a_done.set()

    def client_b():
        a_held.wait(5)
        run("B", kb, b_action)
        b_there.set()

    ta, tb = threading.Thread(target=client_a, daemon=True), threading.Thread(target=client_b, daemon=True)
    ta.start()
    tb.start()
    ta.join(20)
    tb.join(20)
    return pre, out


def check_forced(case):
    res = dict(ok=True, kind="oracle", clause="", sig={}, nontrivial=True, desc=["forced"])
    m = model()
    if case["type"] == "fresh_stress":
        import threading

        from deephyper.evaluator.storage import MemoryStorage

        old = sys.getswitchinterval()
        sys.setswitchinterval(1e-6)
        try:
            for trial in range(case["trials"]):
                st = MemoryStorage()
                bar = threading.Barrier(case["threads"])
                got = []

                def w():
                    try:
                        bar.wait(5)
                    except Exception:
                        pass
                    got.append([1, parse_sid(st.create_new_search())])

                ths = [threading.Thread(target=w, daemon=True) for _ in range(case["threads"])]
                for t in ths:
                    t.start()
                for t in ths:
                    t.join(20)
                if not m.call(F_FRESH, got):
                    return dict(res, ok=False, clause="fresh_ids", detail=dict(trial=trial, outputs=got, note="threads released together on a fresh MemoryStorage, switch interval 1e-6"))
        finally:
            sys.setswitchinterval(old)
        return res
    pre, out = forced_pair(case["ka"], case["kb"], case["op"])
    hist = [x[1] for x in pre] + [out[k][1] for k in ("A", "B") if k in out]
    if not m.call(F_FRESH, hist):
        return dict(res, ok=False, clause="fresh_ids", detail=dict(
            schedule="fresh MemoryStorage; client A held before its line %d in the storage module until client B reached its line %d; A finishes; B released" % (case["ka"], case["kb"]),
            op=case["op"], outputs=out))
    return res


def check_certificate(case):
    if case.get("type") == "stress":
        return check_concurrent(case)
    if case.get("type") in ("forced", "fresh_stress"):
        return check_forced(case)
    from deephyper.evaluator.storage import MemoryStorage, SharedMemoryStorage  # noqa: F401

    res = dict(ok=True, kind="corr", clause="", sig={}, nontrivial=True, desc=["certificate"])
    if uses_lock():
        ok, detail = lock_certificate()
        res["desc"] = ["certificate:lock"]
        if not ok:
            return dict(res, ok=False, clause="atomicity_certificate", detail=dict(detail,
                        note="operations are not certified atomic, so the atomic model (and C13_interleaving) does not describe the code; forced schedules and stress search follow"))
        return res
    res["desc"] = ["certificate:bytecode"]
    ok1, t1 = certificate(MemoryStorage.create_new_search, "_search_id_counter", True)
    ok2, t2 = certificate(MemoryStorage.create_new_job, "job_id_counter", False)
    if not (ok1 and ok2):
        return dict(res, ok=False, clause="atomicity_certificate", detail=dict(create_new_search=t1, create_new_job=t2,
                    note="the atomic model no longer describes the code; C13_nonatomic_refuted gives the schedule; stress search follows"))
    return res


def reader_writer_case(nwriters=2, nreaders=2, rounds=250):
    """Writers keep adding NEW keys to their own jobs, readers keep copying the whole search (a copy made outside the lock tears)."""
    w = [["new", 0]] * 4 + [[["meta", "store"][i % 2], i % 4, "fresh%d" % i, [i]] for i in range(rounds)]
    r = [["new", 0]] + [["loadsearch", 0], ["outall", 0], ["metaall", 0, "fresh1"], ["listjobs", 0]] * (rounds // 4)
    return dict(nsearch=1, pre=[[0, 3]], scripts=[w] * nwriters + [r] * nreaders, start="fork", switch=1e-6)


def gen_certificate(rng, tier):
    if tier == "search":
        for i in range(3):
            yield dict(reader_writer_case(2, 3, 400), type="stress")
        for op in ("create_new_search", "create_new_job"):
            for ka in range(1, 9):
                for kb in range(1, 11):
                    yield dict(type="forced", op=op, ka=ka, kb=kb)
        yield dict(type="fresh_stress", trials=1500, threads=3)
        for i in range(12):
            nc = 8
            yield dict(type="stress", nsearch=1, pre=[], scripts=[[["new", 0]] * 1500 for _ in range(nc)], start="fork", switch=1e-6)
    else:
        yield dict(type="cert")


# ------------------------------------------------------------------ the storage reached through Evaluator / Job
def make_recorder(inner, T):
    """A Storage that forwards every call to `inner` and records it, encoded AT THE TIME OF THE CALL, one call at a time."""
    import threading

    from deephyper.evaluator.storage import Storage

    class Recorder(Storage):
        def __init__(self):
            super().__init__()
            self.inner, self.log, self.mutex = inner, [], threading.RLock()
            self.connected = True

        def _connect(self):
            self.connected = True

    def forward(name):
        def method(self, *args, **kwargs):
            with self.mutex:  # the recorded order is the order of execution (thread evaluators)
                try:
                    r = getattr(self.inner, name)(*args, **kwargs)
                    self.log.append(list(encode_call(name, args, kwargs, r, None, T)))
                    return r
                except Exception as e:
                    self.log.append(list(encode_call(name, args, kwargs, None, e, T)))
                    raise
        return method

    for name in data_methods():
        setattr(Recorder, name, forward(name))
    Recorder.__abstractmethods__ = frozenset()
    return Recorder()


def encode_call(name, args, kwargs, r, exc, T):
    """One recorded call -> (model op, observed output), both in the model's encoding."""
    import inspect

    from deephyper.evaluator.storage import Storage

    ba = inspect.signature(getattr(Storage, name)).bind(None, *args, **kwargs)
    ba.apply_defaults()
    a = dict(ba.arguments)
    sid = lambda: parse_sid(a["search_id"])
    jid = lambda: parse_jid(a["job_id"])
    if exc is not None:
        out = [11, E_KEY if isinstance(exc, KeyError) else E_TYPE if isinstance(exc, TypeError) else E_ATTR if isinstance(exc, AttributeError) else 9]
    else:
        out = None
    none = [0, []] if r is None else [12, enc_val(r, T)]
    if name == "create_new_search":
        return [T_CS], out or [1, parse_sid(r)]
    if name == "create_new_job":
        return [T_CJ, sid()], out or [2, parse_jid(r)]
    if name == "store_job":
        return [T_SJ, jid(), T.tok(a["key"]), enc_fval(a["value"], T)], out or none
    if name == "store_job_in":
        return [T_SIN, jid(), enc_val(a["args"], T), enc_val(a["kwargs"], T)], out or none
    if name == "store_job_out":
        return [T_SOUT, jid(), enc_fval(a["value"], T)], out or none
    if name == "store_job_status":
        return [T_SSTAT, jid(), enc_fval(a["job_status"], T)], out or none
    if name == "store_job_metadata":
        return [T_SMETA, jid(), T.tok(a["key"]), enc_val(a["value"], T)], out or none
    if name == "store_search_value":
        return [T_SSV, sid(), T.tok(a["key"]), enc_fval(a["value"], T)], out or none
    if name == "load_all_search_ids":
        return [T_LSIDS], out or [3, [parse_sid(x) for x in r]]
    if name == "load_all_job_ids":
        return [T_LJIDS, sid()], out or [4, [parse_jid(x) for x in r]]
    if name == "load_search":
        return [T_LSEARCH, sid()], out or [9, [[parse_sid(p), enc_rec(x, T)] for p, x in r.items()]]
    if name == "load_job":
        return [T_LJOB, jid()], out or [8, enc_rec(r, T)]
    if name == "load_search_value":
        return [T_LSV, sid(), T.tok(a["key"])], out or [5, enc_fval(r, T)]
    if name == "load_metadata_from_all_jobs":
        return [T_LMETA, sid(), T.tok(a["key"])], out or [6, [enc_val(x, T) for x in r]]
    if name == "load_out_from_all_jobs":
        return [T_LOUT, sid()], out or [7, [enc_fval(x, T) for x in r]]
    if name == "load_jobs":
        return [T_LJOBS, [parse_jid(j) for j in a["job_ids"]]], out or [10, [[parse_jid(j), enc_rec(x, T)] for j, x in r.items()]]
    if name == "load_job_status":
        return [T_LSTAT, jid()], out or [5, enc_fval(r, T)]
    raise ValueError(name)


def ev_run_sync(job):
    x = job.parameters["x"]
    md = {"tag": [x, {"n": x}], "zero": 0, "empty": ""}
    if x % 4 == 1:
        return {"objective": float(x), "metadata": md}
    if x % 4 == 2:
        return {"objective": (float(x), 0.0), "metadata": md}
    if x % 4 == 3:
        return 0.0
    return float(-x)


async def ev_run_async(job):
    return ev_run_sync(job)


def check_evaluator(case):
    """Evaluators (serial / thread) drive the storage; every call they make is recorded and judged like a direct history."""
    from deephyper.evaluator import Evaluator, HPOJob
    from deephyper.evaluator.storage import MemoryStorage

    T = Tokens([])
    m = model()
    res = dict(ok=True, kind="oracle", clause="", sig=dict(edits_stored=True) if case.get("edit_after_submit") else {}, nontrivial=True,
               desc=["backend=" + case["backend"]] + ["method=" + r["method"] for r in case["rounds"]])

    def body(inner):
        rec = make_recorder(inner, T)
        submitted = []
        for rnd in case["rounds"]:
            fn = ev_run_async if rnd["method"] == "serial" else ev_run_sync
            ev = Evaluator.create(fn, method=rnd["method"], method_kwargs=dict(storage=rec, num_workers=rnd.get("workers", 1)))
            ev._job_class = HPOJob
            try:
                for batch in rnd["batches"]:
                    cfgs = [{"x": x, "name": "c%d" % x, "nested": {"l": [x]}} for x in batch]
                    ev.submit(cfgs)
                    submitted += cfgs
                    if case.get("edit_after_submit"):
                        for x in cfgs:  # the caller goes on using (editing) what it submitted
                            x["nested"]["l"].append("edited")
                    done = ev.gather("ALL")
                    for j in done:
                        _ = j.status
            finally:
                ev.close()
        # final audit through the recorder
        for sid_ in rec.load_all_search_ids():
            rec.load_all_job_ids(sid_)
            rec.load_search(sid_)
            rec.load_out_from_all_jobs(sid_)
        return rec.log

    if case["backend"] == "memory":
        log = body(MemoryStorage())
    else:
        with Shared() as st:
            log = body(st)
    hist = log
    res["desc"].append("calls~%d" % (len(hist) // 20 * 20))
    outs_ = [x for _, x in hist]
    if not m.call(F_FRESH, outs_):
        return dict(res, ok=False, clause="fresh_ids", detail=[x for x in outs_ if x[0] in (1, 2)])
    if not m.call(F_EXIST, hist):
        return dict(res, ok=False, clause="created_stays", detail=_first_model_diff(m, hist))
    if not m.call(F_RYW, hist):
        return dict(res, ok=False, clause="read_your_writes", detail=_first_model_diff(m, hist))
    d = _first_model_diff(m, hist)
    if d is not None:
        return dict(res, ok=False, kind="corr", clause="outputs", detail=d)
    return res


def _first_model_diff(m, hist):
    mouts = [canon_out(x) for x in m.call(F_RUN, [o for o, _ in hist])]
    cou = [canon_out(x) for _, x in hist]
    i = first_diff(cou, mouts)
    return None if i is None else dict(step=i, op=hist[i][0], impl=cou[i], model=mouts[i])


def gen_evaluator(count):
    def gen(rng, tier):
        for i in range(count if tier != "search" else 4 * count):
            rounds = []
            for _ in range(rng.randint(1, 3)):  # several evaluators (= several searches) on ONE storage
                rounds.append(dict(method=rng.choice(["serial", "thread"]), workers=rng.randint(1, 4),
                                   batches=[[rng.randint(0, 30) for _ in range(rng.randint(1, 5))] for _ in range(rng.randint(1, 3))]))
            yield dict(backend=["memory", "shared"][i % 2], rounds=rounds, edit_after_submit=(i % 4 >= 2))
    return gen


def shrink_evaluator(case):
    r = case["rounds"]
    for i in range(len(r)):
        if len(r) > 1:
            yield dict(case, rounds=r[:i] + r[i + 1:])
    for i in range(len(r)):
        b = r[i]["batches"]
        if len(b) > 1:
            yield dict(case, rounds=r[:i] + [dict(r[i], batches=b[:-1])] + r[i + 1:])


# ------------------------------------------------------------------ NullStorage (stores nothing; ids must still be unique)
def check_null(case):
    from deephyper.evaluator.storage import NullStorage

    st = NullStorage()
    T = Tokens([])
    outs_ = []
    for o in case["ops"]:
        if o[0] == "create_search":
            outs_.append([1, parse_sid(st.create_new_search())])
        elif o[0] == "create_job":
            outs_.append([2, parse_jid(st.create_new_job(sid_str(o[1])))])
        elif o[0] == "store_out":
            st.store_job_out(jid_str(o[1]), mk(o[2]))
    jobs = [x for x in outs_ if x[0] == 2]
    res = dict(ok=True, kind="oracle", clause="", sig={}, nontrivial=len(jobs) > 1, desc=["null"])
    if not model().call(F_FRESH, jobs):
        return dict(res, ok=False, clause="null_fresh_job_ids", detail=jobs)
    return res


def gen_null(rng, tier):
    for i in range(40):
        ops = [["create_search"]]
        for _ in range(rng.randint(1, 30)):
            ops.append(rng.choice([["create_job", 0], ["create_job", 0], ["store_out", [0, 0], 1], ["create_search"]]))
        yield dict(ops=ops)


def streams(tier):
    th = tier == "thorough"
    return [
        Stream("atomicity_certificate", gen_certificate, check_certificate, None, parallel=False, timeout=900),
        Stream("exhaustive", gen_exhaustive(5 if th else 4, 8000 if th else 1500), check_exhaustive, shrink_alpha, timeout=600),
        Stream("random_histories", gen_random(5000 if th else 1500, 200 if th else 60), check_history, shrink_ops, timeout=120),
        Stream("aliasing_store", gen_random(1200 if th else 150, 40, alias="store"), check_history, shrink_ops, timeout=120),
        Stream("aliasing_load", gen_random(1200 if th else 150, 40, alias="load"), check_history, shrink_ops, timeout=120),
        Stream("reserved_search_keys", gen_random(1500 if th else 200, 40, reserved=True), check_history, shrink_ops, timeout=120),
        Stream("concurrent_clients", gen_concurrent(64 if th else 16, 400 if th else 300, 8, 8 if th else 2), check_concurrent, shrink_concurrent, timeout=900),
        Stream("through_evaluator", gen_evaluator(200 if th else 32), check_evaluator, shrink_evaluator, timeout=300),
        Stream("null_storage", gen_null, check_null, None, timeout=30),
    ]
