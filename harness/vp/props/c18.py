"""C18 - Forest surrogate: mean and uncertainty obey the law of total variance.

Tie: functional correspondence.  Real forests (deephyper.skopt.learning.RandomForestRegressor / ExtraTreesRegressor) are
fitted; per query point the per-tree oracle values (m_t, v_t) = (tree.predict(x), tree.tree_.impurity[tree.apply(x)]) are
read from the fitted trees as exact rationals and sent - as integers on one common power-of-two scale per case - to the
extracted Coq model / oracles together with what predict() returned in its three request forms, for n_jobs = 1 and 4.
    oracle  (1802 clauses of ok_C18): finite, nonneg, mean_is_average, total_eq_al_plus_ep, aleatoric_is_avg_leaf_var,
                                      epistemic_is_var_of_means; (1804 ok_same): n_jobs
    corr    (1803): every returned value against the code-shaped model functions mean1/2/3, var_total, var_al, var_ep
sqrt is an oracle: standard deviations are compared through their (exact) squares.
Second stream: the 'd' acquisition variants receive exactly the epistemic standard deviation (1805 ok_lcb for LCB/LCBd,
metamorphic equality with a stub surrogate returning (mean, std_ep) for EI/PI/MES; predict_epistemic_std itself).
Stream lock_certificate: static certificate that every update of the shared accumulators in the joblib worker functions is inside
`with lock:` (see lock_certificate), plus a stress case (50 cheap trees, 300 000 query rows, n_jobs 4 and 8, repeated) whose selected
rows are judged by the same Coq oracles against the oracle from estimators_ and against the n_jobs=1 answer.
Third stream (forest_session, step-wise): ONE forest object and ONE query buffer through a script of operations - buffer
refilled in place, returned arrays edited by the caller, refit, warm start (estimators_ extended in place),
set_params(n_estimators=...) WITHOUT a fit (hyper-parameter and fitted trees disagree), estimators_ pruned / merged by hand, set_params /
attribute changes of min_variance and n_jobs, pickle / deepcopy / clone round trips, inputs as list / Fortran / view / float32 -
every predict step checked (same oracles) against the oracle read afresh from the current estimators_; plus input_mutated,
aliasing, n_trees, warm_start_keeps_trees, clone_params.  Model side: the session machine run/step (C18_session_* theorems).
"""
import math
import signal
import warnings
from fractions import Fraction

import numpy as np

from .. import driver
from ..driver import model
from ..runner import Stream

PROPERTY = "C18"
LEVEL = "proof"
FACTS = None
TRUSTED = [
    "ORACLE: scikit-learn's fitted trees - per query point (tree.predict(x), tree.tree_.impurity[tree.apply(x)]) is read from "
    "the real forest (estimators_) and is the model's input; tree fitting, float32 conversion of X and leaf lookup are not modelled",
    "ORACLE: sqrt (np.sqrt / **0.5): returned standard deviations are compared through their exact squares",
    "binary64 rounding of the implementation's sums is not modelled; it is bounded by tolerances proportional to the magnitudes "
    "the code adds and cancels: means 1e-12 * E|m|, variances 1e-9 * E[|max(v,minvar)| + m^2] (the cancellation in "
    "E[x^2]-E[x]^2 is the implementation's)",
    "float -> integer transfer on one power-of-two scale s per case (means, stds: x*s; impurities, min_variance: x*s^2), exact; "
    "that no verdict depends on s is proved: C18_scale_equivariant (model), C18_oracle/corr/same/lcb_scale_invariant (oracles)",
    "an attempt of a case that raises / exceeds 90 s is repeated up to 3 times and reported only if it fails every time (wrong values are "
    "never retried; retries show as 'retried_after:*' in the histogram)",
    "ATOMICITY: the theorems describe a sum over the trees in any order (C18_order_irrelevant, C18_chunks_irrelevant); that each worker "
    "thread's `out[i] += ...` on the shared accumulators is atomic (inside `with lock:` on one threading.Lock() shared by all jobs) is "
    "established on every run by the static certificate of stream lock_certificate (ast of the current forest.py, fail closed: an "
    "unrecognised shape is a correspondence break followed by a stress search), not by the Coq model; threading.Lock mutual exclusion "
    "and joblib joining all jobs before Parallel returns are trusted",
    "joblib threading backend (require='sharedmem') runs every delayed call exactly once; scipy.stats.norm and the global NumPy RNG "
    "(seeded identically for both sides) in the EI/PI/MES metamorphic comparison",
]
ASSUMPTIONS = [
    "single-output regression (the surrogate's use); criterion = squared_error",
    "min_variance >= 0 for the exact law (theorem hypothesis; C18_total_variance_needs_floor shows it cannot be dropped in the model); "
    "a few generated cases use a negative floor and are still checked against the model",
]
RULE = ("forest_session: a forest case plus 2-7 random operations, each followed by a predict step; "
        "forest_predict / acq_d: training set, query points, forest options and seed drawn from random.Random(seed/C18/stream); "
        "non-trivial = at least 2 trees and a query point where both the aleatoric and the epistemic part are > 0")

F_MODEL, F_CLAUSES, F_CORR, F_SAME, F_LCB, F_OK = 1801, 1802, 1803, 1804, 1805, 1806
EPS_M = [1, 10 ** 12]
EPS_V = [1, 10 ** 9]
CLAUSES = ["finite", "nonneg", "mean_is_average", "total_eq_al_plus_ep", "aleatoric_is_avg_leaf_var", "epistemic_is_var_of_means"]
CORR = ["mean_plain", "mean_std", "mean_dis", "var_total", "var_al", "var_ep"]


# ---------------------------------------------------------------- exact transfer
def _exp2(x):
    """smallest k >= 0 with x * 2^k an integer (x a finite float)"""
    return Fraction(x).denominator.bit_length() - 1


def common_scale(lin, quad):
    """k such that x*2^k (x in lin) and x*4^k (x in quad) are integers"""
    k = 0
    for x in lin:
        k = max(k, _exp2(x))
    for x in quad:
        k = max(k, (_exp2(x) + 1) // 2)
    return k


def to_int(x, k):
    v = Fraction(x) * (1 << k)
    assert v.denominator == 1
    return int(v)


def opt_int(x, k):
    """None (encoded []) for a non-finite float"""
    x = float(x)
    return [to_int(x, k)] if math.isfinite(x) else []


# ---------------------------------------------------------------- implementation side
def make_forest(case, n_jobs):
    from deephyper.skopt.learning import ExtraTreesRegressor, RandomForestRegressor

    o = case["opts"]
    kw = dict(n_estimators=o["n_estimators"], min_samples_split=o["min_samples_split"], min_samples_leaf=o["min_samples_leaf"],
              max_features=o["max_features"], max_depth=o["max_depth"], bootstrap=o["bootstrap"], random_state=o["seed"],
              min_variance=o["min_variance"], n_jobs=n_jobs)
    if o["cls"] == "RF":
        return RandomForestRegressor(splitter=o["splitter"], **kw)
    return ExtraTreesRegressor(**kw)


def fit_arrays(case, X=None, y=None):
    """training arrays as the caller hands them over: integer-typed for kind int_data"""
    X = np.array(case["X"] if X is None else X, dtype=float)
    y = np.array(case["y"] if y is None else y, dtype=float)
    if case["kind"] == "int_data" and np.array_equal(X, np.round(X)) and np.array_equal(y, np.round(y)):
        return X.astype(np.int64), y.astype(np.int64)
    return X, y


def observe(forest, Xq):
    """predict three ways -> (means[3][q], stds[3][q]) as numpy arrays, or a string naming a shape problem"""
    m0 = forest.predict(Xq)
    r1 = forest.predict(Xq, return_std=True)
    r2 = forest.predict(Xq, return_std=True, disentangled_std=True)
    if len(r1) != 2 or len(r2) != 3:
        return "tuple_arity"
    arrs = [m0, r1[0], r2[0], r1[1], r2[1], r2[2]]
    for a in arrs:
        if not isinstance(a, np.ndarray) or a.shape != (len(Xq),):
            return "shape"
    return [np.asarray(a, dtype=float) for a in arrs[:3]], [np.asarray(a, dtype=float) for a in arrs[3:]]


def oracle_trees(forest, Xq):
    M = np.array([t.predict(Xq) for t in forest.estimators_], dtype=float)          # T x q
    V = np.array([t.tree_.impurity[t.apply(Xq)] for t in forest.estimators_], dtype=float)
    return M, V


def describe(case, M=None, V=None):
    o = case["opts"]
    n = len(case["X"])
    T = o["n_estimators"]
    d = ["cls=" + o["cls"] + ("/" + o["splitter"] if o["cls"] == "RF" else ""), "bootstrap=%s" % o["bootstrap"], "kind=" + case["kind"],
         "scale=%g" % case["scale"], "n<=%d" % next(b for b in (2, 5, 20, 60, 200, 10 ** 9) if n <= b),
         "d=%d" % len(case["X"][0]), "T<=%d" % next(b for b in (1, 2, 5, 15, 50, 10 ** 9) if T <= b),
         "mss=%s" % o["min_samples_split"], "minvar=" + case["minvar_kind"]]
    if V is not None and (V < 0).any():
        d.append("neg_impurity")
    if V is not None:
        mv = float(o["min_variance"])
        if (((V < mv).any(axis=0)) & ((V > mv).any(axis=0))).any():
            d.append("mixed_floor")      # one query point with trees below AND above the floor
        if ((V == 0).any(axis=0) & (V > 0).any(axis=0)).any():
            d.append("mixed_pure_impure_leaves")
    return d


def first_false(names, bits):
    for nme, b in zip(names, bits):
        if not b:
            return nme
    if len(bits) != len(names):
        return names[0]
    return None


def check_predict(case):
    X, y = fit_arrays(case)
    Xq = np.array(case["Xq"], dtype=float)
    o = case["opts"]
    sig = dict(cls=o["cls"])
    nj1, nj4 = o.get("n_jobs_pair", [1, 4])      # sequential (1 / None) and threaded (2, 4, 8, -1; possibly more jobs than trees)
    with warnings.catch_warnings():
        warnings.simplefilter("ignore")
        f1 = make_forest(case, nj1).fit(X, y)
        f4 = make_forest(case, nj4).fit(X, y)
        ob1 = observe(f1, Xq)
        ob4 = observe(f4, Xq)
        # the same fitted object asked again with another n_jobs
        f1.n_jobs = nj4
        ob1b = observe(f1, Xq)
        f1.n_jobs = nj1
        M, V = oracle_trees(f1, Xq)
    res = dict(ok=True, kind="oracle", clause="", nontrivial=False, desc=describe(case, M, V) + ["n_jobs=%s/%s" % (nj1, nj4)], sig=sig)
    for ob in (ob1, ob4, ob1b):
        if isinstance(ob, str):
            return dict(res, ok=False, clause=ob, detail="predict returned an unexpected structure")
    minv = float(o["min_variance"])
    T, q = M.shape
    if T != o["n_estimators"] or not np.isfinite(M).all() or not np.isfinite(V).all():
        return dict(res, ok=False, clause="oracle_unreadable", detail="estimators_ has %d trees / non-finite oracle values" % T)
    fin = lambda arrs: [float(v) for a in arrs for v in a if math.isfinite(v)]
    lin = list(M.ravel())
    for ob in (ob1, ob4, ob1b):
        lin += fin(ob[0]) + fin(ob[1])
    k = common_scale(lin, list(V.ravel()) + [minv])
    trees = [[[to_int(M[t, j], k), to_int(V[t, j], 2 * k)] for t in range(T)] for j in range(q)]
    minv_i = to_int(minv, 2 * k)

    def enc(ob, j):
        return [[opt_int(a[j], k) for a in ob[0]], [opt_int(a[j], k) for a in ob[1]]]

    m = model()
    res["desc"].append("bits<=%d" % next(b for b in (64, 128, 256, 512, 1024, 10 ** 9) if max(1, max(abs(x) for tq in trees for tr in tq for x in tr)).bit_length() <= b))
    # ---- property clauses on every observation ----
    for name, ob in (("n_jobs=1", ob1), ("n_jobs=4", ob4), ("n_jobs=1->4", ob1b)):
        out = m.call(F_CLAUSES, [EPS_M, EPS_V, minv_i, [[trees[j]] + enc(ob, j) for j in range(q)]])
        okb = m.call(F_OK, [EPS_M, EPS_V, minv_i, [[trees[j]] + enc(ob, j) for j in range(q)]])
        for j in range(q):
            bad = first_false(CLAUSES, [bool(b) for b in out[j]])
            if bad is not None or not okb[j]:
                return dict(res, ok=False, clause=bad or "ok_C18", detail=dict(obs=name, query=j, means=[float(a[j]) for a in ob[0]], stds=[float(a[j]) for a in ob[1]],
                                                                               tree_means=[float(v) for v in M[:, j]], tree_impurities=[float(v) for v in V[:, j]], min_variance=minv))
    # ---- n_jobs: the observations agree ----
    for name, oa, ob in (("fit/predict n_jobs 1 vs 4", ob1, ob4), ("same forest, predict n_jobs 1 vs 4", ob1, ob1b)):
        same = m.call(F_SAME, [EPS_M, EPS_V, minv_i, [[trees[j]] + enc(oa, j) + enc(ob, j) for j in range(q)]])
        for j in range(q):
            if not same[j]:
                return dict(res, ok=False, clause="n_jobs", detail=dict(what=name, query=j, a=[float(a[j]) for a in oa[0] + oa[1]], b=[float(a[j]) for a in ob[0] + ob[1]]))
    # ---- correspondence with the code-shaped model ----
    for name, ob in (("n_jobs=1", ob1), ("n_jobs=4", ob4)):
        out = m.call(F_CORR, [EPS_M, EPS_V, minv_i, [[trees[j]] + enc(ob, j) for j in range(q)]])
        for j in range(q):
            bad = first_false(CORR, [bool(b) for b in out[j]])
            if bad is not None:
                mod = m.call(F_MODEL, [minv_i, [trees[j]]])[0]
                s = float(1 << k)
                modf = [mod[i][0] / mod[i][1] / (s if i < 3 else s * s) for i in range(6)]
                return dict(res, ok=False, kind="corr", clause=bad, detail=dict(obs=name, query=j, model=dict(zip(CORR, modf)),
                                                                                 impl_means=[float(a[j]) for a in ob[0]], impl_var=[float(a[j]) ** 2 for a in ob[1]]))
    # ---- bookkeeping for the evidence ----
    sa, se = ob1[1][1], ob1[1][2]
    res["nontrivial"] = bool(T >= 2 and ((sa > 0) & (se > 0)).any())
    if (ob1[1][0] == 0).any():
        res["desc"].append("some_total_std=0")
    if ((sa > 0) & (se > 0)).any():
        res["desc"].append("al>0&ep>0")
    return res


# ---------------------------------------------------------------- acquisition 'd' variants
class _Stub:
    """surrogate that returns fixed (mu, std) - what a 'd' variant must be equivalent to with std = std_ep"""

    def __init__(self, mu, std):
        self.mu, self.std = mu, std

    def predict(self, X, return_std=False, disentangled_std=False):
        if disentangled_std:
            raise AssertionError("stub asked for the disentangled form")
        return (self.mu.copy(), self.std.copy()) if return_std else self.mu.copy()


class _PlainStub:
    """a surrogate that cannot disentangle (like GP): predict has no disentangled_std parameter"""

    def __init__(self, mu, std):
        self.mu, self.std = mu, std

    def predict(self, X, return_std=False):
        return (self.mu.copy(), self.std.copy()) if return_std else self.mu.copy()


def check_acq(case):
    from deephyper.skopt import acquisition as A

    X, y = fit_arrays(case)
    Xq = np.array(case["Xq"], dtype=float)
    o = case["opts"]
    kappa = case["kappa"]          # float or "inf"
    sig = dict(cls=o["cls"])
    with warnings.catch_warnings():
        warnings.simplefilter("ignore")
        f = make_forest(case, o.get("n_jobs", 1)).fit(X, y)
        ob = observe(f, Xq)
        M, V = oracle_trees(f, Xq)
    res = dict(ok=True, kind="oracle", clause="", nontrivial=False, desc=describe(case, M, V) + ["kappa=%s" % ("inf" if kappa == "inf" else "num")], sig=sig)
    if isinstance(ob, str):
        return dict(res, ok=False, clause=ob, detail="predict returned an unexpected structure")
    (m0, m1, m2), (st, sa, se) = ob
    minv = float(o["min_variance"])
    T, q = M.shape
    with warnings.catch_warnings():
        warnings.simplefilter("ignore")
        lcb_d = np.asarray(A.gaussian_lcb(Xq, f, kappa, deterministic=True), dtype=float)
        lcb_t = np.asarray(A.gaussian_lcb(Xq, f, kappa, deterministic=False), dtype=float)
        kw = dict(kappa=kappa, xi=case["xi"])
        w_d = np.asarray(A._gaussian_acquisition(Xq, f, y_opt=case["y_opt"], acq_func="LCBd", acq_func_kwargs=kw), dtype=float)
        w_t = np.asarray(A._gaussian_acquisition(Xq, f, y_opt=case["y_opt"], acq_func="LCB", acq_func_kwargs=kw), dtype=float)
    for a in (lcb_d, lcb_t, w_d, w_t):
        if a.shape != (q,) or not np.isfinite(a).all():
            return dict(res, ok=False, clause="acq_finite", detail=[float(v) for v in np.ravel(a)][:20])
    finl = [float(v) for a in (m0, m1, m2, st, sa, se, lcb_d, lcb_t, w_d, w_t) for v in a if math.isfinite(v)]
    k = common_scale(list(M.ravel()) + finl, list(V.ravel()) + [minv])
    trees = [[[to_int(M[t, j], k), to_int(V[t, j], 2 * k)] for t in range(T)] for j in range(q)]
    minv_i = to_int(minv, 2 * k)
    m = model()
    # the surrogate's outputs that the acquisition receives satisfy the property (so std_ep IS the epistemic part)
    arg = [EPS_M, EPS_V, minv_i, [[trees[j], [opt_int(a[j], k) for a in (m0, m1, m2)], [opt_int(a[j], k) for a in (st, sa, se)]] for j in range(q)]]
    okb = m.call(F_OK, arg)
    if not all(okb):
        j = [bool(b) for b in okb].index(False)
        bad = first_false(CLAUSES, [bool(b) for b in m.call(F_CLAUSES, arg)[j]])
        return dict(res, ok=False, clause=bad or "ok_C18", detail=dict(query=j, means=[float(a[j]) for a in (m0, m1, m2)], stds=[float(a[j]) for a in (st, sa, se)]))
    kap = [] if kappa == "inf" else [list(Fraction(float(kappa)).as_integer_ratio())]
    for clause, acq, mu, sd in (("lcbd_uses_epistemic", lcb_d, m2, se), ("lcb_uses_total", lcb_t, m1, st),
                                ("LCBd_wrapper", w_d, m2, se), ("LCB_wrapper", w_t, m1, st)):
        okl = m.call(F_LCB, [EPS_M, kap, [[to_int(mu[j], k), to_int(sd[j], k), to_int(acq[j], k)] for j in range(q)]])
        if not all(okl):
            j = [bool(b) for b in okl].index(False)
            return dict(res, ok=False, clause=clause, detail=dict(query=j, acq=float(acq[j]), mu=float(mu[j]), std=float(sd[j]), std_total=float(st[j]), std_al=float(sa[j]), std_ep=float(se[j]), kappa=kappa))
    # the helper every 'd' variant (and qLCBd in the optimizer) goes through hands out exactly (mean, std_ep) of the forest,
    # and the total std for a surrogate that cannot disentangle
    pes = getattr(A, "predict_epistemic_std", None)
    if pes is not None:
        with warnings.catch_warnings():
            warnings.simplefilter("ignore")
            r = pes(f, Xq)
            r2 = pes(_PlainStub(m1, st), Xq)
        if len(r) != 2 or not np.array_equal(r[0], m2) or not np.array_equal(r[1], se):
            return dict(res, ok=False, clause="predict_epistemic_std", detail=dict(returned=[[float(v) for v in a][:5] for a in r], mean=[float(v) for v in m2][:5], std_ep=[float(v) for v in se][:5]))
        if len(r2) != 2 or not np.array_equal(r2[0], m1) or not np.array_equal(r2[1], st):
            return dict(res, ok=False, clause="predict_epistemic_std_fallback", detail="a surrogate without disentangled_std must give its total std")
    # EI / PI / MES: the 'd' variant == the plain variant on a surrogate whose std is std_ep (bitwise: same code after the selection)
    stub = _Stub(m2, se)
    for name, fn, kws in (("EId", A.gaussian_ei, dict(y_opt=case["y_opt"], xi=case["xi"])), ("PId", A.gaussian_pi, dict(y_opt=case["y_opt"], xi=case["xi"])),
                          ("MESd", A.gaussian_mes, dict())):
        with warnings.catch_warnings():
            warnings.simplefilter("ignore")
            np.random.seed(case["np_seed"])
            a = np.asarray(fn(Xq, f, deterministic=True, **kws), dtype=float)
            np.random.seed(case["np_seed"])
            b = np.asarray(fn(Xq, stub, deterministic=False, **kws), dtype=float)
        if a.shape != b.shape or not np.array_equal(a, b, equal_nan=True):
            return dict(res, ok=False, clause=name + "_uses_epistemic", detail=dict(d_variant=[float(v) for v in a][:10], on_std_ep=[float(v) for v in b][:10]))
    # the case can tell epistemic from total / aleatoric only when they differ
    res["nontrivial"] = bool(T >= 2 and ((sa > 0) & (se > 0)).any())
    return res



# ---------------------------------------------------------------- ONE forest object used repeatedly (session stream)
def verify_obs(res, m, f, Xq, ob, minv, expect_T, tag):
    """all property clauses + correspondence for one observation of forest f at Xq, against a FRESH read of the oracle;
    returns a failure dict or None"""
    if isinstance(ob, str):
        return dict(res, ok=False, clause=ob, detail=dict(step=tag, what="predict returned an unexpected structure"))
    M, V = oracle_trees(f, Xq)
    T, q = M.shape
    if T != expect_T:
        return dict(res, ok=False, clause="n_trees", detail=dict(step=tag, estimators=T, expected=expect_T))
    if not np.isfinite(M).all() or not np.isfinite(V).all():
        return dict(res, ok=False, clause="oracle_unreadable", detail=dict(step=tag))
    fin = [float(v) for a in ob[0] + ob[1] for v in a if math.isfinite(v)]
    k = common_scale(list(M.ravel()) + fin, list(V.ravel()) + [minv])
    trees = [[[to_int(M[t, j], k), to_int(V[t, j], 2 * k)] for t in range(T)] for j in range(q)]
    arg = [EPS_M, EPS_V, to_int(minv, 2 * k), [[trees[j], [opt_int(a[j], k) for a in ob[0]], [opt_int(a[j], k) for a in ob[1]]] for j in range(q)]]
    okb = m.call(F_OK, arg)
    out = m.call(F_CLAUSES, arg)
    for j in range(q):
        bad = first_false(CLAUSES, [bool(b) for b in out[j]])
        if bad is not None or not okb[j]:
            return dict(res, ok=False, clause=bad or "ok_C18", detail=dict(step=tag, query=j, means=[float(a[j]) for a in ob[0]], stds=[float(a[j]) for a in ob[1]],
                                                                           tree_means=[float(v) for v in M[:, j]], tree_impurities=[float(v) for v in V[:, j]], min_variance=minv))
    out = m.call(F_CORR, arg)
    for j in range(q):
        bad = first_false(CORR, [bool(b) for b in out[j]])
        if bad is not None:
            return dict(res, ok=False, kind="corr", clause=bad, detail=dict(step=tag, query=j, means=[float(a[j]) for a in ob[0]], stds=[float(a[j]) for a in ob[1]]))
    return None


def _as_input(buf, how):
    """the same query values handed over in another container / layout / dtype"""
    if how == "buf":
        return buf
    if how == "list":
        return buf.tolist()
    if how == "fortran":
        return np.asfortranarray(buf)
    if how == "view":  # non-contiguous view of a larger array
        big = np.zeros((buf.shape[0] * 2, buf.shape[1] + 1))
        big[::2, 1:] = buf
        return big[::2, 1:]
    if how == "f32":  # what the trees see anyway
        return buf.astype(np.float32)
    raise ValueError(how)


def check_session(case):
    """Script of operations on ONE forest object and ONE query buffer.  After every predict step the three request forms are
    checked against the oracle read afresh from the object's current estimators_ at the buffer's current content, so any
    state that survives a call (memo keyed on identity, stale accumulator, result arrays handed out twice) shows."""
    import copy
    import pickle

    import sklearn.base

    o = case["opts"]
    sig = dict(cls=o["cls"])
    X, y = fit_arrays(case)
    buf = np.array(case["Xq"], dtype=float)          # the caller's buffer: same object, refilled in place
    minv, T, njobs = float(o["min_variance"]), o["n_estimators"], 1
    param_T = T        # the hyper-parameter n_estimators; T = number of trees actually in estimators_
    res = dict(ok=True, kind="oracle", clause="", nontrivial=False, desc=describe(case) + ["ops=%d" % len(case["ops"])], sig=sig)
    m = model()
    with warnings.catch_warnings():
        warnings.simplefilter("ignore")
        f = make_forest(case, 1).fit(X, y)
        last = None
        npred = 0
        for i, op in enumerate(case["ops"]):
            kind = op["op"]
            tag = "%d:%s" % (i, kind)
            res["desc"].append("op=" + kind)
            if kind == "predict":
                Xin = _as_input(buf, op.get("how", "buf"))
                before = np.array(buf, copy=True)
                before_in = np.array(Xin, copy=True) if isinstance(Xin, np.ndarray) else copy.deepcopy(Xin)
                ob = observe(f, Xin)
                same_in = np.array_equal(before_in, Xin) if isinstance(Xin, np.ndarray) else before_in == Xin
                if not np.array_equal(before, buf) or not same_in:
                    return dict(res, ok=False, clause="input_mutated", detail=dict(step=tag))
                bad = verify_obs(res, m, f, buf, ob, minv, T, tag)
                if bad is not None:
                    return bad
                arrs = ob[0] + ob[1]
                for a_i in range(len(arrs)):
                    if isinstance(Xin, np.ndarray) and np.shares_memory(arrs[a_i], Xin):
                        return dict(res, ok=False, clause="aliasing", detail=dict(step=tag, what="output shares memory with the input"))
                    for b_i in range(a_i):
                        if np.shares_memory(arrs[a_i], arrs[b_i]):
                            return dict(res, ok=False, clause="aliasing", detail=dict(step=tag, what="two outputs share memory", which=[b_i, a_i]))
                    if last is not None and any(np.shares_memory(arrs[a_i], b) for b in last):
                        return dict(res, ok=False, clause="aliasing", detail=dict(step=tag, what="output shares memory with an earlier result"))
                last = arrs
                npred += 1
                sa, se = ob[1][1], ob[1][2]
                if T >= 2 and ((sa > 0) & (se > 0)).any():
                    res["nontrivial"] = True
            elif kind == "scribble":      # the caller edits what it got back (gaussian_mes does: mu *= -1)
                if last is not None:
                    for a in last:
                        if a.flags.writeable:
                            a *= -1.0
                            a += 7.0
            elif kind == "refill":        # new query values written into the SAME buffer
                buf[...] = np.array(op["Xq"], dtype=float)
            elif kind == "refit":         # fit() again on the same object, other data
                X, y = np.array(op["X"], dtype=float), np.array(op["y"], dtype=float)
                f.set_params(warm_start=False)
                f.fit(X, y)
                T = param_T
            elif kind == "set_n_estimators":   # hyper-parameter changed on a fitted forest, NO fit (warm-start protocol before the next fit)
                param_T = int(op["value"])
                f.set_params(n_estimators=param_T)
                res["desc"].append("n_estimators_%s_fitted" % ("above" if param_T > T else "below" if param_T < T else "equals"))
            elif kind == "drop_tree":          # estimators_ pruned by hand
                if T >= 2:
                    del f.estimators_[op["index"] % T]
                    T -= 1
            elif kind == "merge_forest":       # another forest's trees appended by hand
                c2 = dict(case, opts=dict(o, n_estimators=op["extra"], seed=op["seed"]))
                f2 = make_forest(c2, 1).fit(X, y)
                if op.get("how") == "new_list":
                    f.estimators_ = list(f.estimators_) + list(f2.estimators_)
                else:
                    f.estimators_.extend(f2.estimators_)
                T += op["extra"]
            elif kind == "warm":          # estimators_ is extended in place
                probe = np.array(buf, copy=True)
                M0, V0 = oracle_trees(f, probe)
                lst = f.estimators_
                f.set_params(warm_start=True, n_estimators=T + op["extra"])
                f.fit(X, y)
                T += op["extra"]
                param_T = T
                M1, V1 = oracle_trees(f, probe)
                if len(f.estimators_) != T or not np.array_equal(M1[:M0.shape[0]], M0) or not np.array_equal(V1[:V0.shape[0]], V0):
                    return dict(res, ok=False, clause="warm_start_keeps_trees", detail=dict(step=tag, estimators=len(f.estimators_), expected=T))
                res["desc"].append("warm_same_list=%s" % (lst is f.estimators_))
            elif kind == "set_minvar":
                minv = float(op["value"])
                if op.get("via") == "attr":
                    f.min_variance = minv
                else:
                    f.set_params(min_variance=minv)
            elif kind == "set_njobs":
                njobs = op["value"]
                f.n_jobs = njobs
            elif kind in ("pickle", "deepcopy"):
                f = pickle.loads(pickle.dumps(f)) if kind == "pickle" else copy.deepcopy(f)
            elif kind == "clone_fit":     # get_params / set_params round trip, then the same fit
                before = dict(min_variance=f.min_variance, splitter=getattr(f, "splitter", None), n_estimators=f.n_estimators, n_jobs=f.n_jobs)
                f = sklearn.base.clone(f)
                after = dict(min_variance=f.min_variance, splitter=getattr(f, "splitter", None), n_estimators=f.n_estimators, n_jobs=f.n_jobs)
                if before != after:
                    return dict(res, ok=False, clause="clone_params", detail=dict(step=tag, before=before, after=after))
                f.set_params(warm_start=False)
                f.fit(X, y)
                T = param_T
            else:
                raise ValueError(kind)
    res["desc"].append("predicts=%d" % npred)
    return res


def gen_session(count):
    def gen(rng, tier):
        k = count if tier != "search" else count * 2
        for i in range(k):
            c = gen_case(rng, small=(tier == "search" or i % 3 == 2))
            if len(c["X"]) > 60:
                c["X"], c["y"] = c["X"][:60], c["y"][:60]
            c["opts"]["n_estimators"] = min(c["opts"]["n_estimators"], 15)
            d, nq, scale = len(c["X"][0]), len(c["Xq"]), c["scale"]
            ops = [dict(op="predict", how="buf")]
            for _ in range(rng.randint(2, 7)):
                r = rng.random()
                if r < 0.15:
                    ops.append(dict(op="refill", Xq=gen_queries(rng, c["X"], nq)))
                elif r < 0.25:
                    ops.append(dict(op="scribble"))
                elif r < 0.36:
                    ops.append(dict(op="set_n_estimators", value=rng.choice([1, 2, 3, 5, 8, 20, 40])))
                elif r < 0.42:
                    ops.append(dict(op="drop_tree", index=rng.randrange(64)))
                elif r < 0.48:
                    ops.append(dict(op="merge_forest", extra=rng.randint(1, 4), seed=rng.randrange(2 ** 31), how=rng.choice(["extend", "new_list"])))
                elif r < 0.53:
                    ops.append(dict(op="warm", extra=rng.randint(1, 4)))
                elif r < 0.58:
                    n2 = rng.choice([2, 3, 5, 12, 30])
                    X2, y2 = gen_data(rng, n2, d, rng.choice(KINDS), scale)
                    ops.append(dict(op="refit", X=X2, y=y2))
                elif r < 0.70:
                    ops.append(dict(op="set_minvar", value=rng.choice([0.0, 1e-12, 1e-3, 2.5]) * scale * scale, via=rng.choice(["attr", "params"])))
                elif r < 0.80:
                    ops.append(dict(op="set_njobs", value=rng.choice([None, 1, 2, 4, -1])))
                elif r < 0.90:
                    ops.append(dict(op=rng.choice(["pickle", "deepcopy"])))
                else:
                    ops.append(dict(op="clone_fit"))
                ops.append(dict(op="predict", how=rng.choice(["buf", "buf", "buf", "list", "fortran", "view", "f32"])))
                if rng.random() < 0.3:   # the same question twice in a row
                    ops.append(dict(op="predict", how="buf"))
            c["ops"] = ops
            yield c
    return gen


def shrink_session(case):
    ops = case["ops"]
    for i in range(len(ops)):
        if len(ops) > 1:
            yield dict(case, ops=ops[:i] + ops[i + 1:])
    for c in shrink(case):
        if len(c["Xq"]) == len(case["Xq"]) and len(c["X"][0]) == len(case["X"][0]):   # refill / refit data keep their shapes
            yield c


# ---------------------------------------------------------------- atomicity of the accumulation: static certificate + stress
# The theorems (C18_order_irrelevant / C18_chunks_irrelevant) are about a SUM over the trees taken in any order.  With
# n_jobs > 1 the code realises that sum by worker threads doing `out[i] += ...` on shared arrays; numpy releases the GIL inside
# large element-wise loops, so an update outside the lock can be lost.  That every update is atomic is established per run by
# this certificate (ast of the CURRENT forest.py, fail closed), not by the Coq model.
def lock_certificate(repo_src=None):
    """(ok, problems, info).  Requirements, for every function of skopt/learning/forest.py that is handed to joblib
    (`delayed(f)(...)` inside a `Parallel(...)(...)` call):
      * f is a module-level function with parameters named `out` and `lock`;
      * every occurrence of `out`, and of any name bound to something computed from `out`, lies inside a `with lock:` block of f
        (so every read-modify-write of the shared accumulators is inside the critical section);
      * at the call site, the `lock` argument is a name bound exactly once in the caller, to `threading.Lock()` (or RLock), before
        the Parallel call, the same object for all trees, and Parallel is asked for shared memory (require="sharedmem");
      * f does not rebind `lock`.
    A module without any Parallel call has nothing to certify.  Anything else is an unrecognised shape -> not certified."""
    import ast
    import os

    if repo_src is None:
        import deephyper.skopt.learning.forest as F

        path = F.__file__
    else:
        path = os.path.join(repo_src, "deephyper", "skopt", "learning", "forest.py")
    tree = ast.parse(open(path).read())
    funcs = {n.name: n for n in tree.body if isinstance(n, ast.FunctionDef)}
    problems, info = [], dict(file=path, parallel_sites=0, certified=[])

    def names_in(node):
        return {n.id for n in ast.walk(node) if isinstance(n, ast.Name)}

    def check_worker(fn):
        params = [a.arg for a in fn.args.posonlyargs + fn.args.args + fn.args.kwonlyargs]
        if "out" not in params or "lock" not in params or fn.args.vararg or fn.args.kwarg:
            return ["%s: parameters %r - expected explicit `out` and `lock`" % (fn.name, params)]
        probs = []
        # names tainted by the shared accumulators (fixpoint over simple bindings)
        tainted = {"out"}
        changed = True
        while changed:
            changed = False
            for n in ast.walk(fn):
                tgts, val = [], None
                if isinstance(n, ast.Assign):
                    tgts, val = n.targets, n.value
                elif isinstance(n, (ast.AugAssign, ast.AnnAssign)):
                    tgts, val = [n.target], n.value
                elif isinstance(n, ast.NamedExpr):
                    tgts, val = [n.target], n.value
                elif isinstance(n, (ast.For, ast.comprehension)):
                    tgts, val = [n.target], n.iter
                elif isinstance(n, ast.withitem) and n.optional_vars is not None:
                    tgts, val = [n.optional_vars], n.context_expr
                if val is not None and names_in(val) & tainted:
                    for t in tgts:
                        for nm in names_in(t):
                            if nm not in tainted:
                                tainted.add(nm)
                                changed = True
        if "lock" in tainted:
            probs.append("%s: `lock` is derived from the accumulators" % fn.name)

        def visit(node, locked):
            if isinstance(node, ast.With):
                is_lock = any(isinstance(it.context_expr, ast.Name) and it.context_expr.id == "lock" and it.optional_vars is None for it in node.items)
                for it in node.items:
                    visit(it.context_expr, locked)
                for b in node.body:
                    visit(b, locked or is_lock)
                return
            if isinstance(node, (ast.FunctionDef, ast.AsyncFunctionDef, ast.Lambda, ast.ClassDef)) and node is not fn:
                probs.append("%s: nested function / class at line %d (unrecognised shape)" % (fn.name, node.lineno))
                return
            if isinstance(node, ast.Name):
                if node.id in tainted and not locked:
                    probs.append("%s line %d: `%s` (shared accumulator) is used outside `with lock:`" % (fn.name, node.lineno, node.id))
                if node.id == "lock" and isinstance(node.ctx, (ast.Store, ast.Del)):
                    probs.append("%s line %d: `lock` is rebound" % (fn.name, node.lineno))
            if isinstance(node, (ast.Global, ast.Nonlocal)):
                probs.append("%s line %d: global / nonlocal state" % (fn.name, node.lineno))
            for ch in ast.iter_child_nodes(node):
                visit(ch, locked)

        for st in fn.body:
            visit(st, False)
        return probs

    for caller in [n for n in ast.walk(tree) if isinstance(n, ast.FunctionDef)]:
        for call in [n for n in ast.walk(caller) if isinstance(n, ast.Call)]:
            # Parallel(...)( generator ) : the outer call's func is itself a call of Parallel
            if not (isinstance(call.func, ast.Call) and isinstance(call.func.func, (ast.Name, ast.Attribute))
                    and (getattr(call.func.func, "id", None) or getattr(call.func.func, "attr", None)) == "Parallel"):
                continue
            info["parallel_sites"] += 1
            where = "%s line %d" % (caller.name, call.lineno)
            if caller.name not in funcs or funcs[caller.name] is not caller:
                problems.append("%s: Parallel call in a nested function / method (unrecognised shape)" % where)
                continue
            kw = {k.arg: k.value for k in call.func.keywords}
            if not (isinstance(kw.get("require"), ast.Constant) and kw["require"].value == "sharedmem"):
                problems.append("%s: Parallel without require='sharedmem'" % where)
            if len(call.args) != 1 or not isinstance(call.args[0], ast.GeneratorExp):
                problems.append("%s: argument of Parallel(...) is not one generator expression" % where)
                continue
            elt = call.args[0].elt
            if not (isinstance(elt, ast.Call) and isinstance(elt.func, ast.Call) and isinstance(elt.func.func, ast.Name) and elt.func.func.id == "delayed"
                    and len(elt.func.args) == 1 and isinstance(elt.func.args[0], ast.Name) and not elt.func.keywords):
                problems.append("%s: job is not `delayed(<function name>)(...)`" % where)
                continue
            wname = elt.func.args[0].id
            if wname not in funcs:
                problems.append("%s: worker `%s` is not a module-level function of forest.py" % (where, wname))
                continue
            w = funcs[wname]
            wp = check_worker(w)
            problems += wp
            # the lock handed to the workers
            params = [a.arg for a in w.args.posonlyargs + w.args.args]
            lock_arg = None
            if any(isinstance(a, ast.Starred) for a in elt.args) or any(k.arg is None for k in elt.keywords):
                problems.append("%s: * / ** arguments in the job call" % where)
                continue
            if "lock" in params and params.index("lock") < len(elt.args):
                lock_arg = elt.args[params.index("lock")]
            for k in elt.keywords:
                if k.arg == "lock":
                    lock_arg = k.value
            if not isinstance(lock_arg, ast.Name):
                problems.append("%s: the lock argument is not a plain name" % where)
                continue
            gen_targets = set()
            for g in call.args[0].generators:
                gen_targets |= names_in(g.target)
            if lock_arg.id in gen_targets:
                problems.append("%s: the lock varies with the loop variable" % where)
            binds = [n for n in ast.walk(caller) if isinstance(n, (ast.Assign, ast.AugAssign, ast.AnnAssign, ast.NamedExpr, ast.For, ast.withitem, ast.comprehension))
                     and lock_arg.id in names_in(getattr(n, "targets", None) and ast.Tuple(elts=list(n.targets), ctx=ast.Store()) or getattr(n, "target", None) or getattr(n, "optional_vars", None) or ast.Tuple(elts=[], ctx=ast.Store()))]
            okbind = (len(binds) == 1 and isinstance(binds[0], ast.Assign) and len(binds[0].targets) == 1 and isinstance(binds[0].targets[0], ast.Name)
                      and isinstance(binds[0].value, ast.Call) and not binds[0].value.args and not binds[0].value.keywords
                      and isinstance(binds[0].value.func, ast.Attribute) and isinstance(binds[0].value.func.value, ast.Name)
                      and binds[0].value.func.value.id == "threading" and binds[0].value.func.attr in ("Lock", "RLock")
                      and binds[0] in caller.body and binds[0].lineno < call.lineno
                      and lock_arg.id not in [a.arg for a in caller.args.args + caller.args.kwonlyargs])
            if not okbind:
                problems.append("%s: `%s` is not bound exactly once, at the top level of %s, to threading.Lock() before the Parallel call" % (where, lock_arg.id, caller.name))
            if not wp:
                info["certified"].append("%s -> %s" % (caller.name, wname))
    # any other use of threads in the module is outside what the certificate understands
    for n in ast.walk(tree):
        if isinstance(n, ast.Attribute) and isinstance(n.value, ast.Name) and n.value.id == "threading" and n.attr not in ("Lock", "RLock"):
            problems.append("line %d: threading.%s (unrecognised shape)" % (n.lineno, n.attr))
    return (not problems), problems, info


def stress_forest(case):
    from deephyper.skopt.learning import ExtraTreesRegressor, RandomForestRegressor

    rs = np.random.RandomState(case["seed"])
    n = case["n_train"]
    Xtr = rs.uniform(-1, 1, size=(n, 1))
    ytr = 3.0 + np.sin(3 * Xtr[:, 0]) + 0.3 * rs.randn(n)
    kw = dict(n_estimators=case["trees"], min_samples_split=10, bootstrap=True, min_variance=1e-3, random_state=case["seed"], n_jobs=1)
    f = (RandomForestRegressor(splitter="random", **kw) if case["cls"] == "RF" else ExtraTreesRegressor(**kw)).fit(Xtr, ytr)
    Xq = rs.uniform(-1, 1, size=(case["rows"], 1))
    return f, Xq


def check_lock(case):
    """type=cert: the static certificate (a break is a correspondence break: the atomic-sum model no longer describes the code).
    type=stress: many cheap trees, a LARGE query array, n_jobs in case['n_jobs'], several rounds.  Rows are SELECTED in numpy (where
    the threaded answer is farthest from the sequential one, plus fixed rows); the verdict on the selected rows is the Coq oracles'
    (property clauses on the threaded observation against the oracle read from estimators_, ok_same against n_jobs=1)."""
    if case.get("type") == "cert":
        ok, problems, info = lock_certificate()
        res = dict(ok=True, kind="corr", clause="", sig={}, nontrivial=True, desc=["certificate", "parallel_sites=%d" % info["parallel_sites"]] + ["certified:" + c for c in info["certified"]])
        if not ok:
            return dict(res, ok=False, clause="lock_certificate", detail=dict(problems=problems, info=info,
                        note="an update of the shared accumulators is not certified atomic: the sum-over-trees model (C18_order_irrelevant, C18_chunks_irrelevant) "
                             "does not describe the code for n_jobs > 1; a stress search for a failing input follows"))
        return res
    sig = dict(cls=case["cls"])
    res = dict(ok=True, kind="oracle", clause="", sig=sig, nontrivial=True, desc=["stress", "rows=%d" % case["rows"], "trees=%d" % case["trees"]])
    m = model()
    with warnings.catch_warnings():
        warnings.simplefilter("ignore")
        f, Xq = stress_forest(case)
        ob1 = observe(f, Xq)
        if isinstance(ob1, str):
            return dict(res, ok=False, clause=ob1, detail="n_jobs=1")
        fixed = list(range(0, len(Xq), max(1, len(Xq) // 8)))[:8]
        minv = float(f.min_variance)
        for nj in case["n_jobs"]:
            f.n_jobs = nj
            for rnd in range(case["rounds"]):
                ob = observe(f, Xq)
                if isinstance(ob, str):
                    return dict(res, ok=False, clause=ob, detail="n_jobs=%s" % nj)
                sel = set(fixed)
                for a, b in zip(ob[0] + ob[1], ob1[0] + ob1[1]):
                    dlt = np.abs(a - b)
                    dlt[~np.isfinite(dlt)] = np.inf
                    sel.add(int(np.argmax(dlt)))
                sel = sorted(sel)
                Xs = Xq[sel]
                M, V = oracle_trees(f, Xs)
                T = M.shape[0]
                obs_s = ([a[sel] for a in ob[0]], [a[sel] for a in ob[1]])
                ob1_s = ([a[sel] for a in ob1[0]], [a[sel] for a in ob1[1]])
                fin = [float(v) for o_ in (obs_s, ob1_s) for a in o_[0] + o_[1] for v in a if math.isfinite(v)]
                k = common_scale(list(M.ravel()) + fin, list(V.ravel()) + [minv])
                trees = [[[to_int(M[t, j], k), to_int(V[t, j], 2 * k)] for t in range(T)] for j in range(len(sel))]
                enc = lambda o_, j: [[opt_int(a[j], k) for a in o_[0]], [opt_int(a[j], k) for a in o_[1]]]
                minv_i = to_int(minv, 2 * k)
                for name, o_ in (("n_jobs=1", ob1_s), ("n_jobs=%s" % nj, obs_s)):
                    arg = [EPS_M, EPS_V, minv_i, [[trees[j]] + enc(o_, j) for j in range(len(sel))]]
                    okb, out = m.call(F_OK, arg), m.call(F_CLAUSES, arg)
                    for j in range(len(sel)):
                        bad = first_false(CLAUSES, [bool(b) for b in out[j]])
                        if bad is not None or not okb[j]:
                            return dict(res, ok=False, clause=bad or "ok_C18", detail=dict(obs=name, round=rnd, row=sel[j], means=[float(a[j]) for a in o_[0]], stds=[float(a[j]) for a in o_[1]],
                                                                                           sequential_means=[float(a[j]) for a in ob1_s[0]], sequential_stds=[float(a[j]) for a in ob1_s[1]]))
                same = m.call(F_SAME, [EPS_M, EPS_V, minv_i, [[trees[j]] + enc(ob1_s, j) + enc(obs_s, j) for j in range(len(sel))]])
                if not all(same):
                    j = [bool(b) for b in same].index(False)
                    return dict(res, ok=False, clause="n_jobs", detail=dict(n_jobs=nj, round=rnd, row=sel[j], sequential=[float(a[j]) for a in ob1_s[0] + ob1_s[1]], threaded=[float(a[j]) for a in obs_s[0] + obs_s[1]]))
        f.n_jobs = 1
    return res


def gen_lock(rng, tier):
    if tier == "search":   # after a broken certificate: heavier, longer
        for i in range(12):
            yield dict(type="stress", cls="RF" if i % 2 == 0 else "ET", trees=50, rows=600000, n_train=40, n_jobs=[4, 8], rounds=6, seed=rng.randrange(2 ** 31))
    else:
        yield dict(type="cert")
        yield dict(type="stress", cls="RF", trees=50, rows=300000, n_train=40, n_jobs=[4, 8], rounds=2 if tier != "thorough" else 10, seed=rng.randrange(2 ** 31))
        if tier == "thorough":
            yield dict(type="stress", cls="ET", trees=50, rows=600000, n_train=40, n_jobs=[4, 8], rounds=10, seed=rng.randrange(2 ** 31))


# ---------------------------------------------------------------- robustness against infrastructure noise
ATTEMPT_S = 90


def _fresh_model():
    """an attempt that was interrupted inside model().call leaves the line protocol one reply out of step: start a new process"""
    driver.discard()


def robust(check):
    """Forest fitting / prediction is deterministic, so an exception or a watchdog timeout that does not repeat is noise of
    the machinery (joblib creates and tears down a thread pool per call; under heavy machine load that has been seen to stall
    once in several thousand cases).  An attempt that raises or exceeds ATTEMPT_S seconds is repeated (3 attempts, each under the
    runner's SIGALRM watchdog re-armed here); only a failure that repeats every time is reported.  WRONG VALUES are never retried.
    A retry that succeeds is visible in the evidence histogram as 'retried_after:<what>'."""

    def wrapped(case):
        last, notes = None, []
        for attempt in range(3):
            signal.alarm(ATTEMPT_S)          # the runner installed the handler (raises CaseTimeout in this frame)
            try:
                r = check(case)
            except Exception as e:  # includes the runner's CaseTimeout
                last = e
                _fresh_model()
                notes.append("retried_after:" + type(e).__name__)
                continue
            finally:
                signal.alarm(0)
            if notes and isinstance(r.get("desc"), list):
                r["desc"] = r["desc"] + notes
            return r
        raise last

    return wrapped


# ---------------------------------------------------------------- generators
KINDS = ["smooth", "noise", "const", "dups", "two_level", "offset", "grid", "int_data", "one_ulp"]
SCALES = [1e-30, 1e-12, 1e-9, 1e-6, 1e-6, 1e-3, 1e-3, 1.0, 1.0, 1e3, 1e3, 1e6, 1e6, 1e9, 1e30]


def gen_data(rng, n, d, kind, scale):
    if kind in ("grid", "int_data"):
        X = [[float(rng.randint(0, 3)) for _ in range(d)] for _ in range(n)]
    elif kind == "dups":
        base = [[rng.uniform(-1, 1) for _ in range(d)] for _ in range(max(1, n // 3))]
        X = [list(rng.choice(base)) for _ in range(n)]
    else:
        X = [[rng.uniform(-1, 1) for _ in range(d)] for _ in range(n)]
    if kind == "const":
        c = rng.choice([0.0, 1.0, -3.7, 0.1, 1 / 3])
        y = [c * scale] * n
    elif kind == "two_level":
        y = [scale * (1.0 if x[0] > 0 else -1.0) for x in X]
    elif kind == "noise":
        y = [scale * rng.gauss(0, 1) for _ in X]
    elif kind == "int_data":   # integer-typed arrays (see fit_arrays); magnitudes up to 3e9 (squares beyond 2^63)
        big = rng.choice([1, 1, 1000, 3 * 10 ** 9])
        y = [float(rng.randint(-5, 5) * big) for _ in X]
    elif kind == "one_ulp":    # targets that differ by one or two units in the last place
        base = scale * rng.choice([1.0, 0.1, 1 / 3, -7.3])
        y = [base, math.nextafter(base, math.inf), math.nextafter(base, -math.inf)]
        y = [rng.choice(y) for _ in X]
    elif kind == "offset":
        off = rng.choice([1e2, 1e4, -1e6])
        y = [scale * (off + rng.gauss(0, 1)) for _ in X]
    else:
        y = [scale * (math.sin(3 * x[0]) + 0.5 * x[-1] ** 2 + 0.1 * rng.gauss(0, 1)) for x in X]
    if kind == "dups" and n > 2:   # exact duplicate rows (same x, same y) as well
        for _ in range(n // 4):
            i, j = rng.randrange(n), rng.randrange(n)
            X[i], y[i] = list(X[j]), y[j]
    return X, y


def gen_queries(rng, X, nq):
    d = len(X[0])
    out = []
    for _ in range(nq):
        r = rng.random()
        if r < 0.35:
            out.append(list(rng.choice(X)))
        elif r < 0.85:
            out.append([rng.uniform(-1.2, 1.2) for _ in range(d)])
        else:
            out.append([rng.choice([-50.0, 50.0, 0.0]) for _ in range(d)])
    return out


def gen_case(rng, small=False):
    kind = rng.choice(KINDS)
    scale = rng.choice(SCALES)
    n = rng.choice([2, 2, 3, 4, 5, 8, 13, 20, 35, 60, 100, 200]) if not small else rng.randint(2, 8)
    d = rng.randint(1, 6) if not small else rng.randint(1, 2)
    T = rng.choice([1, 1, 2, 3, 5, 8, 10, 15, 25, 50]) if not small else rng.randint(1, 4)
    cls = rng.choice(["RF", "RF", "ET"])
    if kind == "int_data":
        scale = 1.0
    X, y = gen_data(rng, n, d, kind, scale)
    mvk = rng.choice(["0", "0", "0", "tiny", "small", "big", "neg"] if rng.random() < 0.25 else ["0", "0", "tiny", "small", "big"])
    mv = {"0": 0.0, "tiny": 1e-12 * scale * scale, "small": 1e-3 * scale * scale, "big": 2.5 * scale * scale, "neg": -1.0 * scale * scale}[mvk]
    opts = dict(cls=cls, n_estimators=T, splitter=rng.choice(["best", "random"]) if cls == "RF" else "random",
                bootstrap=rng.random() < 0.5, min_samples_split=rng.choice([2, 2, 3, 5, 10, 0.3]), min_samples_leaf=rng.choice([1, 1, 1, 3]),
                max_features=rng.choice([1.0, 1.0, "sqrt", 1]), max_depth=rng.choice([None, None, None, 1, 3]), min_variance=mv,
                seed=rng.randrange(2 ** 31), n_jobs_pair=[rng.choice([1, 1, None]), rng.choice([2, 4, 4, 8, -1])])
    nq = rng.choice([1, 3, 6, 10]) if not small else rng.randint(1, 3)
    return dict(kind=kind, scale=scale, minvar_kind=mvk, X=X, y=y, Xq=gen_queries(rng, X, nq), opts=opts)


def gen_predict(count):
    def gen(rng, tier):
        k = count if tier != "search" else count * 3
        for i in range(k):
            yield gen_case(rng, small=(tier == "search" or i % 5 == 4))
    return gen


def gen_acq(count):
    def gen(rng, tier):
        k = count if tier != "search" else count * 3
        for i in range(k):
            c = gen_case(rng, small=(tier == "search" or i % 5 == 4))
            if c["minvar_kind"] == "neg":
                c["minvar_kind"], c["opts"]["min_variance"] = "0", 0.0
            # n_jobs = 1: the sequential loop is deterministic, so the acquisition's own predict call returns bit-for-bit what
            # observe() saw (with threads the summation order - hence the last bits - may differ between two calls)
            c["opts"]["n_jobs"] = 1
            c["kappa"] = rng.choice([1.96, 1.96, 0.001, 10.0, 19.6, 0.0, "inf"])
            c["xi"] = rng.choice([0.01, 0.0, 0.5])
            c["y_opt"] = float(rng.choice(c["y"])) if rng.random() < 0.8 else 0.0
            c["np_seed"] = rng.randrange(2 ** 31)
            yield c
    return gen


# ---------------------------------------------------------------- shrinker
def shrink(case):
    X, y, Xq, o = case["X"], case["y"], case["Xq"], case["opts"]
    if len(Xq) > 1:
        for j in range(len(Xq)):
            yield dict(case, Xq=[Xq[j]])
    n = len(X)
    if n > 2:
        h = n // 2
        if h >= 2:
            yield dict(case, X=X[:h], y=y[:h])
            yield dict(case, X=X[h:], y=y[h:]) if n - h >= 2 else dict(case, X=X[:h], y=y[:h])
        if n <= 24:
            for i in range(n):
                yield dict(case, X=X[:i] + X[i + 1:], y=y[:i] + y[i + 1:])
    T = o["n_estimators"]
    for t in sorted({1, 2, T // 2, T - 1}):
        if 1 <= t < T:
            yield dict(case, opts=dict(o, n_estimators=t))
    if len(X[0]) > 1:
        for j in range(len(X[0])):
            yield dict(case, X=[r[:j] + r[j + 1:] for r in X], Xq=[r[:j] + r[j + 1:] for r in Xq])
    for key, val in (("max_depth", None), ("max_features", 1.0), ("min_samples_leaf", 1), ("min_samples_split", 2), ("bootstrap", False)):
        if o[key] != val:
            yield dict(case, opts=dict(o, **{key: val}))
    if n <= 12:
        for i in range(n):
            r = float(round(y[i]))
            if r != y[i]:
                yield dict(case, y=y[:i] + [r] + y[i + 1:])


def streams(tier):
    th = tier == "thorough"
    try:  # warm-up: a watchdog alarm landing inside the FIRST import would leave half-initialised modules behind
        import deephyper.skopt.acquisition  # noqa: F401
        import deephyper.skopt.learning  # noqa: F401
    except Exception:
        pass  # the checks import again and report the exception
    return [
        Stream("lock_certificate", gen_lock, robust(check_lock), None, parallel=False, timeout=3 * ATTEMPT_S),
        Stream("forest_predict", gen_predict(6000 if th else 400), robust(check_predict), shrink, timeout=3 * ATTEMPT_S),
        Stream("acq_d", gen_acq(2500 if th else 120), robust(check_acq), shrink, timeout=3 * ATTEMPT_S),
        Stream("forest_session", gen_session(1500 if th else 120), robust(check_session), shrink_session, timeout=3 * ATTEMPT_S),
    ]
