"""C07 child interpreter: runs ONE seeded search described by a JSON spec (argv[1]) and prints the sequence of proposed
configurations.  Started by harness/vp/props/c07.py as `/venv/bin/python c07_child.py <json>` with its own
PYTHONHASHSEED; the global NumPy / Python generators are perturbed (spec['perturb']) before deephyper is used.

Output (last line of stdout):  C07OUT <json>  with
  asked : list of configurations in the order they were proposed, each a list of [name, repr(value), type name]
  table : the p:* columns of the DataFrame returned by search() (mode 'search'), same encoding, in row order
  globals_touched : whether the state of the global NumPy / Python generators changed during the search
"""
import asyncio
import json
import math
import os
import random
import sys
import tempfile
import warnings

warnings.filterwarnings("ignore")


def build_problem(space):
    import ConfigSpace as cs
    from deephyper.hpo import HpProblem

    p = HpProblem()
    if space == "flat_real":
        p.add_hyperparameter((0.0, 10.0), "x0")
        p.add_hyperparameter((-5.0, 5.0), "x1")
    elif space == "flat_mixed":
        p.add_hyperparameter((0.0, 10.0), "alpha")
        p.add_hyperparameter((1, 64), "units")
        p.add_hyperparameter((1e-4, 1.0, "log-uniform"), "lr")
        p.add_hyperparameter(["relu", "tanh", "gelu", "elu"], "act")
        p.add_hyperparameter([1, 2, 4, 8], "ord")
    elif space == "flat_many":
        # many names: an iteration order that depended on the hash seed would show
        for n in ["zeta", "beta", "kappa", "omega", "mu", "eta"]:
            p.add_hyperparameter((0.0, 1.0), n)
        p.add_hyperparameter(["a", "b", "c"], "cat_q")
        p.add_hyperparameter((0, 20), "int_w")
    elif space == "cond":
        kind = p.add_hyperparameter(["sgd", "adam", "rms"], "kind")
        lr = p.add_hyperparameter((1e-4, 1.0, "log-uniform"), "lr")
        mom = p.add_hyperparameter((0.0, 0.99), "momentum")
        b1 = p.add_hyperparameter((0.5, 0.999), "beta1")
        nl = p.add_hyperparameter((1, 4), "layers")
        wd = p.add_hyperparameter((0.0, 0.1), "decay")
        p.add_condition(cs.EqualsCondition(mom, kind, "sgd"))
        p.add_condition(cs.EqualsCondition(b1, kind, "adam"))
        p.add_condition(cs.GreaterThanCondition(wd, nl, 2))
    elif space == "discrete":
        # fully discrete and small (80 points) with a string-valued categorical: every batch of candidates contains duplicates and already
        # sampled points, and the points hash differently in processes with different PYTHONHASHSEED
        p.add_hyperparameter((0, 4), "depth")
        p.add_hyperparameter(["sgd", "adam", "adagrad", "rms"], "opt")
        p.add_hyperparameter((0, 3), "width")
    elif space == "tiny":
        # 12 points: a search longer than that exhausts the space (duplicates cannot be avoided any more)
        p.add_hyperparameter((0, 2), "a")
        p.add_hyperparameter(["x", "y"], "b")
        p.add_hyperparameter([1, 2], "c")
    elif space == "forbid":
        a = p.add_hyperparameter((0, 9), "a")
        b = p.add_hyperparameter(["u", "v", "w"], "b")
        p.add_hyperparameter((0.0, 1.0), "c")
        p.add_forbidden_clause(cs.ForbiddenAndConjunction(cs.ForbiddenEqualsClause(a, 0), cs.ForbiddenEqualsClause(b, "u")))
    else:
        raise ValueError(space)
    return p


def num(v):
    """Deterministic numeric image of a hyperparameter value (no hash())."""
    if isinstance(v, bool):
        return float(v)
    if isinstance(v, (int, float)):
        return float(v)
    s = str(v)
    return float(sum((i + 1) * ord(c) for i, c in enumerate(s)) % 17)


CONST = [False]


def objective(cfg, nobj, fail_mod, fail_region=0.0):
    vals = [num(cfg[k]) for k in sorted(cfg)]
    t = sum(math.sin(0.7 * (i + 1) * v) + 0.05 * v for i, v in enumerate(vals))
    if fail_mod and int(abs(t) * 1000) % fail_mod == 0:
        return "F_c07"
    # the run-function fails on the part of the domain around the optimum (t = 1): the model-based suggestions, not only the initial
    # points, run into failures (filter_failures paths, Optimizer.update_next)
    if fail_region and abs(t - 1.0) < fail_region:
        return "F_region"
    if CONST[0]:
        return 1.5 if nobj == 1 else tuple([1.5] * nobj)   # a constant objective: zero variance for scalers, ties everywhere
    if nobj == 1:
        return -((t - 1.0) ** 2)
    u = sum(math.cos(0.3 * (i + 2) * v) for i, v in enumerate(vals))
    objs = [-((t - 1.0) ** 2), -abs(u), t * 0.1 - u * 0.2]
    return tuple(objs[:nobj])


def _unrepr(v, t):
    import ast as _ast

    try:
        return _ast.literal_eval(v)
    except Exception:
        return v


def enc(cfg):
    return [[k, repr(v), type(v).__name__] for k, v in cfg.items()]


def run_one(spec, random_state=None):
    """spec['repeat'] runs of the same search in this process (thread interleavings differ from run to run); the observable is the concatenation."""
    r = int(spec.get("repeat", 1))
    if r <= 1:
        return _run_once(spec, random_state)
    out = None
    for i in range(r):
        o = _run_once(spec, random_state)
        if out is None:
            out = o
            out.pop("table", None)
            out.pop("failed_at", None)
        else:
            out["asked"] = out["asked"] + [[["!run", str(i), "marker"]]] + o["asked"]
            out["globals_touched"] = [a or b for a, b in zip(out["globals_touched"], o["globals_touched"])]
            if o.get("error") and not out.get("error"):
                out["error"], out["trace"] = o["error"], o.get("trace")
    return out


def _run_once(spec, random_state=None):
    import numpy as np

    k = int(spec.get("perturb", 0))
    np.random.seed(k)
    random.seed(k)
    np.random.rand(1 + k % 5)
    for _ in range(k % 3):
        random.random()
    if spec.get("threads"):
        # another rhythm of thread switches in every process: tasks of a thread pool that share state interleave differently
        sys.setswitchinterval(1e-6 * (1 + k % 7))

    from deephyper.evaluator import Evaluator
    from deephyper.hpo import CBO, RandomSearch, RegularizedEvolution

    classes = {"CBO": CBO, "Random": RandomSearch, "RegEvo": RegularizedEvolution}
    problem = build_problem(spec["space"])
    nobj, fail_mod, fail_region = int(spec.get("nobj", 1)), int(spec.get("fail_mod", 0)), float(spec.get("fail_region", 0.0))
    asked = []

    async def run(job):
        cfg = dict(job.parameters)
        asked.append(enc(cfg))
        return objective(cfg, nobj, fail_mod, fail_region)

    async def run_other(job):
        return objective(dict(job.parameters), 1, 0, 0.0)

    out = {}
    with tempfile.TemporaryDirectory(prefix="vp_c07_%d_" % k) as d:
        ev = Evaluator.create(run, method="serial", method_kwargs={"num_workers": 1})
        kw = dict(spec.get("kwargs", {}))
        if (spec.get("ambient") or {}).get("verbose"):
            kw["verbose"] = 1      # progress bar on stderr: must not influence what is proposed
        cls = classes[spec["search"]]
        g0 = (np.random.get_state()[1].tobytes(), np.random.get_state()[2], random.getstate())
        seed = int(spec["seed"])
        sk = spec.get("seed_kind", "int")
        seed_obj = {"int": lambda: seed, "np.int64": lambda: np.int64(seed), "np.int32": lambda: np.int32(seed % 2**31), "np.uint32": lambda: np.uint32(seed),
                    "RandomState": lambda: np.random.RandomState(seed)}[sk]()
        search = cls(problem, ev, random_state=seed_obj if random_state is None else random_state, log_dir=os.path.join(d, "log_%d" % k), **kw)
        CONST[0] = bool(spec.get("const_obj"))
        if spec.get("warm"):
            # a seeded search continued from the results of an earlier one (checkpoint): fit_surrogate / the transfer-learning entry points
            async def run_prev(job):
                return objective(dict(job.parameters), nobj, 0, 0.0)

            if int(spec["warm"]) > 60:
                # a long history (hundreds of evaluations): the results table of the earlier search is written directly
                import pandas as pd

                sp = build_problem(spec["space"]).space
                sp.seed(4242)
                rows = []
                for i, cfgp in enumerate(sp.sample_configuration(int(spec["warm"]))):
                    cfgp = {kk: (vv.item() if hasattr(vv, "item") else vv) for kk, vv in dict(cfgp).items()}
                    rows.append(dict({"p:" + kk: vv for kk, vv in cfgp.items()}, objective=objective(cfgp, 1, 0, 0.0), job_id=i))
                dfp = pd.DataFrame(rows)
                os.makedirs(os.path.join(d, "prev_%d" % k), exist_ok=True)
                dfp.to_csv(os.path.join(d, "prev_%d" % k, "results.csv"), index=False)
            else:
                prev = RandomSearch(build_problem(spec["space"]), Evaluator.create(run_prev, method="serial", method_kwargs={"num_workers": 1}),
                                    random_state=4242, log_dir=os.path.join(d, "prev_%d" % k))
                dfp = prev.search(max_evals=int(spec["warm"]))
            how = spec.get("warm_how", "fit_surrogate")
            if how == "fit_surrogate":
                search.fit_surrogate(dfp)
            elif how == "csv":
                search.fit_surrogate(os.path.join(d, "prev_%d" % k, "results.csv"))
            elif how == "fit_generative_model":
                search.fit_generative_model(dfp)
            elif how == "fit_search_space":
                search.fit_search_space(dfp)

        # Another search (another seed, a number of draws that differs from process to process) built from the SAME HpProblem object, after
        # the observed one, and drawing before and between the steps of the observed one.
        other, other_steps = None, [0]
        if spec.get("interfere"):
            okw = {"CBO": dict(surrogate_model="DUMMY", n_points=32, n_initial_points=2), "RegEvo": dict(population_size=4, sample_size=2), "Random": {}}[spec["interfere"]]
            other = classes[spec["interfere"]](problem, Evaluator.create(run_other, method="serial", method_kwargs={"num_workers": 1}),
                                               random_state=7000 + k, log_dir=os.path.join(d, "other_%d" % k), **okw)
            if isinstance(other, CBO):
                other._setup_optimizer()

        def other_step():
            if other is not None:
                # the parent gives the two processes of an interfered pair consecutive perturbations: different numbers of sampling calls
                # (ConfigSpace consumes its generator per call, not per sampled configuration)
                for _ in range(1 + k % 4):
                    other_steps[0] += 1
                    cfgs = other.ask(1 + other_steps[0] % 2)
                    other.tell([(c, objective(c, 1, 0, 0.0)) for c in cfgs])

        def table_of(df):
            cols = [c for c in df.columns if c.startswith("p:")]
            df = df.sort_values("job_id", key=lambda s: s.map(lambda j: int(str(j).split(".")[-1]))) if df["job_id"].dtype == object else df.sort_values("job_id")
            return [[[c[2:], repr(v), type(v).__name__] for c, v in zip(cols, row)] for row in df[cols].values.tolist()]

        try:
            if spec.get("mode", "search") == "search":
                n = int(spec["evals"])
                if spec.get("calls"):
                    # several search() calls on the one seeded object (state that survives between the calls)
                    for m in spec["calls"]:
                        df = search.search(max_evals=int(m))
                    out["table"] = table_of(df)
                elif other is None:
                    out["table"] = table_of(search.search(max_evals=n))
                else:
                    other_step()
                    search.search(max_evals=n // 2)
                    other_step()
                    out["table"] = table_of(search.search(max_evals=n - n // 2))
            else:
                # the same sequence of ask(n) / tell calls, n from the spec
                if isinstance(search, CBO):
                    search._setup_optimizer() if search._opt is None else None
                for n in spec["batches"]:
                    other_step()
                    cfgs = search.ask(n)
                    res = []
                    for cfg in cfgs:
                        asked.append(enc(cfg))
                        res.append((cfg, objective(cfg, nobj, fail_mod, fail_region)))
                    search.tell(res)
        except Exception as e:  # the proposals made so far are still the observable; the parent compares the error class as well
            if random_state is not None:
                raise
            import traceback

            out["error"], out["trace"] = type(e).__name__, traceback.format_exc()[-1500:]
            out.pop("table", None)
        g1 = (np.random.get_state()[1].tobytes(), np.random.get_state()[2], random.getstate())
        out["globals_touched"] = [g0[0] != g1[0] or g0[1] != g1[1], g0[2] != g1[2]]
    out["asked"] = asked
    out["failed_at"] = [i for i, c in enumerate(asked) if isinstance(objective({k: _unrepr(v, t) for k, v, t in c}, nobj, fail_mod, fail_region), str)]
    return out


def apply_ambient(amb):
    """Ambient state of the process that a library may read - none of it is part of the property's inputs (environment variables, the
    interpreter flags and the working directory are set by the parent when it starts this process)."""
    import logging

    if amb.get("log"):
        # an application that configured logging: root logger at DEBUG with a handler (written to the null device)
        logging.basicConfig(level=getattr(logging, amb["log"]), stream=open(os.devnull, "w"), force=True)
    if amb.get("affinity") and hasattr(os, "sched_setaffinity"):
        # the CPU allowance of the process (taskset / cgroup / another machine): n_jobs=-1, effective_n_jobs, cpu_count follow it
        avail = sorted(os.sched_getaffinity(0))
        k = int(amb.get("affinity_shift", 0))
        os.sched_setaffinity(0, {avail[(k + i) % len(avail)] for i in range(min(int(amb["affinity"]), len(avail)))})
    if amb.get("warnings"):
        warnings.resetwarnings()
        warnings.simplefilter(amb["warnings"])


def main():
    specs = json.loads(sys.argv[1])
    amb = (specs[0] if isinstance(specs, list) else specs).get("ambient") or {}
    apply_ambient(amb)
    outs = []
    for spec in specs if isinstance(specs, list) else [specs]:
        try:
            outs.append(run_one(spec))
        except Exception as e:  # reported to the parent, which decides (an exception is a finding only if the twin run does not raise the same)
            import traceback

            outs.append({"error": type(e).__name__, "trace": traceback.format_exc()[-1500:]})
    print("C07OUT " + json.dumps(outs))


if __name__ == "__main__":
    main()
