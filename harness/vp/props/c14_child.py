"""C14, process backend: one case in a FRESH interpreter (the process evaluator forks a manager and a worker pool).
Every status write goes through a logging wrapper around the SharedMemoryStorage proxy, every status poll of a
run-function (in a worker process) is logged under the same manager lock; the log itself is a manager list.
usage: python -m vp.props.c14_child <case.json>      prints  @@RESULT@@{...}"""
import json
import multiprocessing as mp
import sys
import tempfile
import threading
import time
import warnings

warnings.filterwarnings("ignore")


class LogStore:
    """Delegates to the shared storage; logs store_job_status atomically with the write."""

    def __init__(self, inner, log, lock):
        self.inner, self.log, self.lock = inner, log, lock

    def store_job_status(self, job_id, job_status):
        with self.lock:
            self.inner.store_job_status(job_id, job_status)
            self.log.append([int(job_id.split(".")[1]), 0, int(job_status)])

    def __getattr__(self, k):
        if k.startswith("__") or k in ("inner", "log", "lock"):
            raise AttributeError(k)
        return getattr(self.inner, k)


def run_proc(job, shared=None):
    from deephyper.evaluator import JobStatus

    log, lock, plan, cap = shared
    jid = int(job.id.split(".")[1])
    kind, dur, every, extra = plan[jid % len(plan)][:4]
    b = plan[jid % len(plan)]
    val = 0 if len(b) > 4 and b[4] == "zero" else 1000 + jid

    def poll():
        with lock:
            s = job.status
            log.append([jid, 2, int(s.value)])
        return s

    with lock:
        log.append([jid, 1, 0])
    t0 = time.time()
    while time.time() - t0 < (dur if kind == "short" else cap):
        time.sleep(every)
        s = poll()
        if s is JobStatus.CANCELLING:
            if extra:
                time.sleep(extra)
                poll()
            break
    with lock:
        log.append([jid, 3, 0])
    return val


def main():
    case = json.load(open(sys.argv[1]))
    from deephyper.evaluator import Evaluator, JobStatus
    from deephyper.evaluator.storage import SharedMemoryStorage
    from deephyper.hpo import HpProblem, RandomSearch

    T = case["timeout"]
    cap = T + 3.5
    mgr = mp.Manager()
    log, lock = mgr.list(), mgr.RLock()
    storage = LogStore(SharedMemoryStorage(), log, lock)
    evaluator = Evaluator.create(run_proc, method="process", method_kwargs={
        "num_workers": case["workers"], "storage": storage, "run_function_kwargs": {"shared": (log, lock, case["plan"], cap)}})

    def sentinel():
        with lock:
            log.append([0, 9, 0])

    timers = [threading.Timer(T + 0.4, sentinel), threading.Timer(T + 1.9, sentinel)]
    for t in timers:
        t.daemon = True
    problem = HpProblem()
    problem.add_hyperparameter((0.0, 10.0), "x")
    mode = case.get("mode", "search")
    table = []
    with tempfile.TemporaryDirectory(prefix="vp_c14p_") as d:
        for t in timers:
            t.start()
        if mode == "evaluator":
            evaluator.timeout = T
            evaluator.submit([{"x": float(i)} for i in range(case["njobs"])])
            jobs = evaluator.gather("ALL")
            evaluator.close()
            for job in jobs:
                out = job.output
                table.append([int(job.id.split(".")[1]), int(job.status.value), int(out) if isinstance(out, (int, float)) else -1])
        else:
            search = RandomSearch(problem, evaluator, random_state=1, log_dir=d)
            if mode == "search":
                df = search.search(timeout=T)
            elif mode == "evtimeout_search":
                evaluator.timeout = T
                df = search.search(max_evals=case["max_evals"])
            elif mode == "search_max":
                df = search.search(max_evals=case["max_evals"], timeout=T)
            else:
                df = search.search(max_evals=case["max_evals"], timeout=T, max_evals_strict=True)
            if df is not None:
                for _, row in df.iterrows():
                    try:
                        o = int(float(row["objective"]))
                    except (TypeError, ValueError):
                        o = -1
                    table.append([int(row["job_id"]), int(JobStatus[row["job_status"]].value), o])
        with lock:
            n_at_return = len(log)
        time.sleep(0.3)
        for t in timers:
            t.cancel()
        with lock:
            tr = [list(e) for e in log]
        late = sum(1 for e in tr[n_at_return:] if e[1] in (1, 2, 3))
        njobs = len(storage.load_all_job_ids(evaluator._search_id))
    from vp.props.c14 import valof

    vals = sorted({e[0]: valof(case["plan"], e[0]) for e in tr if e[1] == 3}.items())
    ex = getattr(evaluator, "executor", None)
    if ex is not None:
        ex.shutdown(wait=False, cancel_futures=True)
    sys.stdout.write("\n@@RESULT@@" + json.dumps(dict(njobs=njobs, trace=tr, vals=[list(v) for v in vals], table=table, late=late)) + "\n")
    sys.stdout.flush()


if __name__ == "__main__":
    main()
