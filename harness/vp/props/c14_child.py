"""C14, process / loky backend: one case in a FRESH interpreter (the process evaluators fork / spawn a worker pool and a
storage manager; a forked child of the multi-threaded harness would deadlock).
Every status write goes through a logging wrapper around the SharedMemoryStorage proxy, every status poll of a
run-function (in a worker process) is logged under the same manager lock; the log itself is a manager list.  The
evaluator lives in this process: its entry points are instrumented exactly as for the in-process backends.
usage: python -m vp.props.c14_child <case.json>      prints  @@RESULT@@{...}"""
import json
import multiprocessing as mp
import sys
import time
import warnings

warnings.filterwarnings("ignore")


class LogStore:
    """Delegates to the shared storage; logs store_job_status atomically with the write."""

    def __init__(self, inner, log, lock):
        self.inner, self.log, self.lock = inner, log, lock
        self.t00 = time.time()

    def store_job_status(self, job_id, job_status):
        with self.lock:
            self.inner.store_job_status(job_id, job_status)
            self.log.append([int(job_id.split(".")[1]), 0, int(job_status), int((time.time() - self.t00) * 1000)])

    def __getattr__(self, k):
        if k.startswith("__") or k in ("inner", "log", "lock", "t00"):
            raise AttributeError(k)
        return getattr(self.inner, k)


def run_proc(job, shared=None):
    from deephyper.evaluator import JobStatus
    from vp.props.c14 import K_POLL, run_body

    log, lock, plan, cap, t00 = shared

    def emit(j, kind, arg):
        with lock:
            if kind == K_POLL:
                s = arg.status
                log.append([j, K_POLL, int(s.value), int((time.time() - t00) * 1000)])
                return s
            log.append([j, kind, arg, int((time.time() - t00) * 1000)])

    return run_body(job, plan, cap, emit, time.sleep, (JobStatus.CANCELLING, JobStatus.CANCELLED))


def main():
    case = json.load(open(sys.argv[1]))
    from deephyper.evaluator import Evaluator
    from deephyper.evaluator.storage import SharedMemoryStorage
    from vp.props.c14 import drive, instrument

    cap = case["timeout"] + 3.5
    mgr = mp.Manager()
    log, lock = mgr.list(), mgr.RLock()
    storage = LogStore(SharedMemoryStorage(), log, lock)
    t00 = storage.t00  # diagnostic timestamps only: never compared
    evaluator = Evaluator.create(run_proc, method=case["backend"], method_kwargs={
        "num_workers": case["workers"], "storage": storage, "run_function_kwargs": {"shared": (log, lock, case["plan"], cap, t00)}})

    def emit(j, kind, arg):
        with lock:
            log.append([j, kind, arg, int((time.time() - t00) * 1000)])

    def snapshot():
        with lock:
            return [list(e) for e in log]

    hooks = {"peers": [], "make_peer": lambda: Evaluator.create(run_proc, method=case["backend"], method_kwargs={
        "num_workers": 1, "storage": storage, "search_id": evaluator._search_id, "run_function_kwargs": {"shared": (log, lock, case["plan"], cap, t00)}})}
    instrument(evaluator, emit, hooks)
    table, late, tr, extra = drive(case, evaluator, emit, snapshot, hooks)
    njobs = len(storage.load_all_job_ids(evaluator._search_id))
    for ev in [evaluator] + hooks["peers"]:
        ex = getattr(ev, "executor", None)
        if ex is not None:
            try:
                ex.shutdown(wait=False, cancel_futures=True)
            except TypeError:  # loky's executor
                ex.shutdown(wait=False, kill_workers=True)
    sys.stdout.write("\n@@RESULT@@" + json.dumps(dict(njobs=njobs, trace=tr, table=table, late=late, extra=extra)) + "\n")
    sys.stdout.flush()


if __name__ == "__main__":
    main()
