"""C12 - Hypervolume indicator is exact, monotone and side-effect free.

Tie: EXTENSIONAL correspondence (same number out).  The implementation's value (a binary64, taken as its exact
rational) is judged by the extracted Coq oracle ok_exact / ok_close, which evaluates hv_nd - proved equal to the
cell-counting specification hv_spec (Property.v: C12_fast_is_spec, C12_spec_is_cell_count).  Every case is handed to the
model as integers on one power-of-two scale s; the true volume is hv / s^d (C12_scale: independent of s).
The metamorphic clauses (monotone, permutation/duplication, boundary zero) are decided on the IMPLEMENTATION's outputs
by ok_le / ok_eq.  Several calls: the sequence stream (same arrays edited between calls) and the recorder stream, whose
expected values come from the Coq recorder model (ModelRecorder.v: negation, worst point as reference, failures skipped).  "Caller's array unchanged" is an observation (bytes of the array before/after the call).
"""
import itertools
import math
import types
import warnings
from fractions import Fraction

import numpy as np

from ..driver import model
from ..runner import CaseTimeout, Stream

try:  # warm the import cache in the parent, before the workers are forked: an import interrupted by the per-case
    # watchdog (loaded machine) would leave half-initialised modules behind and every later case of that worker would fail
    with warnings.catch_warnings():  # (importing deephyper resets the warning filters; keep the caller's)
        import deephyper.evaluator.callback  # noqa: F401
        import deephyper.skopt.moo  # noqa: F401
except Exception:  # a tree that cannot be imported is reported by the streams (exception:<Type>), not here
    pass

PROPERTY = "C12"
LEVEL = "proof"
FACTS = None
COQ_DIRS = ("Common", "C11_Pareto")
TRUSTED = [
    "real-valued reading of the integer model: for coordinates k/s the Lebesgue volume of the dominated region is "
    "(number of dominated unit cells of the s-scaled lattice) / s^d; Coq proves the cell count (C12_spec_is_cell_count) and "
    "that the rational does not depend on s (C12_scale)",
    "float -> integer transfer: fractions.Fraction(float) is exact; all coordinates of a case are multiplied by one common "
    "power of two",
    "binary64 arithmetic of the implementation is exact on the lattice / highdim_ties (small integers, <= 7 objectives) and "
    "dyadic (k/16, <= 5 objectives) streams: all intermediate values are dyadic with < 53 significant bits; 1e-9 relative "
    "tolerance on the general-float stream (all terms of the sweep are non-negative, so the rounding error is ~ n * 2^-53 relative)",
    "big_integers: coordinates below 2^53 convert to binary64 exactly; the value is judged exactly while the exact volume is "
    "below 2^53 (it bounds every intermediate value: all terms are non-negative) and within 1e-9 relative beyond (and the metamorphic "
    "clauses with 2e-9 slack); near_ties kinds 0-2: one objective on a dyadic grid (2^17 + k 2^-35, 2^10 + k 2^-40, k 2^-40), all others "
    "small integers, so every intermediate value is a multiple of the step below 2^53 steps: binary64 exact, judged exactly",
    "the aliasing clause (caller's array unchanged) is a run-time observation: bytes/shape/dtype of the array object "
    "before and after the call",
]
ASSUMPTIONS = [
    "the property quantifies over reference points weakly dominated by every point (p <= ref componentwise; equality = on the "
    "boundary); the code documents garbage for other inputs, the generators never produce them (ok_case guards every case)",
    "pointset of shape (n, d) with n >= 0, d >= 1 (a 1-D array of scalars is not a point set for this function; the empty set is "
    "covered as an array of shape (0, d) - an empty Python list carries no arity and raises in the translation unless ref = 0: "
    "observed, not counted); NaN/inf excluded; the reference is an array / list / tuple (a pandas Series is not accepted by the "
    "in-place translation: observed, not counted)",
    "recorder streams: the history of jobs is well formed (all successful jobs have the same number >= 2 of objectives)",
]
RULE = ("lattice: sets of <=k distinct points on {0..4}^m, ref=(4..4) (translated for 2 cases in 4): quick = every set of <=3 points for m<=3, "
        "every 1-point set and 3000 seeded 2-/3-point sets for m=4; thorough = every set of <=4 points for m<=2, <=3 points for m=3, <=2 points "
        "for m=4, seeded samples of the 4-point sets (m=3) and the 3-/4-point sets (m=4). highdim_ties: 5-7 objectives on small integer ranges "
        "(tied coordinates, shared projections, boundary points). big_integers: integer-typed arrays / lists of Python ints with extents up to 2^33 "
        "per objective (exact volume beyond 2^63). near_ties: pairs of points differing by 1 ulp .. 1e-5 relative in the objective where one wins. "
        "sequence: 2-6 further calls on the SAME array objects edited in place by the caller between the calls, interleaved with calls of another arity. "
        "input_forms: 18 representations (views, orders, dtypes, containers, empty (0,d) array), references with some zero components. "
        "recorder: histories through ObjectiveRecorder / SearchEarlyStopping / LoggerCallback, objective given as tuple / list / array / numpy scalars, "
        "pickle or deepcopy of the callback in the middle. dyadic/floats: generated from the seed. "
        "non-trivial = at least 2 points and 2 objectives")

F_ND, F_SLICE, F_FAST, F_SPEC, F_CELLS, F_OKEXACT, F_OKCLOSE, F_OKLE, F_OKEQ, F_OKCASE, F_RECOUT, F_OKREC, F_OKRECCLOSE = range(1201, 1214)


# ---------------------------------------------------------------- exact transfer
def frac(v):
    if isinstance(v, (int, np.integer)) and not isinstance(v, (bool, np.bool_)):
        return Fraction(int(v))
    return Fraction(float(v))


def scale_case(pts, ref, others=()):
    """One power-of-two scale s such that every coordinate * s is an integer.  Returns (s, int points, int ref)."""
    fp = [[frac(v) for v in row] for row in pts]
    fr = [frac(v) for v in ref]
    s = 1
    for row in fp + [fr] + [[frac(v) for v in row] for row in others]:
        for f in row:
            if f.denominator > s:
                s = f.denominator
    return s, [[int(f * s) for f in row] for row in fp], [int(f * s) for f in fr]


def as_ratio(h):
    """Exact rational of the value returned by the implementation, or None if it is not a finite real number."""
    if isinstance(h, (bool, np.bool_)):
        return None
    if isinstance(h, (int, np.integer)):
        return int(h), 1
    try:
        x = float(h)
    except (TypeError, ValueError):
        return None
    if not math.isfinite(x):
        return None
    return Fraction(x).as_integer_ratio()


def snapshot(a):
    return (a.shape, a.dtype.str, a.tobytes())


def describe(P, ref):
    n, d = len(P), len(ref)
    keys = ["n=%d" % n if n <= 5 else "n=%s" % ("6-15" if n <= 15 else "16-30" if n <= 30 else "31+"), "m=%d" % d]
    if len(set(map(tuple, P))) < n:
        keys.append("has_dup")
    if any(any(a == b for a, b in zip(p, ref)) for p in P):
        keys.append("has_boundary")
    if any(i != j and all(a <= b for a, b in zip(P[i], P[j])) for i in range(n) for j in range(n)):
        keys.append("has_dominated")
    return keys


# ---------------------------------------------------------------- the check of one (points, ref) case
def run_impl(pts, ref, form="array"):
    """Calls deephyper's hypervolume on a fresh representation of (pts, ref); returns (value, mutated?)."""
    from deephyper.skopt.moo import hypervolume

    if form == "array":
        Y, r = np.array(pts, dtype=float), np.array(ref, dtype=float)
    elif form == "ref_list":
        Y, r = np.array(pts, dtype=float), [float(v) for v in ref]
    elif form == "ref_tuple":
        Y, r = np.array(pts, dtype=float), tuple(float(v) for v in ref)
    elif form == "fortran":
        Y, r = np.asfortranarray(np.array(pts, dtype=float)), np.array(ref, dtype=float)
    elif form == "readonly":
        Y, r = np.array(pts, dtype=float), np.array(ref, dtype=float)
        Y.flags.writeable = False
        r.flags.writeable = False
    elif form == "view":  # non-contiguous view into a larger array: rows 1,3,5,... and the first d columns
        d = len(ref)
        big = np.full((2 * len(pts) + 1, d + 2), 99.0)
        big[1::2, :d] = np.array(pts, dtype=float)
        big0 = snapshot(big)
        Y, r = big[1::2, :d], np.array(ref, dtype=float)
        y0, r0 = snapshot(Y), snapshot(r)
        h = hypervolume(Y, r)
        return h, (snapshot(Y) != y0 or snapshot(r) != r0 or snapshot(big) != big0)
    elif form == "float32":
        Y, r = np.array(pts, dtype=np.float32), np.array(ref, dtype=np.float32)
    elif form == "ref_int_array":  # float points, integer-typed reference (generator: integral ref)
        Y, r = np.array(pts, dtype=float), np.array(ref, dtype=np.int64)
    elif form == "ref_np_scalars":
        Y, r = np.array(pts, dtype=float), [np.float64(v) for v in ref]
    elif form == "neg_stride":  # reversed view: negative row stride
        base = np.array(pts[::-1], dtype=float)
        b0 = snapshot(base)
        Y, r = base[::-1], np.array(ref, dtype=float)
        h = hypervolume(Y, r)
        return h, (snapshot(base) != b0 or snapshot(r) != snapshot(np.array(ref, dtype=float)))
    elif form == "transposed":  # view of a (d, n) array
        base = np.ascontiguousarray(np.array(pts, dtype=float).T)
        b0 = snapshot(base)
        Y, r = base.T, np.array(ref, dtype=float)
        h = hypervolume(Y, r)
        return h, (snapshot(base) != b0)
    elif form in ("list_of_tuples", "tuple_of_tuples"):
        Y = [tuple(float(v) for v in p) for p in pts]
        if form == "tuple_of_tuples":
            Y = tuple(Y)
        r = tuple(float(v) for v in ref)
        y0 = list(Y)
        h = hypervolume(Y, r)
        return h, (list(Y) != y0 or r != tuple(float(v) for v in ref))
    elif form == "pandas_frame":
        import pandas as pd

        Y, r = pd.DataFrame(np.array(pts, dtype=float).reshape(len(pts), len(ref))), [float(v) for v in ref]
        y0 = Y.copy(deep=True)
        h = hypervolume(Y, r)
        return h, (not Y.equals(y0) or r != [float(v) for v in ref])
    elif form == "empty_array":  # no point at all, shape (0, d)
        Y, r = np.zeros((0, len(ref))), np.array(ref, dtype=float)
    elif form == "int_array_int_ref":
        Y, r = np.array(pts, dtype=np.int64), np.array(ref, dtype=np.int64)
    elif form == "int_array_float_ref":
        Y, r = np.array(pts, dtype=np.int64), np.array(ref, dtype=float)
    elif form in ("int_list", "int_list_float_ref"):  # plain lists of Python ints (what ObjectiveRecorder sees for integer objectives)
        Y = [[int(v) for v in p] for p in pts]
        r = [int(v) for v in ref] if form == "int_list" else [float(v) for v in ref]
        y0, r0 = [list(p) for p in Y], list(r)
        h = hypervolume(Y, r)
        return h, (Y != y0 or r != r0 or any(type(v) is not int for p in Y for v in p))
    elif form == "list":
        Y, r = [[float(v) for v in p] for p in pts], [float(v) for v in ref]
        y0, r0 = [list(p) for p in Y], list(r)
        h = hypervolume(Y, r)
        return h, (Y != y0 or r != r0)
    else:
        raise ValueError(form)
    if isinstance(r, np.ndarray):
        y0, r0 = snapshot(Y), snapshot(r)
        h = hypervolume(Y, r)
        return h, (snapshot(Y) != y0 or snapshot(r) != r0)
    y0, r0 = snapshot(Y), tuple(r)
    h = hypervolume(Y, r)
    return h, (snapshot(Y) != y0 or tuple(r) != r0)


def objclass(d):
    """signature class of the number of objectives (known findings F26 / F27 are confined to >= 6 / >= 5 objectives)"""
    return "<=4" if d <= 4 else "5" if d == 5 else "6+"


def base_result(P, ref, extra_desc=()):
    return dict(ok=True, kind="oracle", clause="", sig={}, nontrivial=(len(P) >= 2 and len(ref) >= 2),
                desc=describe(P, ref) + list(extra_desc))


def guard(m, ri, Pi):
    if not m.call(F_OKCASE, [ri, Pi]):
        raise AssertionError("harness: generated case is outside the property (a point does not weakly dominate ref)")


def check_set(case):
    """exact + unchanged + (optionally) the metamorphic clauses + model-internal agreement."""
    pts, ref = case["pts"], case["ref"]
    form = case.get("form", "array")
    m = model()
    others = ([case["extra"]] if case.get("extra") else []) + list(case.get("bnd") or [])
    s, Pi, ri = scale_case(pts, ref, others)
    guard(m, ri, Pi)
    res = base_result(pts, ref, ["form=" + form] if form != "array" else [])
    res["sig"] = dict(form=form, objectives=objclass(len(ref)))
    try:
        h, mutated = run_impl(pts, ref, form)
    except CaseTimeout:
        raise
    except Exception as e:  # nothing may raise on an admissible case
        return dict(res, ok=False, clause="exception:" + type(e).__name__, sig=dict(clause="exception", exc=type(e).__name__, form=form, objectives=objclass(len(ref))),
                    detail="%s: %s" % (type(e).__name__, str(e)[:300]))
    if mutated:
        return dict(res, ok=False, clause="input_mutated", detail="the caller's array / reference changed during the call")
    q = as_ratio(h) if np.ndim(h) == 0 else None
    if q is None:
        return dict(res, ok=False, clause="not_a_finite_number", detail=repr(h))
    tol = case.get("tol")
    if tol == "auto":
        # integer-valued case (scale 1): the float computation is exact while the volume (which bounds every intermediate
        # value: all terms are non-negative) stays below 2^53; beyond that it is correctly rounded step by step -> tolerance
        tol = None if (s == 1 and m.call(F_ND, [ri, Pi]) < 2 ** 53) else [1, 10 ** 9]
    if tol is None:
        good = m.call(F_OKEXACT, [s, ri, Pi, q[0], q[1]])
    else:
        good = m.call(F_OKCLOSE, [s, ri, Pi, q[0], q[1], tol[0], tol[1]])
    if not good:
        mv = Fraction(m.call(F_ND, [ri, Pi]), s ** len(ri))
        return dict(res, ok=False, clause="exact" if tol is None else "close",
                    detail=dict(impl=repr(h), impl_exact=str(Fraction(*q)), model=str(mv), model_float=float(mv)))
    # ---- metamorphic clauses on the implementation's outputs: exact comparisons (ok_le / ok_eq) on the exact streams;
    #      where the value is only close to the model (tol), the same comparisons with 2*tol relative slack
    mform = form if case.get("aux_same_form") else "array"

    def le(a, b):
        if b is None:
            return False
        if tol is None:
            return m.call(F_OKLE, [a[0], a[1], b[0], b[1]])
        return m.call(F_OKLE, [a[0], a[1], b[0] * tol[1] + 2 * tol[0] * abs(b[0]), b[1] * tol[1]])  # a <= b + 2 tol |b|

    def eq(a, b):
        if b is None:
            return False
        if tol is None:
            return m.call(F_OKEQ, [a[0], a[1], b[0], b[1]])
        return le(a, b) and le(b, a)

    if tol is None or case.get("aux_tolerant"):
        ex = case.get("extra")
        if ex is not None:
            guard(m, ri, scale_with(s, [ex]))
            q2 = as_ratio(run_impl(pts + [ex], ref, mform)[0])
            if not le(q, q2):
                return dict(res, ok=False, clause="monotone", detail=dict(before=str(Fraction(*q)), after=repr(q2), added=ex))
        perm = case.get("perm")
        if perm:
            q3 = as_ratio(run_impl([pts[i] for i in perm], ref, mform)[0])
            if not eq(q, q3):
                return dict(res, ok=False, clause="perm_dup", detail=dict(before=str(Fraction(*q)), after=repr(q3), perm=perm))
        bnd = case.get("bnd")
        if bnd:
            guard(m, ri, scale_with(s, bnd))
            q4 = as_ratio(run_impl(pts + bnd, ref, mform)[0])
            q5 = as_ratio(run_impl(bnd, ref, mform)[0])
            if not eq(q, q4) or q5 is None or not m.call(F_OKEQ, [q5[0], q5[1], 0, 1]):
                return dict(res, ok=False, clause="boundary_zero", detail=dict(before=str(Fraction(*q)), with_boundary=repr(q4), boundary_alone=repr(q5), bnd=bnd))
    # ---- the model's evaluators agree among themselves (proved; a disagreement = broken extraction / driver)
    if case.get("internal"):
        lo = min(min(min(p) for p in Pi), min(ri))
        vals = dict(nd=m.call(F_ND, [ri, Pi]), slice=m.call(F_SLICE, [ri, Pi]), fast=m.call(F_FAST, [ri, Pi]))
        if math.prod(max(1, r - lo) for r in ri) <= 4096:  # the unit-grid evaluators enumerate the whole box
            vals["spec"] = m.call(F_SPEC, [lo, ri, Pi])
            vals["cells"] = m.call(F_CELLS, [lo, ri, Pi])
        if len(set(vals.values())) != 1:
            return dict(res, ok=False, kind="corr", clause="model_internal", detail=vals)
    return res


def check_sequence(case):
    from deephyper.skopt.moo import hypervolume

    m = model()
    A = np.array(case["pts"], dtype=float)
    r = np.array(case["ref"], dtype=float)
    d = len(case["ref"])
    res = dict(ok=True, kind="oracle", clause="", sig=dict(objectives=objclass(d)), nontrivial=True,
               desc=["m=%d" % d, "steps=%d" % len(case["steps"])] + sorted(set("op=" + st[0] for st in case["steps"])))

    def judge(Y, rr, what, step):
        y0, r0 = snapshot(Y), snapshot(rr)
        h = hypervolume(Y, rr)
        if snapshot(Y) != y0 or snapshot(rr) != r0:
            return dict(res, ok=False, clause="input_mutated", detail=dict(step=step, call=what))
        q = as_ratio(h) if np.ndim(h) == 0 else None
        Pi, ri = [[int(v) for v in p] for p in Y.tolist()], [int(v) for v in rr.tolist()]
        guard(m, ri, Pi)
        if q is None or not m.call(F_OKEXACT, [1, ri, Pi, q[0], q[1]]):
            return dict(res, ok=False, clause="sequence_exact", detail=dict(step=step, call=what, impl=repr(h), model=m.call(F_ND, [ri, Pi]),
                                                                          pts=Y.tolist(), ref=rr.tolist()))
        return None

    bad = judge(A, r, "first", -1)
    if bad:
        return bad
    for k, st in enumerate(case["steps"]):
        if st[0] == "row":
            A[st[1], :] = r - np.array(st[2], dtype=float)
        elif st[0] == "ref":
            r[st[1]] += st[2]
        elif st[0] == "shift":
            A += st[1]
            r += st[1]
        elif st[0] == "other":
            bad = judge(np.array(st[1], dtype=float), np.array(st[2], dtype=float), "other", k)
            if bad:
                return bad
        bad = judge(A, r, st[0], k)
        if bad:
            return bad
    return res


def scale_with(s, pts):
    out = []
    for p in pts:
        row = []
        for v in p:
            f = frac(v) * s
            if f.denominator != 1:
                raise AssertionError("harness: auxiliary point is not on the case's scale")
            row.append(int(f))
        out.append(row)
    return out


def _as_objective(o, form):
    if form == "list":
        return list(o)
    if form == "array":
        return np.array(o)
    if form == "np_scalars":
        return tuple(np.float64(v) for v in o)
    return tuple(o)


def check_recorder(case):
    """ObjectiveRecorder (evaluator/callback.py) along a history of jobs, directly or through SearchEarlyStopping /
    LoggerCallback (their _best_objective).  The value after every job is judged by the extracted ok_rec_exact on the
    history so far: the recorder model (negation, worst point as reference, failures skipped) is Coq's, not Python's."""
    import contextlib
    import copy
    import io
    import pickle

    from deephyper.evaluator.callback import LoggerCallback, ObjectiveRecorder, SearchEarlyStopping

    objs = case["objs"]  # list of objective vectors (lists) or "F" strings
    via, oform, clone_at = case.get("via", "recorder"), case.get("oform", "tuple"), case.get("clone_at")
    m = model()
    d = len(next(o for o in objs if not isinstance(o, str)))
    res = dict(ok=True, kind="oracle", clause="", sig=dict(objectives=objclass(d), via=via), nontrivial=(len(objs) >= 2),
               desc=["len=%d" % len(objs), "m=%d" % d, "fail=%d" % sum(isinstance(o, str) for o in objs), "via=" + via, "oform=" + oform]
               + (["clone=" + clone_at[1]] if clone_at else []))
    s = 1
    for o in objs:
        if not isinstance(o, str):
            for v in o:
                s = max(s, frac(v).denominator)
    events = [[0] if isinstance(o, str) else [1, [int(frac(v) * s) for v in o]] for o in objs]
    if via == "recorder":
        obj = ObjectiveRecorder()
        rec = obj
    elif via == "early_stopping":
        obj = SearchEarlyStopping(patience=10 ** 6, verbose=0)
        rec = obj._objective_func
    else:
        obj = LoggerCallback()
        rec = obj._objective_func
    handed = []
    for step, o in enumerate(objs):
        if clone_at and clone_at[0] == step:  # the callback object survives a pickle round trip / a deep copy
            obj = pickle.loads(pickle.dumps(obj)) if clone_at[1] == "pickle" else copy.deepcopy(obj)
            rec = obj if via == "recorder" else obj._objective_func
        given = o if isinstance(o, str) else _as_objective(o, oform)
        handed.append((given, copy.deepcopy(given)))
        job = types.SimpleNamespace(objective=given)
        if via == "recorder":
            out = obj(job)
        else:
            with contextlib.redirect_stdout(io.StringIO()):
                obj.on_done(job)
            out = obj._best_objective
        expect = m.call(F_RECOUT, [d, events[: step + 1]])
        if not expect:  # nothing recorded yet
            if via == "recorder" and out != -float("inf"):
                return dict(res, ok=False, clause="recorder_no_objective", detail=repr(out))
            continue
        q = as_ratio(out) if np.ndim(out) == 0 else None
        if case.get("tol") == "auto" and not (s == 1 and expect[0] < 2 ** 53):  # large integers: see check_set
            good = q is not None and m.call(F_OKRECCLOSE, [s, d, events[: step + 1], q[0], q[1], 1, 10 ** 9])
        else:
            good = q is not None and m.call(F_OKREC, [s, d, events[: step + 1], q[0], q[1]])
        if not good:
            return dict(res, ok=False, clause="recorder_exact", detail=dict(step=step, impl=repr(out), model=str(Fraction(expect[0], s ** d))))
        # what was handed over is neither modified nor replaced in the record
        for given, before in handed:
            same = (given == before) if not isinstance(given, np.ndarray) else (snapshot(given) == snapshot(before))
            if not same:
                return dict(res, ok=False, clause="recorder_objectives_mutated", detail=dict(step=step))
        kept = [[frac(v) for v in np.asarray(x).tolist()] for x in rec._objectives]
        want = [[frac(v) for v in x] for x in objs[: step + 1] if not isinstance(x, str)]
        if kept != want:
            return dict(res, ok=False, clause="recorder_objectives_mutated", detail=dict(step=step, kept=str(kept)))
    return res


# ---------------------------------------------------------------- generators
def admissible_point(rng, ref, lo, den):
    """a random point <= ref on the grid 1/den, occasionally on the boundary"""
    return [r if rng.random() < 0.15 else rng.randint(int(lo * den), int(r * den)) / den for r in ref]


def boundary_point(rng, ref, lo, den):
    p = admissible_point(rng, ref, lo, den)
    k = rng.randrange(len(ref))
    p[k] = ref[k]
    return p


def aux(rng, pts, ref, lo, den):
    n = len(pts)
    perm = list(range(n)) + [rng.randrange(n) for _ in range(rng.randint(0, 2))]
    rng.shuffle(perm)
    return dict(extra=admissible_point(rng, ref, lo, den), perm=perm, bnd=[boundary_point(rng, ref, lo, den) for _ in range(rng.randint(1, 2))])


def gen_lattice(plan):
    """plan: list of (m, n, sample) - sample=None: every n-subset of {0..4}^m, else that many seeded random subsets."""
    def gen(rng, tier):
        pl = plan if tier != "search" else [(m, n, 400) for m in (1, 2, 3, 4) for n in (1, 2, 3)]
        i = 0
        for m, n, sample in pl:
            grid = [list(p) for p in itertools.product(range(5), repeat=m)]
            if sample is None:
                combos = itertools.combinations(grid, n)
            else:
                combos = (rng.sample(grid, n) for _ in range(sample))
            for combo in combos:
                i += 1
                shift = (0, 0, 4, 9)[i % 4]  # ref = 0 (no translation in the code) for one case in four
                pts = [[v - shift for v in p] for p in combo]
                ref = [4 - shift] * m
                case = dict(pts=pts, ref=ref)
                if n > 1 and i % 2:
                    rng.shuffle(case["pts"])
                if i % 8 == 0:
                    case.update(aux(rng, pts, ref, -shift, 1), internal=True)
                yield case
    return gen


def rand_set(rng, kind, n, m):
    """points on the grid 1/16; returns (pts, ref)"""
    den = 16
    if kind == "uniform":
        pts = [[rng.randint(-64, 64) / den for _ in range(m)] for _ in range(n)]
    elif kind == "ties":  # few distinct values per coordinate
        vals = [rng.randint(-8, 8) / den for _ in range(3)]
        pts = [[rng.choice(vals) for _ in range(m)] for _ in range(n)]
    elif kind == "antichain":  # equal coordinate sums: (almost) all points are non-dominated
        pts = []
        for _ in range(n):
            v = [rng.randint(-32, 32) for _ in range(m - 1)]
            pts.append([x / den for x in v + [16 - sum(v)]] if m > 1 else [rng.randint(-32, 32) / den])
    elif kind == "chain":  # totally ordered by dominance
        pts = [[(i * 3 + rng.randint(0, 1)) / den] * m for i in rng.sample(range(n), n)]
    elif kind == "dups":
        base = [[rng.randint(-16, 16) / den for _ in range(m)] for _ in range(max(1, n // 3))]
        pts = [list(rng.choice(base)) for _ in range(n)]
    elif kind == "integers":
        pts = [[float(rng.randint(-6, 6)) for _ in range(m)] for _ in range(n)]
    else:
        raise ValueError(kind)
    top = [max(p[k] for p in pts) for k in range(m)]
    mode = rng.choice(["worst", "worst", "above", "zero", "mixed"])
    if mode == "worst":  # the callback's choice: boundary points in every dimension
        ref = top
    elif mode == "above":
        ref = [t + rng.randint(1, 32) / den for t in top]
    elif mode == "zero":  # ref = 0: the code skips the translation
        pts = [[v - t for v, t in zip(p, top)] for p in pts]
        ref = [0.0] * m
    else:
        ref = [t + (0 if rng.random() < 0.5 else rng.randint(1, 16) / den) for t in top]
    return pts, ref


DY_KINDS = ["uniform", "ties", "antichain", "chain", "dups", "integers"]


def gen_dyadic(count, maxn, maxm):
    def gen(rng, tier):
        k = count if tier != "search" else count * 3
        for i in range(k):
            n = rng.choice([1, 2, 3, 4, 5, 8, 13, 20, maxn]) if tier != "search" else rng.randint(1, 6)
            n = min(n, maxn)
            m = 1 + (i % maxm)
            pts, ref = rand_set(rng, DY_KINDS[(i // maxm) % len(DY_KINDS)], n, m)
            lo = min(min(p) for p in pts) - 1
            case = dict(pts=pts, ref=ref, internal=(n <= 12))
            case.update(aux(rng, pts, ref, lo, 16))
            yield case
    return gen


def gen_floats(count, maxn, maxm):
    def gen(rng, tier):
        for i in range(count):
            n = min(maxn, rng.choice([1, 2, 3, 5, 8, 13, 20, 30, 45, 60]))
            m = 1 + (i % maxm)
            if m >= 6:  # beyond the stated 5 objectives: small sets only (cost of the model grows with n^(m-1))
                n = min(n, 12)
            if tier == "search":
                n = rng.randint(1, 6)
            kind = i % 3
            if kind == 0:
                pts = [[rng.uniform(-5, 5) for _ in range(m)] for _ in range(n)]
            elif kind == 1:  # near a sphere: mostly non-dominated
                pts = []
                for _ in range(n):
                    v = [abs(rng.gauss(0, 1)) + 1e-3 for _ in range(m)]
                    nv = math.sqrt(sum(x * x for x in v))
                    pts.append([1.0 - x / nv for x in v])
            else:  # widely different magnitudes per objective
                sc = [10.0 ** rng.randint(-3, 3) for _ in range(m)]
                pts = [[rng.random() * sc[k] for k in range(m)] for _ in range(n)]
            top = [max(p[k] for p in pts) for k in range(m)]
            ref = top if i % 2 else [t + rng.random() for t in top]
            yield dict(pts=pts, ref=ref, tol=[1, 10 ** 9])
    return gen


def gen_highdim(count):
    """>= 5 objectives on small integer ranges: many tied coordinates, points sharing a projection (equal on a block of
    coordinates), boundary points.  This is where the dimension sweep's `ignore` flags and stored areas are exercised."""
    def gen(rng, tier):
        k = count if tier != "search" else count // 4
        for i in range(k):
            d = (5, 5, 5, 6, 6, 7)[i % 6] if tier != "search" else rng.choice([5, 6])
            R = rng.choice([1, 2, 2, 3, 3, 4, 5])
            style = i % 3
            if style == 0:  # plain lattice
                pts = [[rng.randint(0, R) for _ in range(d)] for _ in range(rng.randint(2, 8))]
            elif style == 1:  # a group of points equal on a leading block of coordinates + a few others
                b = rng.randint(max(1, d - 3), d - 1)
                pre = [rng.randint(0, R) for _ in range(b)]
                pts = [pre + [rng.randint(0, R) for _ in range(d - b)] for _ in range(rng.randint(2, 3))]
                pts += [[rng.randint(0, R) for _ in range(d)] for _ in range(rng.randint(1, 3))]
            else:  # copies of a leading or trailing block of a few base points
                base = [[rng.randint(0, R) for _ in range(d)] for _ in range(rng.randint(1, 3))]
                pts = []
                for _ in range(rng.randint(2, 7)):
                    bp, b = rng.choice(base), rng.randint(0, d)
                    pts.append(bp[:b] + [rng.randint(0, R) for _ in range(d - b)] if rng.random() < 0.5
                               else [rng.randint(0, R) for _ in range(d - b)] + bp[d - b:])
            rng.shuffle(pts)
            shift = rng.choice([0, 0, R, 7])
            top = R if rng.random() < 0.7 else R + 1
            pts = [[float(v - shift) for v in p] for p in pts]
            ref = [float(top - shift)] * d
            case = dict(pts=pts, ref=ref, internal=(i % 10 == 0 and top ** d <= 4096))
            if i % 2 == 0:
                case.update(aux(rng, pts, ref, -shift, 1))
            yield case
    return gen


BIG_FORMS = ["int_array_int_ref", "int_list", "int_array_float_ref", "int_list_float_ref", "array", "int_array_int_ref", "int_list"]


def gen_bigint(count):
    """Integer-valued objectives of large magnitude (bytes, nanoseconds, parameter counts): extents up to ~2^33 per
    objective, 2-4 objectives, given as int64 arrays / lists of Python ints / float arrays, int and float reference.
    The exact volume (Python big integers, scale 1) may exceed 2^63."""
    def gen(rng, tier):
        for i in range(count):
            form = BIG_FORMS[i % len(BIG_FORMS)]
            d = 2 + (i // len(BIG_FORMS)) % 3
            n = rng.randint(1, 6) if tier != "search" else rng.randint(1, 3)
            ext, off = [], []
            for k in range(d):
                kind = rng.random()
                e = rng.choice([2 ** 31, 3 * 10 ** 9, 5 * 10 ** 9, 2 ** 33]) if kind < 0.7 else rng.choice([10, 1000, 2 ** 20])
                ext.append(e)
                off.append(rng.choice([0, 0, -e, 10 ** 12, -(10 ** 12)]))
            if rng.random() < 0.3:  # round numbers (many ties)
                pts = [[off[k] + rng.randint(0, 5) * (ext[k] // 5) for k in range(d)] for _ in range(n)]
            else:
                pts = [[off[k] + rng.randint(0, ext[k]) for k in range(d)] for _ in range(n)]
            top = [max(p[k] for p in pts) for k in range(d)]
            mode = rng.choice(["worst", "above", "box"])
            ref = top if mode == "worst" else [t + rng.randint(1, max(1, e // 4)) for t, e in zip(top, ext)] if mode == "above" \
                else [o + e for o, e in zip(off, ext)]
            if form in ("int_array_float_ref", "int_list_float_ref") and rng.random() < 0.5:
                ref = [r + 0.5 for r in ref]
            lo = [min(p[k] for p in pts) for k in range(d)]

            integral = all(float(r).is_integer() for r in ref)

            def adm():  # integer-valued (the int forms cannot carry anything else)
                return [int(math.floor(r)) if rng.random() < 0.15 else rng.randint(l - 3, int(math.floor(r))) for l, r in zip(lo, ref)]

            perm = list(range(n)) + [rng.randrange(n) for _ in range(rng.randint(0, 2))]
            rng.shuffle(perm)
            b1 = adm()
            k = rng.randrange(d)
            b1[k] = ref[k]
            yield dict(pts=pts, ref=ref, form=form, tol="auto", aux_same_form=True, aux_tolerant=True, extra=adm(), perm=perm, bnd=[b1] if integral else None)
    return gen


def gen_near_ties(count):
    """Pairs of points that differ by a tiny RELATIVE margin in the objective(s) where one of them wins and are clearly
    worse elsewhere (latency 100000.0 vs 99999.5).  kind 0-2: ONE fine objective on a dyadic grid (base 2^17 with steps
    2^-35 = 1 ulp, base 2^10 with steps 2^-40, base 0 with steps 2^-40: absolute near-ties), all other objectives small
    integers - every intermediate value of the sweep is then a multiple of the step below 2^53 steps, so binary64 is exact
    and the case is judged EXACTLY; kind 3-4: several fine objectives / arbitrary floats, judged within 1e-9."""
    def gen(rng, tier):
        for i in range(count):
            kind = i % 5
            d = rng.randint(2, 4)
            j = rng.randrange(d)
            if kind <= 2:
                base, step = [(2.0 ** 17, 2.0 ** -35), (2.0 ** 10, 2.0 ** -40), (0.0, 2.0 ** -40)][kind]
                # margins in steps: 1 ulp ... relative 1e-12, 1e-9, 1e-6, and 'latency' margins 0.5 / 1.0 (still < 1e-5 relative)
                if kind == 2:
                    margins = [1, 2, 17, 256, 4000]
                    spread = 8000
                else:
                    unit = int(round(1.0 / step))
                    margins = [1, 3, 2 ** 12, 2 ** 22, 2 ** 29, unit // 8, unit // 2, unit]
                    spread = 3 * unit

                def fine(kk):
                    return base + kk * step

                pts, ks = [], []
                for _ in range(rng.randint(1, 3)):  # near-tied pairs (or triples)
                    u = [rng.randint(0, 4) for _ in range(d)]
                    k0 = rng.randint(spread // 3, spread)
                    pts.append([fine(k0) if t == j else float(u[t]) for t in range(d)])
                    ks.append(k0)
                    for _ in range(rng.randint(1, 2)):
                        k0 = k0 - rng.choice(margins)
                        if k0 < 0:
                            break
                        u = [u[t] + (0 if t == j else rng.randint(0, 2)) for t in range(d)]
                        if all(u[t] == pts[-1][t] for t in range(d) if t != j):
                            u[(j + 1) % d] += 1
                        pts.append([fine(k0) if t == j else float(u[t]) for t in range(d)])
                        ks.append(k0)
                for _ in range(rng.randint(0, 3)):
                    k0 = rng.randint(0, spread)
                    pts.append([fine(k0) if t == j else float(rng.randint(0, 6)) for t in range(d)])
                    ks.append(k0)
                rng.shuffle(pts)
                top = [max(p[t] for p in pts) for t in range(d)]
                ref = [(fine(max(ks) + rng.choice([0, 1, margins[-1]])) if t == j else top[t] + rng.choice([0.0, 1.0, 1.0])) for t in range(d)]

                def adm(boundary=False):
                    p = [fine(rng.randint(0, max(ks))) if t == j else float(rng.randint(0, int(ref[t]))) for t in range(d)]
                    if boundary:
                        t = rng.randrange(d)
                        p[t] = ref[t]
                    return p

                n = len(pts)
                perm = list(range(n)) + [rng.randrange(n)]
                rng.shuffle(perm)
                yield dict(pts=pts, ref=ref, extra=adm(), perm=perm, bnd=[adm(True)], internal=(i % 10 == 0))
            else:
                # staircase + near copies of its points, on objectives of very different magnitude
                m0 = rng.randint(2, 5)
                stair = [[float(t), float(m0 - 1 - t)] + [float(rng.randint(0, 3)) for _ in range(d - 2)] for t in range(m0)]
                eps = rng.choice([4e-6, 1e-7, 1e-9, 1e-11])
                near = [[v + rng.choice([-1.0, 1.0]) * eps * rng.random() for v in p] for p in stair]
                scale = [rng.choice([1.0, 1000.0, 1e-3]) for _ in range(d)]
                offs = [rng.choice([0.0, 250000.0, 0.1, 1e6]) * sc for sc in scale]
                pts = [[v * sc + o for v, sc, o in zip(p, scale, offs)] for p in stair + near]
                if kind == 4:
                    pts += [[rng.uniform(0, m0) * sc + o for sc, o in zip(scale, offs)] for _ in range(rng.randint(0, 4))]
                rng.shuffle(pts)
                top = [max(p[t] for p in pts) for t in range(d)]
                ref = [t_ + rng.choice([0.0, 1.0]) * sc for t_, sc in zip(top, scale)]
                n = len(pts)
                perm = list(range(n))
                rng.shuffle(perm)
                lo = [min(p[t] for p in pts) for t in range(d)]
                extra = [rng.uniform(l, r) for l, r in zip(lo, ref)]
                yield dict(pts=pts, ref=ref, tol=[1, 10 ** 9], aux_tolerant=True, extra=extra, perm=perm)
    return gen


FORMS = ["ref_list", "ref_tuple", "fortran", "readonly", "view", "int_array_int_ref", "int_array_float_ref", "list",
         "float32", "ref_int_array", "ref_np_scalars", "neg_stride", "transposed", "list_of_tuples", "tuple_of_tuples",
         "pandas_frame", "empty_array", "array"]


def gen_forms(count):
    def gen(rng, tier):
        for i in range(count):
            form = FORMS[i % len(FORMS)]
            n, m = rng.randint(1, 6), rng.randint(1, 4)
            if form == "empty_array":
                yield dict(pts=[], ref=[float(rng.randint(-3, 3)) for _ in range(m)], form=form)
                continue
            pts = [[float(rng.randint(-4, 4)) for _ in range(m)] for _ in range(n)]
            top = [max(p[k] for p in pts) for k in range(m)]
            if form == "int_array_float_ref" and i % 2:
                ref = [t + 0.5 for t in top]
            else:
                ref = [t + float(rng.randint(0, 2)) for t in top]
            if (i // len(FORMS)) % 3 == 1 and form != "int_array_float_ref":
                # reference with SOME zero components (the code tests `any(ref)` before translating)
                zero = [k for k in range(m) if rng.random() < 0.5] or [rng.randrange(m)]
                for k in zero:
                    for p in pts:
                        p[k] -= ref[k]
                    ref[k] = 0.0
            case = dict(pts=pts, ref=ref, form=form)
            if i % 2 == 0 and float(min(ref)).is_integer():  # metamorphic clauses in the same input form
                lo = min(min(p) for p in pts)
                perm = list(range(n)) + [rng.randrange(n)]
                rng.shuffle(perm)
                ex = [float(rng.randint(int(lo) - 1, int(r))) for r in ref]
                b1 = [float(rng.randint(int(lo) - 1, int(r))) for r in ref]
                k = rng.randrange(m)
                b1[k] = ref[k]
                case.update(extra=ex, perm=perm, bnd=[b1], aux_same_form=True)
            yield case
    return gen


def gen_sequence(count):
    """Several calls in one process on the SAME array objects, which the caller edits in place between the calls (a growing /
    changing archive), interleaved with calls of another arity.  Small integers: every call is judged exactly."""
    def gen(rng, tier):
        for i in range(count):
            d = rng.randint(1, 5)
            n = rng.randint(1, 6)
            R = rng.randint(2, 4)
            pts = [[rng.randint(0, R) for _ in range(d)] for _ in range(n)]
            ref = [R + rng.randint(0, 1) for _ in range(d)]
            steps = []
            for _ in range(rng.randint(2, 6) if tier != "search" else 2):
                u = rng.random()
                if u < 0.35:  # overwrite one row: the current reference minus these offsets
                    steps.append(["row", rng.randrange(n), [rng.randint(0, R + 1) for _ in range(d)]])
                elif u < 0.5:  # raise one component of the reference
                    steps.append(["ref", rng.randrange(d), rng.randint(1, 3)])
                elif u < 0.65:  # shift the whole archive and the reference (in place)
                    steps.append(["shift", rng.randint(-5, 5)])
                elif u < 0.8:  # a call on other data of another arity in between
                    d2 = rng.randint(1, 5)
                    steps.append(["other", [[rng.randint(0, R) for _ in range(d2)] for _ in range(rng.randint(1, 4))], [R] * d2])
                else:  # the same call again
                    steps.append(["again"])
            yield dict(pts=pts, ref=ref, steps=steps)
    return gen


def gen_recorder(count):
    def gen(rng, tier):
        for i in range(count):
            m = rng.randint(2, 4) if i % 4 else rng.randint(5, 6)
            L = rng.randint(1, 8)
            if i % 7 == 5:  # integer objectives of large magnitude (-bytes, -nanoseconds): the recorder hands int64 arrays over
                m = rng.randint(2, 3)
                G = rng.choice([10 ** 9, 2 ** 31, 2 ** 30])
                yield dict(objs=[[-rng.randint(0, 5) * G - rng.choice([0, 0, rng.randint(0, G)]) for _ in range(m)] for _ in range(L)], tol="auto")
                continue
            if i % 7 == 6:  # near-tied objectives: one objective around -2^17 with steps of 1 ulp .. 1, the others small integers
                m = rng.randint(2, 3)
                j, k0, objs = rng.randrange(m), 2 ** 36, []
                for _ in range(L):
                    k0 -= rng.choice([1, 2 ** 12, 2 ** 22, 2 ** 29, 2 ** 34, 2 ** 35])
                    objs.append([-(2.0 ** 17 + k0 * 2.0 ** -35) if t == j else float(rng.randint(-4, 0)) - len(objs) // 2 for t in range(m)])
                rng.shuffle(objs)
                yield dict(objs=objs)
                continue
            objs = []
            for _ in range(L):
                if rng.random() < 0.15:
                    objs.append("F")
                else:
                    objs.append([rng.randint(-16, 16) / 4 for _ in range(m)] if i % 3 else [rng.randint(-3, 3) for _ in range(m)])
            if all(isinstance(o, str) for o in objs):
                objs.append([0.5] * m)
            case = dict(objs=objs, via=("recorder", "recorder", "early_stopping", "logger")[i % 4], oform=("tuple", "list", "array", "np_scalars")[(i // 4) % 4])
            if i % 5 == 0 and len(objs) > 1:
                case["clone_at"] = [rng.randrange(1, len(objs)), rng.choice(["pickle", "deepcopy"])]
            if case["via"] == "logger":  # the logger formats the objective of every job: keep to successful jobs
                case["objs"] = [o for o in objs if not isinstance(o, str)]
            yield case
    return gen


# ---------------------------------------------------------------- shrinkers
def shrink_set(case):
    pts, ref = case["pts"], case["ref"]
    for key in ("extra", "perm", "bnd"):
        if case.get(key):
            c = dict(case)
            c[key] = None
            yield c
    if len(pts) > 1:
        for i in range(len(pts)):
            c = dict(case, pts=pts[:i] + pts[i + 1:])
            if c.get("perm"):
                c["perm"] = [k - (k > i) for k in c["perm"] if k != i]
            yield c
    if len(ref) > 1:
        for j in range(len(ref)):
            c = dict(case, pts=[p[:j] + p[j + 1:] for p in pts], ref=ref[:j] + ref[j + 1:])
            for key in ("extra",):
                if c.get(key):
                    c[key] = c[key][:j] + c[key][j + 1:]
            if c.get("bnd"):
                c["bnd"] = None
            yield c
    for i in range(len(pts)):  # move a coordinate onto the reference value / round it
        for j in range(len(ref)):
            for w in (ref[j], float(math.floor(pts[i][j]))):
                if w != pts[i][j] and w <= ref[j]:
                    q = [list(p) for p in pts]
                    q[i][j] = w
                    yield dict(case, pts=q)


def shrink_seq(case):
    st = case["steps"]
    for i in range(len(st)):
        yield dict(case, steps=st[:i] + st[i + 1:])
    pts = case["pts"]
    if len(pts) > 1:
        for i in range(len(pts)):
            if all(not (x[0] == "row" and x[1] >= len(pts) - 1) for x in st):
                yield dict(case, pts=pts[:i] + pts[i + 1:])


def shrink_rec(case):
    objs = case["objs"]
    for i in range(len(objs)):
        rest = objs[:i] + objs[i + 1:]
        if any(not isinstance(o, str) for o in rest):
            c = dict(case, objs=rest)
            c.pop("clone_at", None)
            yield c
    if case.get("clone_at"):
        c = dict(case)
        c.pop("clone_at")
        yield c


def streams(tier):
    th = tier == "thorough"
    if th:
        plan = [(1, n, None) for n in (1, 2, 3, 4)] + [(2, n, None) for n in (1, 2, 3, 4)] + [(3, 1, None), (3, 2, None), (3, 3, None), (3, 4, 500000)] \
            + [(4, 1, None), (4, 2, None), (4, 3, 300000), (4, 4, 500000)]
    else:
        plan = [(1, n, None) for n in (1, 2, 3)] + [(2, n, None) for n in (1, 2, 3)] + [(3, 1, None), (3, 2, None), (3, 3, None)] + [(4, 1, None), (4, 2, 3000), (4, 3, 3000)]
    return [
        Stream("lattice", gen_lattice(plan), check_set, shrink_set, timeout=30),
        Stream("highdim_ties", gen_highdim(120000 if th else 15000), check_set, shrink_set, timeout=60),
        Stream("dyadic", gen_dyadic(3000 if th else 480, 30, 5), check_set, shrink_set, timeout=120),
        Stream("floats", gen_floats(700 if th else 140, 60 if th else 30, 7), check_set, shrink_set, timeout=300),
        Stream("big_integers", gen_bigint(7000 if th else 1400), check_set, shrink_set, timeout=60),
        Stream("near_ties", gen_near_ties(20000 if th else 3000), check_set, shrink_set, timeout=60),
        Stream("sequence", gen_sequence(12000 if th else 2000), check_sequence, shrink_seq, timeout=60),
        Stream("input_forms", gen_forms(3600 if th else 720), check_set, shrink_set, timeout=30),
        Stream("recorder", gen_recorder(3000 if th else 480), check_recorder, shrink_rec, timeout=60),
    ]
