"""C15 crash-injection child (run by harness/vp/props/c15.py with /venv/bin/python, never imported).

usage: c15_child.py SCENARIO_JSON PAR   < JSON list of jobs [[K, LOG_DIR, SIDE_DIR, EXTRA?], ...] on stdin   > JSON list of exit codes
The interpreter patches, imports deephyper ONCE and then forks one process per job (PAR at a time); every forked process
runs the whole scenario in its own LOG_DIR and is killed at its own K.
Patches builtins.open / io.open / os.rename / os.replace BEFORE importing deephyper, records every COMPLETED operation on
LOG_DIR/results* (including the ones pandas' to_csv makes) as one JSON line in SIDE_DIR/ops.jsonl, and kills the process
(os._exit, no buffer is flushed) right after operation number K (K = 0: never).  The run-function appends the uid of every
evaluation to SIDE_DIR/finished.txt just before it returns.  Search creations, dump calls (jobs seen, flush flag) and
search() returns are recorded in SIDE_DIR/actions.jsonl.
"""
import builtins
import io
import json
import os
import sys
import time

SCEN = json.loads(sys.argv[1])
PAR = int(sys.argv[2])
LOGDIR, SIDE, K = None, None, 0          # set in the forked process

_open = builtins.open
_oplog = None
_actlog = None
_count = [0]


def _done(rec):
    """One completed operation."""
    _count[0] += 1
    rec["i"] = _count[0]
    _oplog.write(json.dumps(rec) + "\n")
    _oplog.flush()
    os.fsync(_oplog.fileno())
    if _count[0] == K:
        os._exit(77)


def _under(p):
    try:
        p = os.path.abspath(os.fspath(p))
    except TypeError:
        return False
    return os.path.dirname(p) == LOGDIR and os.path.basename(p).startswith("results")


class _W:
    def __init__(self, f, name):
        self._f, self._n = f, name

    def write(self, s):
        r = self._f.write(s)
        _done(dict(op="write", f=self._n, text=s))
        return r

    def writelines(self, lines):
        for ln in lines:
            self.write(ln)

    def close(self):
        if not self._f.closed:
            r = self._f.close()
            _done(dict(op="close", f=self._n))
            return r

    def __enter__(self):
        return self

    def __exit__(self, *a):
        self.close()

    def __getattr__(self, n):
        return getattr(self._f, n)

    def __iter__(self):
        return iter(self._f)


def _popen(file, mode="r", *a, **k):
    if isinstance(file, (str, bytes, os.PathLike)) and _under(file) and any(c in mode for c in "wax+"):
        f = _open(file, mode, *a, **k)
        _done(dict(op="open", mode=mode, f=os.path.basename(os.fspath(file))))
        return _W(f, os.path.basename(os.fspath(file)))
    return _open(file, mode, *a, **k)


builtins.open = _popen
io.open = _popen
_rename, _replace = os.rename, os.replace


def _prename(a, b, *x, **k):
    r = _rename(a, b, *x, **k)
    if _under(a) or _under(b):
        _done(dict(op="rename", a=os.path.basename(os.fspath(a)), b=os.path.basename(os.fspath(b))))
    return r


def _preplace(a, b, *x, **k):
    r = _replace(a, b, *x, **k)
    if _under(a) or _under(b):
        _done(dict(op="replace", a=os.path.basename(os.fspath(a)), b=os.path.basename(os.fspath(b))))
    return r


os.rename = _prename
os.replace = _preplace

if SCEN.get("same_second"):
    _strftime = time.strftime

    def _fixed(fmt, *a):
        if fmt == "%Y%m%d-%H%M%S":
            return "20260101-000000"
        return _strftime(fmt, *a)

    time.strftime = _fixed

import warnings  # noqa: E402

warnings.filterwarnings("ignore")
from deephyper.evaluator import Evaluator  # noqa: E402
from deephyper.hpo import HpProblem, RandomSearch  # noqa: E402


def _act(rec):
    _actlog.write(json.dumps(rec) + "\n")
    _actlog.flush()


def drive_manually(search, evaluator, rounds):
    """The second public entry point: ask / submit / gather / tell / dump, never search()."""
    for n in rounds:
        configs = search.ask(n)
        evaluator.submit(configs)
        results = evaluator.gather("ALL")
        search.tell(results)
        search.dump_jobs_done_to_csv()
    search.dump_jobs_done_to_csv(flush=True)
    evaluator.close()


def run_scenario():
    problem = HpProblem()
    problem.add_hyperparameter((0.0, 10.0), "x")

    for si, sc in enumerate(SCEN["searches"]):
        fails = sc.get("fails", [])
        multi = sc.get("multi", False)

        def make_run(si=si, fails=fails, multi=multi):
            async def run(job):
                j = int(str(job.id).split(".")[-1])
                uid = si * 1000 + j
                fail = fails[j % len(fails)] if fails else False
                with _open(os.path.join(SIDE, "finished.txt"), "a") as f:
                    f.write("%d %d\n" % (uid, 1 if fail else 0))
                if fail:
                    return "F_%d" % uid
                return (float(uid), float((uid * 7) % 5)) if multi else float(uid)
            return run

        evaluator = Evaluator.create(make_run(), method="serial", method_kwargs={"num_workers": sc.get("workers", 1)})
        orig = evaluator.dump_jobs_done_to_csv

        def dump(*a, _ev=evaluator, _orig=orig, _si=si, **k):
            pre = [_si * 1000 + int(str(j.id).split(".")[-1]) for j in _ev.jobs_done]
            flush = bool(k.get("flush", a[2] if len(a) > 2 else False))
            _act(dict(act="dump", pre=pre, flush=flush, at=_count[0]))
            try:
                return _orig(*a, **k)
            finally:
                _act(dict(act="dumped", post=[_si * 1000 + int(str(j.id).split(".")[-1]) for j in _ev.jobs_done]))

        evaluator.dump_jobs_done_to_csv = dump
        _act(dict(act="new", at=_count[0]))
        search = RandomSearch(problem, evaluator, random_state=si + 1, log_dir=LOGDIR)
        if sc.get("drive") == "manual":
            try:
                drive_manually(search, evaluator, sc["calls"])
            except Exception as e:
                _act(dict(act="raised", exc=type(e).__name__, msg=str(e)[:200], at=_count[0]))
            continue
        for n in sc["calls"]:
            try:
                search.search(max_evals=n)
                _act(dict(act="end", at=_count[0]))
            except Exception as e:
                _act(dict(act="raised", exc=type(e).__name__, msg=str(e)[:200], at=_count[0]))
                break
    _act(dict(act="exit"))


def run_restart(spec):
    """A NEW search (and evaluator) in the directory a killed process left behind: fit_surrogate on the survivor (CBO),
    then search(n).  Exceptions are recorded, not raised."""
    from deephyper.hpo import CBO

    problem = HpProblem()
    problem.add_hyperparameter((0.0, 10.0), "x")
    multi = spec.get("multi", False)
    # the new search continues the one whose results.csv survived: same number of objectives
    surv = os.path.join(LOGDIR, "results.csv")
    if os.path.exists(surv):
        with _open(surv) as f:
            head = f.readline()
        if head.strip():
            multi = "objective_0" in head

    async def run(job):
        uid = spec.get("base", 9000) + int(str(job.id).split(".")[-1])
        with _open(os.path.join(SIDE, "finished.txt"), "a") as f:
            f.write("%d 0\n" % uid)
        return (float(uid), float((uid * 7) % 5)) if multi else float(uid)

    try:
        before = set(fn for fn in os.listdir(LOGDIR) if fn.endswith(".csv"))
        evaluator = Evaluator.create(run, method="serial", method_kwargs={"num_workers": 1})
        _act(dict(act="new", at=_count[0]))
        if spec["kind"] == "cbo":
            search = CBO(problem, evaluator, random_state=7, log_dir=LOGDIR, surrogate_model="DUMMY", verbose=0)
            if "results.csv" in before:
                moved = sorted(set(fn for fn in os.listdir(LOGDIR) if fn.endswith(".csv")) - before)
                _act(dict(act="fit_surrogate", files=moved))
                for fn in moved:
                    search.fit_surrogate(os.path.join(LOGDIR, fn))
        else:
            search = RandomSearch(problem, evaluator, random_state=7, log_dir=LOGDIR)
        if spec.get("drive") == "manual":
            drive_manually(search, evaluator, [1] * spec["n"])
        else:
            search.search(max_evals=spec["n"])
            _act(dict(act="end", at=_count[0]))
    except Exception as e:
        import traceback

        _act(dict(act="raised", exc=type(e).__name__, msg=str(e)[:300], tb=traceback.format_exc()[-1200:], at=_count[0]))
    _act(dict(act="exit"))


def run_job(k, log_dir, side, extra=None):
    """In the forked process: never returns."""
    global LOGDIR, SIDE, K, _oplog, _actlog
    LOGDIR, SIDE, K = os.path.abspath(log_dir), os.path.abspath(side), int(k)
    try:
        out = os.open(os.path.join(SIDE, "out.txt"), os.O_WRONLY | os.O_CREAT | os.O_APPEND)
        os.dup2(out, 1)
        os.dup2(out, 2)
        _oplog = _open(os.path.join(SIDE, "ops.jsonl"), "a", buffering=1)
        _actlog = _open(os.path.join(SIDE, "actions.jsonl"), "a", buffering=1)
        if extra and "restart" in extra:
            run_restart(extra["restart"])
        else:
            run_scenario()
        _oplog.flush()
        _actlog.flush()
        os._exit(0)
    except BaseException:
        import traceback

        with _open(os.path.join(SIDE, "err.txt"), "w") as f:
            f.write(traceback.format_exc())
        os._exit(1)


def main():
    jobs = json.loads(sys.stdin.read())
    codes = []
    for i in range(0, len(jobs), PAR):
        pids = []
        for job in jobs[i:i + PAR]:
            pid = os.fork()
            if pid == 0:
                run_job(*job)
            pids.append(pid)
        for pid in pids:
            _, status = os.waitpid(pid, 0)
            codes.append(os.waitstatus_to_exitcode(status))
    sys.stdout.write(json.dumps(codes))
    sys.stdout.flush()


main()
