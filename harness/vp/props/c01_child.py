"""Runs ONE backend case of C01 in a fresh interpreter (process / loky evaluators fork helper processes: doing that from
a forked, multi-threaded harness worker can deadlock in the child).  usage: python -m vp.props.c01_child <case.json>
prints one JSON line: {"hist": ..., "flags": ...}"""
import json
import sys
import warnings

warnings.filterwarnings("ignore")


def main():
    case = json.load(open(sys.argv[1]))
    from vp.props import c01

    hist, flags = c01.run_backend(case)
    sys.stdout.write("\n@@RESULT@@" + json.dumps(dict(hist=hist, flags=flags)) + "\n")
    sys.stdout.flush()


if __name__ == "__main__":
    main()
