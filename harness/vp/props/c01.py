"""C01 - Evaluator delivers every submitted job exactly once.

Tie: trace acceptance.  A generated history of submit / gather / close / dump calls is executed on a real Evaluator
(serial backend: completion order forced by a conductor task living in the evaluator's own event loop; thread / process /
loky backends: sleep-based durations).  The observed history (returned (id, configuration, value) sets, exceptions,
what close recorded, the rows dump wrote, the counters after every call) is replayed by the extracted Coq function
`replay` (C01_Evaluator/Check.v); an accepted history is a run of the model (theorem C01_accepted_history_is_run),
for which exactly-once / batch size / counters / usable-after-close are proved for all histories and schedules.
"""
import asyncio
import csv
import os
import tempfile
import time

from ..driver import model
from ..runner import Stream

PROPERTY = "C01"
LEVEL = "proof"
TRUSTED = [
    "asyncio (wait / cancel / run_until_complete) and the executor backends: their schedules are observed, not modelled; "
    "assumed: a finished task is never lost by asyncio.wait, cancel() of a finished task is a no-op",
    "the conductor (harness) that releases run-functions tick by tick inside the evaluator's loop",
]
ASSUMPTIONS = ["run-functions return (do not raise)", "one evaluator per storage search (job ids are 0,1,2,.. in submission order)"]
RULE = ("random histories over {submit n, gather ALL, gather BATCH k, close, dump}; serial backend with a conductor releasing "
        "the running jobs in random groups (several completions per wake-up, jobs queued behind the semaphore); "
        "non-trivial = the history has a gather that returned >= 2 jobs at once or a close with a job in flight")
CLAUSES = {0: "accepted", 1: "exception_mismatch", 2: "illegal_returned_set", 3: "batch_too_small", 4: "payload",
           5: "close_ledger", 6: "dump_rows", 7: "counters"}

F_REPLAY = 101


def fval(x):
    """value returned for configuration x: job 1 returns the falsy 0, job 0 a negative value (both legal outputs)"""
    return 7 * (x - 1)


def shaped(case, x):
    """what the run-function returns for configuration x: the value fval(x) in one of several legal shapes"""
    v, k = fval(x), case.get("vshape", "int")
    if k == "named":      # a dict of named results that happens to have an "output" entry (no metadata): handed back as it is
        return {"output": v, "aux": [x, "a"]}
    if k == "envelope":   # the {"output", "metadata"} envelope of @profile: the job's output is the inner value
        return {"output": v, "metadata": {"m": x}}
    if k == "tuple":
        return (v, 1)
    if k == "str":
        return "v%d" % v
    return v


def unshaped(case, x, out):
    """the integer value when `out` is exactly what shaped(case, x) should have become, otherwise a sentinel"""
    v, k = fval(x), case.get("vshape", "int")
    exp = {"named": {"output": v, "aux": [x, "a"]}, "envelope": v, "tuple": (v, 1), "str": "v%d" % v}.get(k, v)
    if k == "tuple" and isinstance(out, list):
        out = tuple(out)
    same = type(out) is type(exp) and out == exp
    return v if same else -(10 ** 9)


# ------------------------------------------------------------------ serial backend with a conductor
def run_serial(case):
    from deephyper.evaluator import SerialEvaluator

    events = {}
    returned = []

    async def run_fn(job):
        jid = int(job.id.split(".")[1])
        ev = events.setdefault(jid, asyncio.Event())
        await ev.wait()
        returned.append(jid)
        return shaped(case, job.parameters["x"])

    evaluator = SerialEvaluator(run_fn, num_workers=case["workers"])
    return drive(evaluator, case, events=events, returned=returned)


async def _idle(returned, conductors):
    """Let the loop run until the conductors are done and no run-function has returned for a while (bounded).
    Returns the jobs whose run-function had returned BEFORE a few extra ticks: their tasks are finished for sure."""
    quiet, n = 0, len(returned)
    for _ in range(2000):
        await asyncio.sleep(0)
        if len(returned) == n and all(t.done() for t in conductors):
            quiet += 1
            if quiet >= 10:
                break
        else:
            quiet, n = 0, len(returned)
    snap = list(returned)
    for _ in range(6):
        await asyncio.sleep(0)
    return snap


async def _conductor(events, groups, pause):
    for g in groups:
        for _ in range(pause):
            await asyncio.sleep(0)
        for j in g:
            events.setdefault(j, asyncio.Event()).set()


def drive(evaluator, case, events=None, returned=None):
    """Executes case['ops'] and returns (history for the model, flags)."""
    hist = []
    inflight = []  # ids the harness knows to be in flight (its own bookkeeping, only used to build release groups)
    next_id = 0
    conductors = []
    flags = dict(multi=False, close_inflight=False)
    tmp = tempfile.TemporaryDirectory(prefix="vp_c01_")
    rows_seen = 0
    jobs_done_before = None
    try:
        for op in case["ops"]:
            kind = op[0]
            if kind == "submit":
                xs = op[1]
                exc = 0
                dicts = [{"x": x} for x in xs]
                try:
                    evaluator.submit(dicts)
                except Exception as e:  # MaximumJobsSpawnReached is not expected here (no budget set)
                    exc = 1 if type(e).__name__ == "MaximumJobsSpawnReached" else 2
                if case.get("alias"):
                    # the caller re-uses / edits the dictionaries it submitted: the jobs must keep what was submitted
                    for dct in dicts:
                        dct["x"] = -777
                inflight += list(range(next_id, next_id + len(xs)))
                next_id += len(xs)
                ev = [0, [[x, fval(x)] for x in xs], exc]
            elif kind == "gather":
                _, all_, k, groups_spec, pause = op[:5]
                hold = len(op) > 5 and op[5] == "hold"
                if events is not None and evaluator.loop is not None and inflight:
                    # release every in-flight job, in groups given as index lists into the current in-flight list
                    groups, left = [], list(inflight)
                    for g in groups_spec:
                        grp = [left[i % len(left)] for i in g] if left else []
                        grp = list(dict.fromkeys(grp))
                        left = [j for j in left if j not in grp]
                        groups.append(grp)
                    if not hold:
                        groups.append(left)
                    conductors.append(evaluator.loop.create_task(_conductor(events, groups, pause)))
                exc, res = 0, []
                try:
                    res = evaluator.gather("ALL") if all_ else evaluator.gather("BATCH", size=k)
                except ValueError as e:
                    exc = 1 if "No jobs pending" in str(e) else 2
                    err = repr(e)
                except Exception as e:
                    exc, err = 2, repr(e)
                if isinstance(res, tuple):  # (local, other): no other process shares this search
                    res = list(res[0]) + list(res[1])
                r = []
                for job in res:
                    jid = int(job.id.split(".")[1])
                    r.append([jid, int(job.args["x"]), unshaped(case, int(job.args["x"]), job.output)])
                    if jid in inflight:
                        inflight.remove(jid)
                if len(r) >= 2:
                    flags["multi"] = True
                ev = [1, bool(all_), k, exc, r]
                if exc == 2:
                    flags["error"] = err
            elif kind == "close":
                for t in conductors:
                    t.cancel()
                conductors = []
                before = len(evaluator.jobs_done)
                if inflight and evaluator.loop is not None:
                    flags["close_inflight"] = True
                try:
                    evaluator.close()
                    new = evaluator.jobs_done[before:]
                    d = [int(j.id.split(".")[1]) for j in new if j.status.name == "DONE"]
                    c = [int(j.id.split(".")[1]) for j in new if j.status.name == "CANCELLED"]
                    other = [j.status.name for j in new if j.status.name not in ("DONE", "CANCELLED")]
                    ev = [2, d, c] if not other else [2, [-1], [-1]]
                    inflight = [j for j in inflight if j not in d and j not in c]
                except Exception as e:
                    flags["error"] = repr(e)
                    ev = [2, [10 ** 6], [10 ** 6]]  # impossible ids: rejected with clause close_ledger
            elif kind == "settle":
                # the caller lets the evaluator's loop run until idle: every run-function that has returned by then belongs to a
                # finished task, which the next gather must hand back / the next close must record as DONE
                g = []
                if returned is not None and evaluator.loop is not None and not evaluator.loop.is_closed():
                    snap = evaluator.loop.run_until_complete(_idle(returned, conductors))
                    g = [j for j in snap if j in inflight]
                ev = [5, g]
            elif kind == "dump":
                evaluator.dump_jobs_done_to_csv(tmp.name)
                path = os.path.join(tmp.name, "results.csv")
                rows, pay = [], []
                if os.path.exists(path):
                    with open(path) as f:
                        allrows = list(csv.DictReader(f))
                    for row in allrows[rows_seen:]:
                        jid = int(row["job_id"])
                        done = row["job_status"] == "DONE"
                        rows.append([jid, done])
                        if done and case.get("vshape", "int") == "int":
                            pay.append([jid, int(row["p:x"]), int(row["o:"]) if row.get("o:", "").lstrip("-").isdigit() else -(10 ** 9)])
                    rows_seen = len(allrows)
                ev = [3, rows, pay]
            else:
                raise ValueError(kind)
            tr = getattr(evaluator, "_tasks_running", None)
            # the length of the internal task list is compared when readable, except right after close (what matters
            # there is the public behaviour of the next calls)
            counters = [int(evaluator.num_jobs_submitted), int(evaluator.num_jobs_gathered), len(tr) if tr is not None and kind != "close" else -1]
            hist.append([ev, counters])
            if "error" in flags:
                break
    finally:
        for t in conductors:
            t.cancel()
        try:
            evaluator.close()
        except Exception:
            pass
        ex = getattr(evaluator, "executor", None)
        if ex is not None:
            try:
                ex.shutdown(wait=False, cancel_futures=True)
            except Exception:
                pass
        tmp.cleanup()
    return hist, flags


def verdict(case, hist, flags):
    acc, idx, clause, ledger, njobs, tasks, gathered = model().call(F_REPLAY, hist)
    nt = flags.get("multi") or flags.get("close_inflight")
    desc = ["ops=%d" % len(case["ops"]), "workers=%d" % case["workers"], "backend=" + case.get("backend", "serial")]
    if flags.get("multi"):
        desc.append("multi_return")
    if flags.get("close_inflight"):
        desc.append("close_with_inflight")
    res = dict(ok=True, kind="oracle", clause="", nontrivial=bool(nt), desc=desc, sig={"backend": case.get("backend", "serial")})
    if not acc:
        op = case["ops"][idx][0] if idx < len(case["ops"]) else "?"
        prev_close = any(o[0] == "close" for o in case["ops"][:idx])
        res.update(ok=False, clause=CLAUSES.get(clause, str(clause)),
                   detail=dict(rejected_event=idx, op=case["ops"][idx] if idx < len(case["ops"]) else None, observed=hist[idx] if idx < len(hist) else None, error=flags.get("error")))
        res["sig"].update(op=op, after_close=prev_close)
        return res
    if not ledger:
        res.update(ok=False, clause="ledger", detail=dict(njobs=njobs, tasks=tasks, gathered=gathered))
    return res


def check_serial(case):
    hist, flags = run_serial(case)
    return verdict(case, hist, flags)


# ------------------------------------------------------------------ thread / process / loky backends (sleep-based)
def _sleepy(job):
    time.sleep(job.parameters["d"] / 1000.0)
    return shaped({"vshape": job.parameters.get("s", "int")}, job.parameters["x"])


def run_backend(case):
    from deephyper.evaluator import Evaluator

    evaluator = Evaluator.create(_sleepy, method=case["backend"], method_kwargs={"num_workers": case["workers"]})
    # submit needs the duration too: wrap the ops
    durs = case["durs"]

    class Wrap:
        """presents submit(x-list) to drive() while adding the duration argument"""

        def __init__(self, e):
            self.e = e
            self.n = 0

        def submit(self, args):
            full = []
            for a in args:
                full.append({"x": a["x"], "d": durs[self.n % len(durs)], "s": case.get("vshape", "int")})
                self.n += 1
            return self.e.submit(full)

        def __getattr__(self, k):
            return getattr(self.e, k)

    return drive(Wrap(evaluator), case, events=None)


def check_backend(case):
    if case["backend"] in ("process", "loky"):
        # fresh interpreter: these evaluators fork helper processes (manager, pools)
        import json
        import subprocess
        import sys

        with tempfile.NamedTemporaryFile("w", suffix=".json", prefix="vp_c01_", delete=False) as f:
            json.dump(case, f)
            path = f.name
        from ..procs import run_group

        try:
            rc, stdout, stderr = run_group([sys.executable, "-m", "vp.props.c01_child", path], 90)
        finally:
            os.unlink(path)
        if rc is None:
            return dict(ok=False, kind="oracle", clause="timeout", sig={"backend": case["backend"], "clause": "timeout"}, nontrivial=True,
                        desc=["backend=" + case["backend"], "child_timeout"], detail="the evaluator did not finish the history within 90 s in a fresh interpreter")
        if "@@RESULT@@" not in stdout:
            return dict(ok=False, kind="oracle", clause="exception:child", sig={"backend": case["backend"], "clause": "exception"}, nontrivial=True,
                        desc=["backend=" + case["backend"], "child_failed"], detail=stderr[-2000:])
        out = json.loads(stdout.split("@@RESULT@@")[1].strip())
        return verdict(case, out["hist"], out["flags"])
    hist, flags = run_backend(case)
    return verdict(case, hist, flags)


# ------------------------------------------------------------------ generators
def gen_history(rng, maxops, close_p=0.15):
    ops, inflight, x = [], 0, 0
    n = rng.randint(2, maxops)
    for i in range(n):
        r = rng.random()
        if inflight == 0 and r < 0.75 or r < 0.3:
            k = rng.choice([1, 1, 2, 3, 4, 5])
            ops.append(["submit", list(range(x, x + k))])
            x += k
            inflight += k
        elif r < 0.3 + close_p:
            if rng.random() < 0.4:
                ops.append(["settle"])
            ops.append(["close"])
            inflight = 0
        elif r < 0.34 + close_p:
            ops.append(["settle"])
        elif r < 0.55 + close_p / 2:
            ops.append(["dump"])
        else:
            all_ = rng.random() < 0.35
            k = rng.choice([1, 1, 2, 3, 4, 6, 0])  # 0: the code skips the wait and hands back what is finished already
            ngroups = rng.choice([0, 1, 1, 2, 3])
            groups = [[rng.randint(0, 7) for _ in range(rng.choice([1, 1, 2, 3]))] for _ in range(ngroups)]
            ops.append(["gather", all_, k, groups, rng.choice([0, 1, 3, 6])])
            if all_:
                inflight = 0
            else:
                inflight = max(0, inflight - k)  # a lower bound is enough for the generator
    if rng.random() < 0.5:
        ops.append(["gather", True, 1, [], 1])
    if rng.random() < 0.5:
        ops.append(["close"])
        ops.append(["dump"])
    return ops


def gen_close_reuse(rng, workers):
    """close() that cancels jobs, the evaluator used again, a LATER job handed back by a BATCH gather before an earlier one,
    and a second close while the earlier one still runs - 1 to 3 such rounds (bookkeeping that survives a cancelling close)"""
    ops, x = [], 0
    for _ in range(rng.randint(2, 3)):
        k = rng.randint(2, 4)
        ops.append(["submit", list(range(x, x + k))])
        x += k
        if rng.random() < 0.7:
            # release only one of the later jobs (index >= 1 of the in-flight list); a long pause keeps the others running
            # (one that holds a worker: a job queued behind the semaphore cannot finish while the others keep their workers)
            ops.append(["gather", False, 1, [[rng.randint(1, min(k, workers) - 1)], []], 0, "hold"])
        if rng.random() < 0.3:
            ops.append(["settle"])
        ops.append(["close"])
        if rng.random() < 0.5:
            ops.append(["dump"])
    ops.append(["submit", [x]])
    ops.append(["gather", True, 1, [], 1])
    ops.append(["close"])
    ops.append(["dump"])
    return ops


VSHAPES = ["int", "int", "int", "named", "envelope", "tuple", "str"]


def gen_serial(count):
    def gen(rng, tier):
        # the shortest history that needs a usable evaluator after close comes first
        yield dict(workers=1, ops=[["submit", [0]], ["close"], ["submit", [1]], ["gather", True, 1, [], 1]])
        yield dict(workers=2, ops=[["submit", [0, 1, 2]], ["gather", False, 1, [[0, 1]], 1], ["close"], ["dump"], ["submit", [3]], ["gather", False, 2, [], 0], ["close"], ["dump"]])
        # a job that finishes while the loop is still running after a BATCH gather was satisfied, then close
        yield dict(workers=3, ops=[["submit", [0, 1, 2]], ["gather", False, 1, [[0], [1]], 1], ["settle"], ["close"], ["dump"]])
        # a BATCH gather that does not wait (size 0) while jobs are in flight, then more work
        yield dict(workers=2, ops=[["submit", [0, 1, 2]], ["gather", False, 1, [[0]], 1], ["gather", False, 0, [], 0], ["submit", [3]], ["gather", True, 1, [], 1], ["close"], ["dump"]])
        n = count * (4 if tier == "search" else 1)
        for i in range(n):
            if i % 5 == 4:
                w = rng.choice([2, 2, 3, 4])
                yield dict(workers=w, ops=gen_close_reuse(rng, w), alias=rng.random() < 0.5, vshape=rng.choice(VSHAPES))
            else:
                yield dict(workers=rng.choice([1, 1, 2, 3, 4]), ops=gen_history(rng, 6 if tier == "search" else 12), alias=rng.random() < 0.5, vshape=rng.choice(VSHAPES))
    return gen


def gen_backend(count, backends):
    def gen(rng, tier):
        for i in range(count):
            b = backends[i % len(backends)]
            ops = gen_history(rng, 7, close_p=0.1)
            yield dict(backend=b, workers=rng.choice([1, 2, 4]), ops=ops, durs=[rng.choice([1, 5, 10, 20, 40]) for _ in range(8)], alias=rng.random() < 0.5, vshape=rng.choice(VSHAPES))
    return gen


def shrink(case):
    ops = case["ops"]
    for i in range(len(ops)):
        yield dict(case, ops=ops[:i] + ops[i + 1:])
    for i, o in enumerate(ops):
        if o[0] == "submit" and len(o[1]) > 1:
            yield dict(case, ops=ops[:i] + [["submit", o[1][:-1]]] + ops[i + 1:])
        if o[0] == "gather" and o[3]:
            yield dict(case, ops=ops[:i] + [[o[0], o[1], o[2], o[3][:-1]] + o[4:]] + ops[i + 1:])
    if case["workers"] > 1:
        yield dict(case, workers=case["workers"] - 1)


def streams(tier):
    th = tier == "thorough"
    ss = [Stream("serial_conducted", gen_serial(3000 if th else 400), check_serial, shrink, timeout=30)]
    # process / loky backends start helper processes (manager, pools): thorough tier only
    ss.append(Stream("backends", gen_backend(150 if th else 24, ["thread", "process", "loky"] if th else ["thread"]),
                     check_backend, shrink, timeout=60))
    return ss
