"""C05 - Searches maximise the objective(s).

Tie between the Coq model (coq/theories/C05_Direction) and the code:
  (a) translator facts: MAP_multi_point_strategy / MAP_acq_func / MAP_filter_failures -> Generated/Facts_C05.v, consumed by
      theorem C05_name_maps (a swapped entry breaks a proof obligation; the cbo_names stream then shows the failing input);
  (b) functional correspondence (exact on dyadic inputs): every Mo*Function.scalarize, Optimizer._filter_failures, the lies of
      a multi-point ask (spy on Optimizer._tell), gaussian_lcb, CBO._tell / CBO.fit_surrogate (spy on Optimizer.tell),
      the objective scalers;
  (c) deterministic end-to-end: finite space, every configuration told, kappa = 0, interpolating forest: the next proposal
      is the configuration with the largest objective (Pareto sense for several objectives);
  (d) thorough: statistical end-to-end on monotone problems (a TEST, not a theorem).
Oracle verdicts are computed by the extracted Coq checkers (Check.v), ids 520..532.
"""
import ast
import math
import os
import tempfile
from fractions import Fraction

from ..driver import model
from ..runner import Stream
from .. import srcfacts

PROPERTY = "C05"
LEVEL = "proof"
COQ_DIRS = ("Common",)

# ---------------------------------------------------------------------------------------------------------------
# (a) translator facts
# ---------------------------------------------------------------------------------------------------------------
MAP_NAMES = ("MAP_multi_point_strategy", "MAP_acq_func", "MAP_filter_failures")


def _ast_literals(path):
    """{name: dict | None}: the LAST module-level assignment to each MAP_* name; None when it is not a literal dict of
    string constants (then only the imported value is used)."""
    tree = ast.parse(open(path).read(), filename=path)
    out = {}
    for n in tree.body:
        targets = []
        if isinstance(n, ast.Assign):
            targets, value = n.targets, n.value
        elif isinstance(n, ast.AnnAssign) and n.value is not None:
            targets, value = [n.target], n.value
        for t in targets:
            if isinstance(t, ast.Name) and t.id in MAP_NAMES:
                if isinstance(value, ast.Dict) and all(
                    isinstance(k, ast.Constant) and isinstance(k.value, str) and isinstance(v, ast.Constant) and isinstance(v.value, str)
                    for k, v in zip(value.keys, value.values)
                ):
                    out[t.id] = {k.value: v.value for k, v in zip(value.keys, value.values)}
                else:
                    out[t.id] = None
    return out


def facts(repo):
    import importlib

    path = os.path.join(repo, "src", "deephyper", "hpo", "_cbo.py")
    if not os.path.exists(path):
        return srcfacts.fail_closed("no file " + path), {"error": "missing " + path}
    import warnings

    lits = _ast_literals(path)
    with warnings.catch_warnings():  # importing deephyper changes the warning filters
        mod = importlib.import_module("deephyper.hpo._cbo")
    if os.path.realpath(mod.__file__) != os.path.realpath(path):
        why = "imported deephyper.hpo._cbo is %s, not the tree under check %s" % (mod.__file__, path)
        return srcfacts.fail_closed(why), {"error": why}
    info, lines = {}, []
    for name in MAP_NAMES:
        val = getattr(mod, name, None)
        if not isinstance(val, dict) or not all(isinstance(k, str) and isinstance(v, str) for k, v in val.items()):
            why = "%s is not a dict of strings in the imported module: %r" % (name, val)
            return srcfacts.fail_closed(why), {"error": why}
        if name not in lits:
            why = "%s is not assigned at module level in %s" % (name, path)
            return srcfacts.fail_closed(why), {"error": why}
        if lits[name] is not None and lits[name] != val:
            why = "%s: source literal %r differs from the imported value %r" % (name, lits[name], val)
            return srcfacts.fail_closed(why), {"error": why}
        items = sorted(val.items())
        info[name] = dict(items=items, literal_shape=lits[name] is not None)
        lines.append("Definition %s : list (string * string) :=\n  %s." % (
            name.replace("MAP_", "map_"),
            srcfacts.coq_list(["(%s, %s)" % (srcfacts.coq_string(k), srcfacts.coq_string(v)) for k, v in items])))
    # the names CBO accepts: every accepted name must have a declared meaning in Names.v (a new name that nobody looked at fails
    # closed).  These are literal lists inside CBO.__init__ (or anywhere in the module): ast only.
    allowed = _ast_string_lists(path, ALLOWED_NAMES)
    for name in ALLOWED_NAMES:
        if allowed.get(name) is None:
            why = "no literal list of strings assigned to %s in %s" % (name, path)
            return srcfacts.fail_closed(why), {"error": why}
        info[name] = allowed[name]
        lines.append("Definition cbo_%s : list string :=\n  %s." % (name, srcfacts.coq_list([srcfacts.coq_string(v) for v in allowed[name]])))
    text = "Definition srcfacts_ok := true.\n" + "\n".join(lines) + "\n"
    return text, info


ALLOWED_NAMES = ("multi_point_strategy_allowed", "acq_func_allowed")


def _ast_string_lists(path, names):
    """{name: [str, ...] | None}: assignments `name = [<string constants>]` anywhere in the file; None if some assignment to the name
    is not of that shape or two assignments disagree."""
    tree = ast.parse(open(path).read(), filename=path)
    out = {}
    for n in ast.walk(tree):
        if isinstance(n, ast.Assign) and len(n.targets) == 1 and isinstance(n.targets[0], ast.Name) and n.targets[0].id in names:
            nm, v = n.targets[0].id, n.value
            if isinstance(v, (ast.List, ast.Tuple)) and all(isinstance(e, ast.Constant) and isinstance(e.value, str) for e in v.elts):
                vals = [e.value for e in v.elts]
                out[nm] = vals if out.get(nm, vals) == vals else None
            else:
                out[nm] = None
    return out


TRUSTED = [
    "objective scalers of sklearn (FunctionTransformer / MinMaxScaler / QuantileTransformer) behave as Model.scale_col on the told sample: "
    "checked by stream 'scalers' (values within 1e-12; quantile-uniform with repeated interior values only within the rank interval of the "
    "tied group, np.nanpercentile rounding) and by the Coq oracle ok_scaler_mono; the MODEL scalers are proved increasing (C05_scalers_increasing)",
    "the forest surrogate (deephyper.skopt.learning.RandomForestRegressor with min_samples_split=2, bootstrap=False, splitter='best') reproduces "
    "its training targets on distinct inputs - the interpolation hypothesis of C05_exploit_picks_max / C05_moo_exploit; the 'random' splitter of "
    "surrogate 'ET' does not always do so and is therefore overridden in stream 'e2e_exploit'",
    "np.dot / np.max / np.abs / np.linalg.norm(.,1) / np.mean exact on small dyadic inputs (exact streams); np.linalg.svd and "
    "np.linalg.norm(w)**2 within 1e-9 relative (PBI / Quadratic, default AugChebyshev alpha: tolerance comparison)",
    "scalarised values are compared up to one additive constant per history (argmin / lies / imputation / surrogate fit are equivariant)",
    "the harness's token tables for names (cl_min/cl_mean/cl_max -> 0/1/2, Linear.. -> 0..4, identity/minmax/quantile-uniform -> 0/1/2) and "
    "Names.v's reading of how Optimizer.ask / _filter_failures / _gaussian_acquisition interpret the strategy / policy / acquisition strings "
    "(tied by streams 'lies', 'fit_targets', 'acquisition')",
    "CBO.tell/ask before search(): the harness calls CBO._setup_optimizer() as CBO._search does on its first call",
    "stream 'e2e_stat' is a statistical TEST with fixed seeds (not a theorem): later proposals concentrate at the maximiser",
    "objective scale factors are powers of two (2^-50 .. 2^50): the rescaled history is exact and a scale-free pipeline returns bit-identical "
    "scaled targets, so the metamorphic clause asks for the SAME proposal; two absolute thresholds of scikit-learn limit the scale-free range: "
    "trees treat an impurity <= 2.2e-16 as pure (identity scaler + forest + tiny targets: known finding F70) and MinMaxScaler treats a data "
    "range < 2.2e-15 as zero (such cases are not generated)",
    "improvement-based acquisitions (EI / PI / their d variants / gp_hedge, xi = 0) are run end to end with the spy surrogate and ONE common "
    "positive predicted std (64 for scaled targets, 4 x spread under the identity scaler): EI and PI are then strictly decreasing in the "
    "predicted mean and far from underflow, so the proposal is determined; stream 'fit_targets' observes the incumbent y_opt through a "
    "wrapper on deephyper.skopt.optimizer.optimizer._gaussian_acquisition",
    "objective offsets (+-1000, +-1024, -4096, +-2^20) are dyadic: the shifted history is exact; the offset clause is asked for a single "
    "objective (any scaler) and for several objectives with the identity scaler",
    "one-shot batches (topk / boltzmann) are asked with filter_duplicated=True on a search that has not asked anything before, so the cached "
    "candidate list holds every configuration once; boltzmann only guarantees its FIRST element (argmax of -acquisition), the rest is sampled",
    "acquisition on real forests: zero-std candidates are compared with each other and with one positive-std candidate at a time (weak "
    "direction only); two positive-std EI/PI values of a real forest are not compared (floating-point results of nearby arguments)",
]
ASSUMPTIONS = [
    "objective values are finite numbers (NaN/inf belong to C06)",
    "a first tell that contains only failed evaluations is C06's subject (the C05 streams start with an observation)",
    "moo_upper_bounds (penalty) is not modelled",
    "Model.v describes the REPAIRED scalarize() (fixes/F07_scalarize_relative_to_utopia.patch); today's behaviour is scal_hist_today / C05_cheb_refuted",
]
RULE = ("functional streams: small dyadic vectors/histories per scalarisation x scaler x sign pattern (all-positive / all-negative / mixed), "
        "exact comparison where binary64 is exact, 1e-9 relative otherwise; e2e_exploit: every configuration of a 8..16 point space told, "
        "kappa=0, interpolating forest; non-trivial = at least two distinct objective vectors and the maximiser is not the first candidate")

# function ids (Entry.v)
F_TELL, F_LIE, F_LIEVEC, F_IMPUTE, F_YLIE, F_LCB, F_SCALTODAY, F_SCAL, F_SCALEHIST, F_MOO, F_MOOTODAY, F_ARGMIN, F_SOSCALE, F_QBOUNDS, F_TOPK = range(501, 516)
O_PICKMAX, O_PICKWEAK, O_PICKPARETO, O_PICKIDEAL, O_LIE, O_LIEVEC, O_FILL, O_ORDER, O_LCBDIR, O_MONO, O_STRICT, O_IDEAL, O_SCALER, O_ACQWEAK, O_TOPK = range(520, 535)

LKIND = {"cl_min": 0, "cl_mean": 1, "cl_max": 2}
FPOL = {"mean": 0, "max": 1}
UPOL = {"min": 0, "mean": 1}
SKIND = {"Linear": 0, "Chebyshev": 1, "AugChebyshev": 2, "PBI": 3, "Quadratic": 4}
SCKIND = {"identity": 0, "minmax": 1, "quantile-uniform": 2}
DEFAULT_PAR = {"Linear": 0.0, "Chebyshev": 0.0, "AugChebyshev": 0.001, "PBI": 5.0, "Quadratic": 10.0}
PAR_KW = {"AugChebyshev": "alpha", "PBI": "penalty", "Quadratic": "alpha"}
MONOTONE_KINDS = ("Linear", "Chebyshev", "AugChebyshev")


# ---------------------------------------------------------------------------------------------------------------
# exact numbers <-> driver
# ---------------------------------------------------------------------------------------------------------------
def F(x):
    """Exact rational of a python / numpy number."""
    if isinstance(x, Fraction):
        return x
    if isinstance(x, int):
        return Fraction(x)
    return Fraction(float(x))


def Fl(xs):
    return [F(x) for x in xs]


def Fm(rows):
    return [[F(x) for x in r] for r in rows]


def _den(t, acc):
    if isinstance(t, Fraction):
        acc[0] = acc[0] * t.denominator // math.gcd(acc[0], t.denominator)
    elif isinstance(t, (list, tuple)):
        for y in t:
            _den(y, acc)


def _conv(t, den):
    if isinstance(t, Fraction):
        return int(t * den)
    if isinstance(t, (list, tuple)):
        return [_conv(y, den) for y in t]
    return t


def qpack(*args):
    """[den, args...] with every Fraction replaced by its numerator over the common denominator; ints are tokens."""
    acc = [1]
    for a in args:
        _den(a, acc)
    return [acc[0]] + [_conv(a, acc[0]) for a in args]


def unq(d):
    return Fraction(d[0], d[1])


def unqs(d):
    return [unq(x) for x in d]


def close(a, b, scale, exact, tol=1e-9):
    if exact:
        return a == b
    return abs(a - b) <= Fraction(tol) * max(Fraction(1), abs(scale))


def centered(vals):
    return [v - vals[0] for v in vals] if vals else []


def lists_close(a, b, exact, tol=1e-9):
    if len(a) != len(b):
        return False
    scale = max([abs(x) for x in a] + [abs(x) for x in b] + [Fraction(1)])
    return all(close(x, y, scale, exact, tol) for x, y in zip(a, b))


def interior_ties(cols):
    """some column has a repeated value that is neither its minimum nor its maximum (quantile scaler: library rounding decides
    where in the tied group's rank interval the value lands, see Model.quantile_lo / quantile_hi)."""
    for c in cols:
        inner = [x for x in c if x != min(c) and x != max(c)]
        if len(inner) != len(set(inner)):
            return True
    return False


def quantile_col_ok(m, xs, ts, tol=Fraction(1, 10 ** 12)):
    """implementation's quantile-uniform values of one column within the model's rank interval."""
    b = m.call(F_QBOUNDS, qpack(xs))
    return all(unq(lo) - tol <= t <= unq(hi) + tol for (lo, hi), t in zip(b, ts))


def base_res(desc, nontrivial=True, **sig):
    return dict(ok=True, kind="oracle", clause="", nontrivial=nontrivial, desc=desc, sig=dict(sig))


def fail(res, kind, clause, detail):
    r = dict(res, ok=False, kind=kind, clause=clause, detail=detail)
    r["sig"] = dict(res["sig"], clause=clause)
    return r


def utopia_tag(rows):
    """'zero' when the column-wise minimum of the (scaled) history is the origin."""
    if not rows:
        return "zero"
    m = len(rows[0])
    return "zero" if all(min(r[j] for r in rows) == 0 for j in range(m)) else "nonzero"


def sign_tag(rows):
    flat = [x for r in rows for x in r]
    if all(x >= 0 for x in flat):
        return "neg-objectives" if any(x > 0 for x in flat) else "zero"
    if all(x <= 0 for x in flat):
        return "pos-objectives"
    return "mixed"


# ---------------------------------------------------------------------------------------------------------------
# spy surrogate (a user-supplied sklearn regressor): records what it is fitted on; interpolates its training targets
# ---------------------------------------------------------------------------------------------------------------
_SPY = None


def spy_class():
    global _SPY
    if _SPY is None:
        import numpy as np
        from sklearn.base import BaseEstimator, RegressorMixin

        class SpyRegressor(RegressorMixin, BaseEstimator):
            fits = []     # list of target lists, one per fit
            stds = None   # optional list aligned with the training rows

            def fit(self, X, y):
                SpyRegressor.fits.append([float(v) for v in y])
                self.X_ = np.asarray(X, dtype=float)
                self.y_ = np.asarray(y, dtype=float)
                return self

            def _idx(self, X):
                X = np.asarray(X, dtype=float)
                return np.array([int(np.argmin(np.abs(self.X_ - x).sum(axis=1))) for x in X])

            def predict(self, X, return_std=False, disentangled_std=False):
                idx = self._idx(X)
                mu = self.y_[idx]
                s = SpyRegressor.stds
                std = np.ones(len(idx)) if s is None else np.array([s[i] if i < len(s) else 1.0 for i in idx], dtype=float)
                if disentangled_std:
                    return mu, np.zeros(len(idx)), std
                if return_std:
                    return mu, std
                return mu

        _SPY = SpyRegressor
    _SPY.fits = []
    _SPY.stds = None
    return _SPY


class tell_spy:
    """Context manager recording the calls of Optimizer.tell / Optimizer._tell (class-level wrapper, removed on exit)."""

    def __init__(self, name):
        self.name, self.calls = name, []

    def __enter__(self):
        from deephyper.skopt import Optimizer

        self.cls = Optimizer
        self.orig = getattr(Optimizer, self.name)
        orig, calls = self.orig, self.calls

        def wrapper(opt, x, y, fit=True):
            calls.append((x, y))
            return orig(opt, x, y, fit)

        setattr(Optimizer, self.name, wrapper)
        return self

    def __exit__(self, *a):
        setattr(self.cls, self.name, self.orig)
        return False


def is_2d(x):
    return isinstance(x, (list, tuple)) and len(x) > 0 and all(isinstance(r, (list, tuple)) for r in x)


# ---------------------------------------------------------------------------------------------------------------
# stream: scalarize  (Mo*Function.normalize + scalarize against scal_hist; dominance / utopia oracles)
# ---------------------------------------------------------------------------------------------------------------
def segments(n, cuts):
    """contiguous batches [0:c1], [c1:c2], ... [ck:n] of a history of length n (cuts: increasing indices in 1..n-1)."""
    cs = [0] + [c for c in sorted(set(cuts or [])) if 0 < c < n] + [n]
    return [(a, b) for a, b in zip(cs, cs[1:])]


def gen_cuts(rng, n, tier=None):
    """0-3 cut points: the history is told in 1-4 batches."""
    if n < 2:
        return []
    k = rng.choice([0, 1, 1, 2, 3])
    return sorted(rng.sample(range(1, n), min(k, n - 1)))


def improve_later(rng, rows, p=0.6):
    """with probability p put the rows in an order where later rows tend to be better (minimisation form: smaller sums last), so that
    later batches beat the per-objective best of the earlier ones."""
    if rng.random() < p:
        good = sorted([r for r in rows if r is not None], key=lambda r: -sum(r))
        it = iter(good)
        return [None if r is None else next(it) for r in rows]
    return rows


def run_scalariser(kind, w, par, rows, prefix=0):
    import numpy as np
    from deephyper.skopt.moo import moo_functions

    kw = {}
    if par is not None and kind in PAR_KW:
        kw[PAR_KW[kind]] = par
    f = moo_functions[kind](n_objectives=len(rows[0]), weight=list(w), random_state=0, **kw)
    Y = np.array(rows, dtype=float)
    if prefix:   # the same function object first sees a prefix of the history (an earlier surrogate fit), then the whole history
        f.update_weight()
        f.normalize(Y[:prefix])
        [f.scalarize(y) for y in Y[:prefix]]
        f.update_weight()
    f.normalize(Y)
    Y0 = Y.copy()
    vals = [float(f.scalarize(y)) for y in Y]
    if not np.array_equal(Y, Y0):
        raise AssertionError("scalarize() modified its input rows")
    return vals


def scalar_oracles(res, m, kind, w, rows, vals, dominance=None):
    """Oracles on (rows in minimisation form, implementation's scalar values)."""
    rows_q, vals_q = Fm(rows), Fl(vals)
    wq = Fl(w)
    only_dominance = bool(dominance)
    if dominance is None:
        dominance = kind in MONOTONE_KINDS
    if all(x > 0 for x in wq) and not only_dominance:
        if not m.call(O_IDEAL, qpack(rows_q, vals_q)):
            return fail(res, "oracle", "utopia_not_minimum", dict(rows=rows, vals=vals))
    if dominance and all(x >= 0 for x in wq):
        if not m.call(O_MONO, qpack(rows_q, vals_q)):
            return fail(res, "oracle", "dominance", dict(rows=rows, vals=vals))
        if all(x > 0 for x in wq) and not m.call(O_STRICT, qpack(rows_q, vals_q)):
            return fail(res, "oracle", "dominance_strict", dict(rows=rows, vals=vals))
    return None


def check_scalarize(case):
    kind, w, rows, exact = case["kind"], case["w"], case["rows"], case.get("exact", False)
    par = case.get("par")
    m = model()
    vals = run_scalariser(kind, w, par, rows, case.get("prefix", 0))
    parq = F(DEFAULT_PAR[kind] if par is None else par)
    rows_q = Fm(rows)
    res = base_res(["kind=" + kind, "m=%d" % len(rows[0]), "n=%d" % len(rows), sign_tag(rows_q), "utopia=" + utopia_tag(rows_q),
                    "refit" if case.get("prefix") else "single-fit"],
                   nontrivial=len(set(map(tuple, rows))) > 1, scalarisation=kind, scaler="identity", utopia=utopia_tag(rows_q))
    bad = scalar_oracles(res, m, kind, w, rows, vals, dominance=case.get("dominance"))
    if bad:
        return bad
    if case.get("dominance"):
        return res  # the dominance stream is an oracle-only stream
    mod = unqs(m.call(F_SCAL, qpack(SKIND[kind], parq, Fl(w), len(rows[0]), rows_q)))
    if not lists_close(centered(Fl(vals)), centered(mod), exact and kind in MONOTONE_KINDS):
        return fail(res, "corr", "scalarize_values", dict(impl=vals, model=[float(x) for x in mod]))
    return res


def dy(rng, lo, hi, q=4):
    return rng.randint(lo * q, hi * q) / q


def gen_rows(rng, n, m, sign):
    if sign == "pos":      # all-positive objectives -> negative told values
        lo, hi = -9, -1
    elif sign == "neg":
        lo, hi = 1, 9
    elif sign == "zero_utopia":
        rows = [[dy(rng, 0, 8) for _ in range(m)] for _ in range(n)]
        rows[rng.randrange(n)] = [0.0] * m
        return rows
    else:
        lo, hi = -6, 6
    rows = [[dy(rng, lo, hi) for _ in range(m)] for _ in range(n)]
    k = rng.random()
    if k < 0.35 and n > 1:   # a chain: every row dominated by the next
        base = rows[0]
        rows = [[b + i * dy(rng, 0, 2) + (0.25 if i else 0) for b in base] for i in range(n)]
        rng.shuffle(rows)
    elif k < 0.6:            # an ideal row exists
        best = [min(r[j] for r in rows) for j in range(m)]
        rows[rng.randrange(n)] = best
    return rows


def gen_weights(rng, m, positive=None):
    """dyadic weights: mostly all > 0; sometimes with zeros (positive=None) ."""
    k = rng.random()
    if k < 0.15:
        return [0.25] * m
    if k < 0.8 or positive:
        return [rng.randint(1, 8) / 8 for _ in range(m)]
    w = [rng.randint(0, 4) / 4 for _ in range(m)]
    if not any(w):
        w[rng.randrange(m)] = 0.5
    return w


SIGNS = ["pos", "neg", "mixed", "zero_utopia"]


def gen_scalarize(count):
    def gen(rng, tier):
        kinds = list(SKIND)
        k = count * (4 if tier == "search" else 1)
        # the F07 witness first
        yield dict(kind="Chebyshev", w=[0.5, 0.5], par=None, rows=[[-3.0, -3.0], [-1.0, -1.0]], exact=True)
        # a later observation beats the utopia point of the first fit
        yield dict(kind="Chebyshev", w=[0.5, 0.5], par=None, rows=[[-1.0, -1.0], [-2.0, -2.0], [-3.0, -3.0]], exact=True, prefix=1)
        for i in range(k):
            kind = kinds[i % 5]
            m = rng.choice([1, 2, 2, 3, 3, 4])
            n = rng.randint(1, 4) if tier == "search" else rng.choice([1, 2, 3, 5, 8])
            sign = SIGNS[(i // 5) % 4]
            par = None
            exact = False
            if i % 3 == 0:
                par = {"AugChebyshev": rng.choice([2.0 ** -10, 0.25, 0.0]), "PBI": rng.choice([4.0, 0.5, 0.0]),
                       "Quadratic": rng.choice([8.0, 1.0, 0.5])}.get(kind)
                exact = True
            elif kind in ("Linear", "Chebyshev"):
                exact = True
            rows = gen_rows(rng, n, m, sign)
            case = dict(kind=kind, w=gen_weights(rng, m), par=par, rows=rows, exact=exact)
            if n > 1 and i % 2:
                rows = improve_later(rng, rows)
                case.update(rows=rows, prefix=rng.randint(1, n - 1))
            yield case
    return gen


def gen_dominance(count):
    """PBI / Quadratic against plain dominance (expected: known finding)."""
    def gen(rng, tier):
        yield dict(kind="PBI", w=[0.5, 0.5], par=5.0, rows=[[1.0, 0.5], [1.0, 1.0]], dominance=True)
        yield dict(kind="Quadratic", w=[0.5, 0.5], par=10.0, rows=[[0.0, 1.0], [0.5, 1.0]], dominance=True)
        for i in range(count):
            m = rng.choice([2, 3])
            yield dict(kind=["PBI", "Quadratic"][i % 2], w=gen_weights(rng, m, positive=True), par=None,
                       rows=gen_rows(rng, rng.choice([2, 3, 5]), m, SIGNS[i % 4]), dominance=True)
    return gen


def shrink_rows(case):
    rows = case["rows"]
    for i in range(len(rows)):
        if len(rows) > 1:
            yield dict(case, rows=rows[:i] + rows[i + 1:])
    for i in range(len(rows)):
        for j in range(len(rows[i])):
            v = rows[i][j]
            for wv in (0.0, float(round(v))):
                if wv != v:
                    q = [list(r) for r in rows]
                    q[i][j] = wv
                    yield dict(case, rows=q)


# ---------------------------------------------------------------------------------------------------------------
# stream: fit_targets  (Optimizer.tell -> what the surrogate is fitted on: scaler, scalarisation, failure imputation)
# ---------------------------------------------------------------------------------------------------------------
def make_optimizer(n, pol="max", scaler="identity", kind="Chebyshev", w=None, acq="LCB", kappa=0.0, n_points=8):
    from deephyper.skopt import Optimizer
    from deephyper.skopt.space import Integer

    Spy = spy_class()
    return Optimizer([Integer(0, max(1, n - 1), name="x")], base_estimator=Spy(), n_initial_points=0, acq_func=acq,
                     acq_func_kwargs={"kappa": kappa, "xi": 0.0}, acq_optimizer="sampling",
                     acq_optimizer_kwargs={"n_points": n_points, "filter_duplicated": False, "filter_failures": pol},
                     random_state=0, objective_scaler=scaler, moo_scalarization_strategy=kind, moo_scalarization_weight=w), Spy


def check_fit_targets(case):
    ys, pol, scaler, kind, w = case["ys"], case["pol"], case["scaler"], case["kind"], case["w"]
    n_obj = case["n_obj"]
    m = model()
    import copy

    import deephyper.skopt.optimizer.optimizer as optmod

    par, acq = case.get("par"), case.get("acq", "LCB")
    opt, Spy = make_optimizer(len(ys), pol, scaler, scalariser_instance(kind, n_obj, w, par) if par is not None else kind, w, acq=acq)
    X = [[i] for i in range(len(ys))]
    told = ["F" if y is None else (y[0] if n_obj == 1 else list(y)) for y in ys]
    told0 = copy.deepcopy(told)
    # the incumbent handed to the acquisition function (EI / PI: improvement over y_opt) during each fit
    incumbents, orig_acq = [], optmod._gaussian_acquisition

    def acq_spy(*a, **kw):
        incumbents.append((len(Spy.fits), kw.get("y_opt", a[2] if len(a) > 2 else None)))
        return orig_acq(*a, **kw)

    optmod._gaussian_acquisition = acq_spy
    try:
        for a, b in segments(len(ys), case.get("cuts")):   # the history arrives in 1-4 tells; every tell refits the surrogate
            opt.tell(X[a:b], told[a:b])
    finally:
        optmod._gaussian_acquisition = orig_acq
    fitted = Spy.fits[-1]
    # ... must be the smallest (best) of the values the surrogate of that fit was trained on - same scaler, same scalarisation, same imputation
    for nfit, y_opt in incumbents:
        tgt = Spy.fits[nfit - 1]
        if y_opt is None or not (F(y_opt) in Fl(tgt) and model().call(O_PICKMAX, qpack([-F(v) for v in tgt] + [-F(y_opt)], len(tgt)))):
            return dict(ok=False, kind="oracle", clause="incumbent_not_the_best_fit_target", nontrivial=True, desc=["incumbent"],
                        sig=dict(clause="incumbent_not_the_best_fit_target", scaler=scaler, scalarisation=kind if n_obj > 1 else "none", acq_func=acq),
                        detail=dict(y_opt=None if y_opt is None else float(y_opt), fit_targets=tgt, told=told0))
    if not incumbents:
        return dict(ok=False, kind="corr", clause="acquisition_not_evaluated", nontrivial=True, desc=["incumbent"],
                    sig=dict(clause="acquisition_not_evaluated"), detail=dict(told=told0))
    # scaling / scalarising / imputing work on copies: the caller's lists and the optimizer's own history keep the told values
    if told != told0 or list(opt.yi) != told0:
        return dict(ok=False, kind="oracle", clause="told_values_modified", nontrivial=True, desc=["mutation"],
                    sig=dict(clause="told_values_modified"), detail=dict(told=told0, after=told, history=repr(opt.yi)[:400]))
    good_idx = [i for i, y in enumerate(ys) if y is not None]
    good_rows = Fm([ys[i] for i in good_idx])
    sk = SCKIND["identity" if scaler == "auto" else scaler]   # the spy is not a forest: auto = identity
    utag = "zero" if sk != 0 else utopia_tag(good_rows)
    res = base_res(["n_obj=%d" % n_obj, "scaler=" + scaler, "kind=" + kind, "pol=" + pol, "fails=%d" % (len(ys) - len(good_idx)),
                    sign_tag(good_rows), "tells=%d" % len(segments(len(ys), case.get("cuts"))), "scalariser=" + ("object" if par is not None else "name"), "acq=" + acq],
                   nontrivial=len(set(map(tuple, good_rows))) > 1,
                   scalarisation=kind if n_obj > 1 else "none", scaler=scaler, utopia=utag if n_obj > 1 else "n/a")
    if len(fitted) != len(ys):
        return fail(res, "corr", "fit_length", dict(fitted=fitted))
    fit_good = [fitted[i] for i in good_idx]
    # oracles on the implementation's values
    if n_obj == 1:
        if not m.call(O_SCALER, qpack([r[0] for r in good_rows], Fl(fit_good))):
            return fail(res, "oracle", "scaler_not_increasing", dict(told=told, fitted=fitted))
    else:
        bad = scalar_oracles(res, m, kind, w, [ys[i] for i in good_idx], fit_good)
        if bad:
            return bad
    # a failure ("max" policy) must never look better than an observed value: the fill is the maximum of the fitted targets
    if len(good_idx) < len(ys) and good_idx:
        fills = {fitted[i] for i in range(len(ys)) if ys[i] is None}
        if len(fills) != 1:
            return fail(res, "corr", "fill_not_constant", dict(fitted=fitted, told=told))
        if pol == "max" and not m.call(O_PICKMAX, qpack(Fl(fit_good) + [F(next(iter(fills)))], len(fit_good))):
            return fail(res, "oracle", "failure_preferred", dict(fitted=fitted, told=told))
    # correspondence
    if sk == 2 and interior_ties([[r[j] for r in good_rows] for j in range(n_obj)]):
        if n_obj == 1 and not quantile_col_ok(m, [r[0] for r in good_rows], Fl(fit_good)):
            return fail(res, "corr", "fit_targets", dict(impl=fitted))
        return dict(res, desc=res["desc"] + ["quantile-interior-ties"])
    if n_obj == 1:
        scaled = unqs(m.call(F_SOSCALE, qpack(sk, [r[0] for r in good_rows])))
    else:
        parq = F(DEFAULT_PAR[kind] if par is None else par)
        scaled = unqs(m.call(F_MOO, qpack(sk, SKIND[kind], parq, Fl(w), n_obj, good_rows)))
    it = iter(scaled)
    opts = [[next(it)] if y is not None else [] for y in ys]
    imp = m.call(F_IMPUTE, qpack(FPOL[pol], opts))
    mod = [unq(o[0]) for o in imp]
    exact = sk == 0 and (n_obj == 1 or kind in ("Linear", "Chebyshev")) and pol == "max"
    if not lists_close(centered(Fl(fitted)), centered(mod), exact):
        return fail(res, "corr", "fit_targets", dict(impl=fitted, model=[float(x) for x in mod]))
    return res


def gen_fit_targets(count):
    def gen(rng, tier):
        kinds, scalers = list(SKIND), ["identity", "minmax", "quantile-uniform", "auto"]
        k = count * (3 if tier == "search" else 1)
        yield dict(ys=[[-103.0, -103.0], [-101.0, -101.0]], n_obj=2, pol="max", scaler="identity", kind="Chebyshev", w=[0.5, 0.5])
        yield dict(ys=[[-10.0, -5.0], [-11.0, -7.0], [-12.0, -9.0], [-13.0, -11.0]], n_obj=2, pol="max", scaler="identity", kind="Chebyshev",
                   w=[0.5, 0.5], cuts=[2])
        yield dict(ys=[[-1003.0], [-1001.0], [-1007.0], [-1005.0]], n_obj=1, pol="max", scaler="quantile-uniform", kind="Linear", w=[1.0], cuts=[2],
                   acq="EI")
        for i in range(k):
            n_obj = [1, 2, 3][i % 3]
            n = rng.randint(2, 5) if tier == "search" else rng.choice([2, 3, 5, 9])
            rows = gen_rows(rng, n, n_obj, SIGNS[(i // 3) % 4])
            if rng.random() < 0.4:
                for j in rng.sample(range(n), rng.randint(1, max(1, n // 3))):
                    if sum(r is not None for r in rows) > 1:
                        rows[j] = None
            rows = improve_later(rng, rows)
            if rows[0] is None:   # the first tell must contain an observation (an all-failure first fit is C06's subject)
                j = next(j for j, r in enumerate(rows) if r is not None)
                rows[0], rows[j] = rows[j], rows[0]
            case = dict(ys=rows, n_obj=n_obj, pol=["max", "mean"][(i // 7) % 2], scaler=scalers[(i // 2) % 4], kind=kinds[i % 5],
                        w=gen_weights(rng, n_obj, positive=True if i % 4 else None), cuts=gen_cuts(rng, n))
            case["acq"] = rng.choice(["LCB", "LCB", "LCBd", "EI", "PI", "EId", "PId", "gp_hedge", "gp_hedged"])
            if n_obj > 1 and rng.random() < 0.25:   # a scalariser object with its own parameter instead of a name
                case["par"] = {"AugChebyshev": rng.choice([0.25, 2.0 ** -10, 0.0]), "PBI": rng.choice([4.0, 0.5, 0.0]),
                               "Quadratic": rng.choice([8.0, 2.0, 1.0])}.get(case["kind"], 0.0)
            yield case
    return gen


def shrink_ys(case):
    ys = case["ys"]
    cuts = case.get("cuts") or []
    for i in range(len(cuts)):
        yield dict(case, cuts=cuts[:i] + cuts[i + 1:])
    for i in range(len(ys)):
        if len(ys) > 2:
            yield dict(case, ys=ys[:i] + ys[i + 1:])
    for i in range(len(ys)):
        if ys[i] is not None:
            for j in range(len(ys[i])):
                v = ys[i][j]
                for wv in (0.0, float(round(v))):
                    if wv != v:
                        q = [None if r is None else list(r) for r in ys]
                        q[i][j] = wv
                        yield dict(case, ys=q)


# ---------------------------------------------------------------------------------------------------------------
# stream: lies  (constant liar through Optimizer.ask, and through CBO with the user-level names)
# ---------------------------------------------------------------------------------------------------------------
def const_scheduler(i, eta_0):
    return eta_0


ZCAT = ["a", "b", "c", "d"]


def make_cbo(d, n_x, surrogate, n_obj_kind="Chebyshev", w=None, strategy="cl_max", ff="min", acq="UCB", kappa=0.0, scaler="identity",
             n_points=16, seed=0, surrogate_kwargs=None, n_z=1, filter_duplicated=False, zcat=False, **extra):
    from deephyper.hpo import CBO, HpProblem

    extra.setdefault("xi", 0.0)   # EI / PI: improvement over the incumbent itself (the proposal on a finite told set stays determined)

    pb = HpProblem()
    pb.add_hyperparameter((0, max(1, n_x - 1)), "x")
    if n_z > 1:
        pb.add_hyperparameter(ZCAT[:n_z] if zcat else (0, n_z - 1), "z")

    def run(job):
        return 0.0

    s = CBO(pb, run, log_dir=d, random_state=seed, surrogate_model=surrogate, surrogate_model_kwargs=surrogate_kwargs, acq_func=acq, kappa=kappa,
            acq_optimizer="sampling", n_points=n_points, filter_duplicated=filter_duplicated, n_initial_points=1, scheduler=const_scheduler, objective_scaler=scaler,
            moo_scalarization_strategy=n_obj_kind, moo_scalarization_weight=w, multi_point_strategy=strategy, filter_failures=ff, verbose=0, **extra)
    # CBO.tell / CBO.ask need the optimizer that CBO._search creates on its first call
    s._setup_optimizer()
    return s


def scalariser_instance(kind, n_obj, w, par):
    """a MoScalarFunction object given instead of a name (the second way to choose the scalarisation), with its own parameter."""
    from deephyper.skopt.moo import moo_functions

    kw = {PAR_KW[kind]: par} if par is not None and kind in PAR_KW else {}
    return moo_functions[kind](n_objectives=n_obj, weight=list(w), random_state=0, **kw)


def as_type(v, otype):
    import numpy as np

    if otype == "int" and float(v).is_integer() and abs(v) < 2.0 ** 62:   # (a python int beyond int64 makes np.negative(obj) a plain int)
        return int(v)
    if otype == "np":
        return np.float64(v)
    return float(v)


def check_lies(case):
    ys, strategy, n_obj = case["ys"], case["strategy"], case["n_obj"]
    m = model()
    kind_tok = LKIND[strategy]
    rows_good = Fm([y for y in ys if y is not None])
    res = base_res(["level=" + case["level"], "strategy=" + strategy, "n_obj=%d" % n_obj, "fails=%d" % sum(y is None for y in ys),
                    "policy=" + case["pol"]], nontrivial=len(set(map(tuple, rows_good))) > 1, strategy=strategy, level=case["level"],
                   filter_failures=case["pol"])
    exact = strategy != "cl_mean" and case["pol"] != "mean"
    if case["level"] == "opt":
        opt, Spy = make_optimizer(len(ys), case["pol"], "identity", "Linear", [1.0 / n_obj] * n_obj, n_points=8)
        import copy

        told = ["F" if y is None else (y[0] if n_obj == 1 else list(y)) for y in ys]
        opt.tell([[i] for i in range(len(ys))], told)
        n_ask = case.get("n_ask", 2)
        before = copy.deepcopy((opt.Xi, opt.yi, len(opt.models)))
        with tell_spy("_tell") as sp:
            opt.ask(n_points=n_ask, strategy=strategy)
        # the lies live in a copy of the optimizer: the history and the fitted models of the optimizer itself are untouched
        if (opt.Xi, opt.yi, len(opt.models)) != before:
            return fail(res, "oracle", "lies_left_in_history", dict(before=repr(before)[:300], after=repr((opt.Xi, opt.yi))[:300]))
        lies = [y for (x, y) in sp.calls if not is_2d(x)]
        if len(lies) != n_ask - 1:
            return fail(res, "corr", "lie_count", dict(calls=repr(sp.calls)[:500]))
        # model: every lie is computed on the failure-imputed history INCLUDING the previous lies
        hist = [None if y is None else Fl(y) for y in ys]
        pol_kind = LKIND["cl_max"] if case["pol"] == "max" else LKIND["cl_mean"]
        for lie in lies:
            good = [r for r in hist if r is not None]
            if n_obj == 1:
                mod = [unq(m.call(F_YLIE, qpack(FPOL[case["pol"]], kind_tok, [[] if r is None else [r[0]] for r in hist])))]
                got = [F(lie)]
            else:
                fill = unqs(m.call(F_LIEVEC, qpack(pol_kind, n_obj, good))) if good else [Fraction(0)] * n_obj
                mod = unqs(m.call(F_LIEVEC, qpack(kind_tok, n_obj, [fill if r is None else r for r in hist])))
                got = Fl(lie)
            if not lists_close(got, mod, exact and len(lies) == 1, 1e-12):
                return fail(res, "corr", "lie_value", dict(impl=lie, model=[float(x) for x in mod]))
            hist.append(got)
        return res
    # ---- CBO level: user names; objectives are the user's (larger is better) ----
    import numpy as np

    Spy = spy_class()
    with tempfile.TemporaryDirectory(prefix="vp_c05_") as d:
        s = make_cbo(d, len(ys), Spy(), strategy=strategy, ff=case["pol"], w=[1.0 / n_obj] * n_obj, n_obj_kind="Linear")
        results = [({"x": i}, "F_fail" if y is None else (y[0] if n_obj == 1 else tuple(y))) for i, y in enumerate(ys)]
        s.tell(results)
        fitted = Spy.fits[-1]
        with tell_spy("_tell") as sp:
            s.ask(2)
    lies = [y for (x, y) in sp.calls if not is_2d(x)]
    if len(lies) != 1:
        return fail(res, "corr", "lie_count", dict(calls=repr(sp.calls)[:500]))
    lie = lies[0]
    objs = [None if y is None else Fl(y) for y in ys]
    if n_obj == 1:
        good = [o[0] for o in objs if o is not None]
        filled = list(good)
        if any(o is None for o in objs):
            fills = {fitted[i] for i, o in enumerate(objs) if o is None}
            if len(fills) != 1:
                return fail(res, "corr", "fill_not_constant", dict(fitted=fitted))
            fill = F(next(iter(fills)))
            # user-level meaning of filter_failures: a failure is given the min / mean of the user's objectives
            if not close(-fill, unq_fill_user(m, case["pol"], good), max([abs(g) for g in good] + [1]), case["pol"] == "min", 1e-12) \
                    or (case["pol"] == "min" and not m.call(O_FILL, qpack(UPOL["min"], good, fill))):
                return fail(res, "oracle", "failure_value", dict(fitted=fitted, objectives=[None if y is None else y[0] for y in ys]))
            filled = [(-fill if o is None else o[0]) for o in objs]
        if exact:
            if not m.call(O_LIE, qpack(kind_tok, filled, F(lie))):
                return fail(res, "oracle", "lie_user_meaning", dict(lie_told=lie, objectives=[float(x) for x in filled]))
        else:
            want = unq(m.call(F_LIE, qpack(kind_tok, filled)))
            if not close(-F(lie), want, max([abs(x) for x in filled] + [1]), False, 1e-12):
                return fail(res, "oracle", "lie_user_meaning", dict(lie_told=lie, objectives=[float(x) for x in filled]))
    else:
        rows = [o for o in objs if o is not None]
        if exact:
            if not m.call(O_LIEVEC, qpack(kind_tok, n_obj, rows, Fl(lie))):
                return fail(res, "oracle", "lie_user_meaning", dict(lie_told=lie, objectives=[list(map(float, r)) for r in rows]))
        else:
            want = unqs(m.call(F_LIEVEC, qpack(kind_tok, n_obj, rows)))
            if not lists_close([-x for x in Fl(lie)], want, False, 1e-12):
                return fail(res, "oracle", "lie_user_meaning", dict(lie_told=lie, objectives=[list(map(float, r)) for r in rows]))
    return res


def unq_fill_user(m, pol, good):
    """fill_user through the model's lie (min / mean of the user's objectives)."""
    return unq(m.call(F_LIE, qpack(LKIND["cl_min"] if pol == "min" else LKIND["cl_mean"], good)))


def gen_lies(count):
    def gen(rng, tier):
        strategies = ["cl_min", "cl_mean", "cl_max"]
        k = count * (3 if tier == "search" else 1)
        for i in range(k):
            level = "cbo" if tier == "search" or i % 2 else "opt"
            n_obj = [1, 1, 2, 3][i % 4]
            n = rng.choice([1, 2, 3, 4, 8]) if tier != "search" else rng.randint(1, 4)
            rows = gen_rows(rng, n, n_obj, SIGNS[(i // 4) % 3])
            if (n_obj == 1 or level == "opt") and rng.random() < 0.4 and n > 1:
                for j in rng.sample(range(1, n), rng.randint(1, n - 1)):   # the first told result is an observation
                    rows[j] = None
            pol = (["min", "mean"] if level == "cbo" else ["max", "mean"])[(i // 5) % 2]
            yield dict(level=level, ys=rows, n_obj=n_obj, strategy=strategies[(i // 2) % 3], pol=pol, n_ask=rng.choice([2, 2, 3, 4]))
    return gen


# ---------------------------------------------------------------------------------------------------------------
# stream: cbo_tell  (what reaches Optimizer.tell from CBO.tell / CBO.fit_surrogate)
# ---------------------------------------------------------------------------------------------------------------
def check_cbo_tell(case):
    ys, ff, n_obj, path = case["ys"], case["ff"], case["n_obj"], case["path"]
    m = model()
    Spy = spy_class()
    res = base_res(["path=" + path, "ff=" + ff, "n_obj=%d" % n_obj, "fails=%d" % sum(y is None for y in ys), "otype=" + case.get("otype", "float")],
                   nontrivial=len({tuple(y) for y in ys if y is not None}) > 1, path=path, filter_failures=ff)
    with tempfile.TemporaryDirectory(prefix="vp_c05_") as d:
        s = make_cbo(d, len(ys), Spy(), ff=ff, w=[1.0 / n_obj] * n_obj, n_obj_kind="Linear")
        with tell_spy("tell") as sp:
            otype = case.get("otype", "float")
            if path == "tell":
                import copy

                results = [({"x": i}, case["fail_label"] if y is None else
                            (as_type(y[0], otype) if n_obj == 1 else (list if otype == "np" else tuple)(as_type(v, otype) for v in y)))
                           for i, y in enumerate(ys)]
                results0 = copy.deepcopy(results)
                s.tell(results)
                if repr(results) != repr(results0):
                    return fail(res, "oracle", "results_modified", dict(before=repr(results0)[:300], after=repr(results)[:300]))
            elif path == "fit_surrogate_df":
                import pandas as pd

                data = {"p:x": list(range(len(ys)))}
                for j in range(n_obj):
                    data["objective" if n_obj == 1 else "objective_%d" % j] = [float(y[j]) for y in ys]
                data["job_id"] = list(range(len(ys)))
                s.fit_surrogate(pd.DataFrame(data))
            else:
                csv = os.path.join(d, "prev.csv")
                cols = ["objective"] if n_obj == 1 else ["objective_%d" % j for j in range(n_obj)]
                with open(csv, "w") as f:
                    f.write(",".join(["p:x"] + cols + ["job_id"]) + "\n")
                    for i, y in enumerate(ys):
                        cells = [case["fail_label"]] * n_obj if y is None else [repr(float(v)) for v in y]
                        f.write(",".join([str(i)] + cells + [str(i)]) + "\n")
                s.fit_surrogate(csv)
    calls = sp.calls
    if any(y is not None for y in ys) or ff != "ignore":
        if len(calls) != 1:
            return fail(res, "corr", "tell_count", dict(calls=repr(calls)[:500]))
    if not calls:
        return res
    X, Y = calls[0]
    got = []
    for x, y in zip(X, Y):
        cfg = int(x[0])
        if isinstance(y, str):
            got.append((cfg, None))
        else:
            got.append((cfg, tuple(Fl(y if isinstance(y, (list, tuple)) else [y]))))
    # oracle: per objective, a larger objective is a smaller told value
    for j in range(n_obj):
        objs = [F(ys[c][j]) for c, t in got if t is not None and ys[c] is not None]
        told = [t[j] for c, t in got if t is not None and ys[c] is not None]
        if not m.call(O_ORDER, qpack(objs, told)):
            return fail(res, "oracle", "order_not_reversed", dict(objectives=[float(x) for x in objs], told=[float(x) for x in told]))
    if any(t is not None and ys[c] is None for c, t in got):
        return fail(res, "oracle", "failure_told_as_number", dict(told=repr(Y)[:300]))
    # correspondence with cbo_tell (the order of the told list is not part of the relation)
    jobs = [[i, ([] if y is None else [Fl(y)])] for i, y in enumerate(ys)]
    mod = m.call(F_TELL, qpack(ff == "ignore", jobs))   # both CBO.tell and CBO.fit_surrogate drop the failures under "ignore"
    mod_c = sorted((c, None if not t else tuple(unqs(t[0]))) for c, t in mod)
    if sorted(got) != mod_c:
        return fail(res, "corr", "told_values", dict(impl=repr(sorted(got))[:600], model=repr(mod_c)[:600]))
    return res


def gen_cbo_tell(count):
    def gen(rng, tier):
        k = count * (3 if tier == "search" else 1)
        for i in range(k):
            n_obj = [1, 2, 3][i % 3]
            n = rng.choice([1, 2, 3, 5, 8]) if tier != "search" else rng.randint(1, 3)
            rows = gen_rows(rng, n, n_obj, SIGNS[(i // 3) % 3])
            if rng.random() < 0.4 and n > 1:
                for j in rng.sample(range(n), rng.randint(1, n - 1)):
                    rows[j] = None
            path, ff = ["tell", "fit_surrogate"][(i // 2) % 2], ["min", "mean", "ignore"][(i // 4) % 3]
            if path == "fit_surrogate" and all(r is not None for r in rows) and rng.random() < 0.5:
                path = "fit_surrogate_df"   # a DataFrame instead of a csv path
            yield dict(path=path, ys=rows, n_obj=n_obj, ff=ff, fail_label=rng.choice(["F", "F_timeout", "F_fail"]),
                       otype=rng.choice(["float", "int", "np"]))
    return gen


# ---------------------------------------------------------------------------------------------------------------
# stream: acquisition  (gaussian_lcb sign; EI / PI direction)
# ---------------------------------------------------------------------------------------------------------------
class StubModel:
    def __init__(self, mu, std):
        import numpy as np

        self.mu, self.std = np.asarray(mu, dtype=float), np.asarray(std, dtype=float)

    def predict(self, X, return_std=False, disentangled_std=False):
        import numpy as np

        if disentangled_std:   # (mean, aleatoric, epistemic): the deterministic variants must use the epistemic part
            return self.mu, np.full(len(self.mu), 64.0), self.std
        if return_std:
            return self.mu, self.std
        return self.mu


def acq_direction_ok(m, acq, triples):
    """direction oracle; where some predicted std is exactly 0, EI / PI are 0 there and only the weak clause can be asked."""
    zero = any(t[1] == 0 for t in triples)
    if zero and not acq.startswith("LCB"):
        return bool(m.call(O_ACQWEAK, qpack(triples)))
    return bool(m.call(O_LCBDIR, qpack(triples)))


def check_acq(case):
    import numpy as np
    from deephyper.skopt.acquisition import _gaussian_acquisition, gaussian_lcb

    if "forest" in case:
        return check_acq_forest(case)
    acq, kappa, mus, stds = case["acq"], case["kappa"], case["mus"], case["stds"]
    m = model()
    X = np.zeros((len(mus), 1))
    stub = StubModel(mus, stds)
    res = base_res(["acq=" + acq, "n=%d" % len(mus), "kappa=%g" % kappa, "zero-std" if any(sd == 0 for sd in stds) else "positive-std"],
                   nontrivial=len(set(zip(mus, stds))) > 1, acq_func=acq)
    vals = _gaussian_acquisition(X, stub, y_opt=case["y_opt"], acq_func=acq, acq_func_kwargs=dict(kappa=kappa, xi=case["xi"]))
    vals = [float(v) for v in vals]
    triples = [[F(a), F(b), F(c)] for a, b, c in zip(mus, stds, vals)]
    if not acq_direction_ok(m, acq, triples):
        return fail(res, "oracle", "acquisition_direction", dict(mus=mus, stds=stds, vals=vals, y_opt=case["y_opt"]))
    if acq in ("LCB", "LCBd"):
        mod = unqs(m.call(F_LCB, qpack(F(kappa), Fl(mus), Fl(stds))))
        direct = [float(v) for v in gaussian_lcb(X, stub, kappa=kappa, deterministic=acq.endswith("d"))]
        if Fl(vals) != mod or Fl(direct) != mod:
            return fail(res, "corr", "lcb_values", dict(impl=vals, direct=direct, model=[float(x) for x in mod]))
    return res


def check_acq_forest(case):
    """a real forest surrogate on a dense 1-D history: at many candidates all trees agree and the (epistemic) std is exactly 0."""
    import numpy as np
    from deephyper.skopt.acquisition import _gaussian_acquisition
    from deephyper.skopt.learning import RandomForestRegressor

    fo, acq = case["forest"], case["acq"]
    m = model()
    est = RandomForestRegressor(n_estimators=8, min_samples_split=2, bootstrap=fo["bootstrap"], max_samples=None, max_features=1.0,
                                splitter=fo["splitter"], random_state=fo["seed"])
    Xt = np.array(fo["x"], dtype=float).reshape(-1, 1)
    yt = np.array(fo["y"], dtype=float)
    est.fit(Xt, yt)
    X = np.array(fo["cand"], dtype=float).reshape(-1, 1)
    if acq.endswith("d"):
        mu, _, std = est.predict(X, return_std=True, disentangled_std=True)
    else:
        mu, std = est.predict(X, return_std=True)
    vals = _gaussian_acquisition(X, est, y_opt=float(yt.min()), acq_func=acq, acq_func_kwargs=dict(kappa=1.96, xi=case["xi"]))
    nz = int((std == 0).sum())
    res = base_res(["acq=" + acq, "forest=" + fo["splitter"], "zero-std=%d/%d" % (min(nz, 9), 9) if nz < 9 else "zero-std>=9"],
                   nontrivial=nz > 0, acq_func=acq)
    tr = [[F(a), F(b), F(c)] for a, b, c in zip(mu, std, vals)]
    zeros = [t for t in tr if t[1] == 0]
    pos = [t for t in tr if t[1] != 0]
    # all zero-std candidates together, plus one positive-std candidate at a time (two positive-std candidates are never compared: their
    # EI values are floating-point results of nearby arguments)
    groups = [zeros] if not pos else [zeros + [t] for t in pos[:6]]
    for g in groups:
        if g and not m.call(O_ACQWEAK, qpack(g)):
            return fail(res, "oracle", "acquisition_direction", dict(mu=[float(t[0]) for t in g], std=[float(t[1]) for t in g],
                                                                    vals=[float(t[2]) for t in g], y_opt=float(yt.min())))
    return res


def gen_acq(count):
    def gen(rng, tier):
        acqs = ["LCB", "LCBd", "EI", "PI", "EId", "PId"]
        # a candidate with zero predicted std that is predicted WORSE than the best observation must not get a better value than one
        # predicted better
        yield dict(acq="EId", kappa=1.96, xi=0.0, y_opt=0.0, mus=[-1.0, 3.0, 0.5], stds=[0.0, 0.0, 0.0])
        yield dict(acq="EI", kappa=1.96, xi=0.0, y_opt=0.0, mus=[-1.0, 3.0, 0.5], stds=[1.0, 0.0, 0.0])
        for i in range(count * (3 if tier == "search" else 1)):
            acq = acqs[i % 6]
            n = rng.randint(2, 6)
            if (i // 6) % 4 == 3 and not acq.startswith("LCB"):
                # real forest, dense history
                nt = rng.randint(4, 12)
                ys = [dy(rng, -8, 8) for _ in range(nt)]
                cand = [float(x) for x in range(nt)] + [x + 0.5 for x in range(nt - 1)] + [-1.0, nt + 1.0]
                yield dict(acq=acq, xi=rng.choice([0.0, 0.001, 0.01]), kappa=1.96,
                           forest=dict(x=list(range(nt)), y=ys, cand=cand, seed=rng.randint(0, 10 ** 6),
                                       splitter=rng.choice(["random", "best"]), bootstrap=rng.random() < 0.3))
                continue
            if acq.startswith("LCB"):
                mus = [dy(rng, -8, 8) for _ in range(n)]
                stds = [dy(rng, 0, 4) for _ in range(n)]
                kappa = rng.choice([0.0, 0.5, 1.0, 2.0, 0.25])
            else:   # EI / PI: one common positive std (PI is not monotone in std), moderate standardised improvement
                sd = rng.choice([0.5, 1.0, 2.0])
                stds = [sd] * n
                mus = [dy(rng, -2, 2) for _ in range(n)]
                kappa = 1.96
                if (i // 6) % 2:   # some (or all) candidates with std exactly 0: the trees of a forest agree there
                    for j in rng.sample(range(n), rng.randint(1, n)):
                        stds[j] = 0.0
                    mus = [dy(rng, -6, 6) for _ in range(n)]
            yield dict(acq=acq, kappa=kappa, xi=rng.choice([0.0, 0.001, 0.01]), y_opt=dy(rng, -1, 1), mus=mus, stds=stds)
    return gen


# ---------------------------------------------------------------------------------------------------------------
# stream: scalers  (cook_objective_scaler on its own sample; 'auto' resolution)
# ---------------------------------------------------------------------------------------------------------------
def check_scalers(case):
    import numpy as np
    from deephyper.skopt.utils import cook_objective_scaler

    name, base, rows = case["scaler"], case["base"], case["rows"]
    m = model()
    if base in ("RF", "ET"):
        from deephyper.skopt.learning import RandomForestRegressor

        est = RandomForestRegressor(n_estimators=2)
    elif base == "GP":
        from deephyper.skopt.learning import GaussianProcessRegressor

        est = GaussianProcessRegressor()
    else:
        est = None
    expect = name if name != "auto" else ("quantile-uniform" if base in ("RF", "ET") else "identity")
    res = base_res(["scaler=" + name, "base=%s" % base, "n=%d" % len(rows)], nontrivial=len(set(map(tuple, rows))) > 1, scaler=name, base=str(base))
    sc = cook_objective_scaler(name, est)
    Y = np.array(rows, dtype=float)
    T = np.asarray(sc.fit_transform(Y), dtype=float)
    ncol = len(rows[0])
    for j in range(ncol):
        if not m.call(O_SCALER, qpack(Fl(Y[:, j]), Fl(T[:, j]))):
            return fail(res, "oracle", "scaler_not_increasing", dict(col=j, x=Y[:, j].tolist(), t=T[:, j].tolist()))
    if expect == "quantile-uniform":
        for j in range(ncol):
            if not quantile_col_ok(m, Fl(Y[:, j]), Fl(T[:, j])):
                return fail(res, "corr", "scaled_values", dict(col=j, x=Y[:, j].tolist(), impl=T[:, j].tolist()))
        if interior_ties([Fl(Y[:, j]) for j in range(ncol)]):
            return dict(res, desc=res["desc"] + ["quantile-interior-ties"])
    mod = m.call(F_SCALEHIST, qpack(SCKIND[expect], ncol, Fm(rows)))
    tol = 1e-12
    if expect == "minmax":
        # MinMaxScaler computes x*scale + (-min*scale): the rounding error grows with |offset| / range (2 ulp of |x| * scale)
        for j in range(ncol):
            rng_j = float(Y[:, j].max() - Y[:, j].min())
            if rng_j > 0:
                tol = max(tol, 8 * 2.0 ** -52 * float(np.abs(Y[:, j]).max()) / rng_j)
    for r_impl, r_mod in zip(T.tolist(), mod):
        if not lists_close(Fl(r_impl), unqs(r_mod), expect == "identity", tol):
            return fail(res, "corr", "scaled_values", dict(impl=T.tolist(), model=[[float(unq(x)) for x in r] for r in mod]))
    return res


def gen_scalers(count):
    def gen(rng, tier):
        names = ["identity", "minmax", "quantile-uniform", "auto"]
        for i in range(count * (3 if tier == "search" else 1)):
            n = rng.choice([1, 2, 3, 4, 5, 6, 7, 8, 9, 11, 14, 17]) if tier != "search" else rng.randint(1, 5)
            ncol = rng.choice([1, 2, 3])
            rows = [[dy(rng, -8, 8) if rng.random() < 0.8 else rng.choice([0.0, 1.0]) for _ in range(ncol)] for _ in range(n)]
            r = rng.random()
            if r < 0.1:      # a constant column (zero range)
                j, v = rng.randrange(ncol), dy(rng, -8, 8)
                rows = [row[:j] + [v] + row[j + 1:] for row in rows]
            elif r < 0.2:    # a large offset with small dyadic variations (exact in binary64)
                off = rng.choice([2.0 ** 30, -2.0 ** 40])
                rows = [[off + v for v in row] for row in rows]
            elif r < 0.45:   # the same sample rescaled by a tiny / huge positive factor (power of two: exact); minmax and quantile-uniform
                c = 2.0 ** rng.choice([-50, -43, -40, -33, -30, -20, 20, 30, 40, 50])   # return the same values as for the unscaled sample
                rows = [[v * c for v in row] for row in rows]
            yield dict(scaler=names[i % 4], base=[None, "RF", "ET", "GP"][(i // 4) % 4], rows=rows)
    return gen


# ---------------------------------------------------------------------------------------------------------------
# stream: e2e_exploit  (deterministic end-to-end: every configuration told, kappa = 0, interpolating surrogate)
# ---------------------------------------------------------------------------------------------------------------
# splitter="best": fully grown trees on distinct inputs reproduce their training targets; the "random" splitter of "ET" does not
# always do so (a node may stay unsplit), so the interpolation hypothesis of the theorem is only met with "best"
FOREST_KW = dict(n_estimators=4, min_samples_split=2, bootstrap=False, max_samples=None, max_features=1.0, splitter="best")


CL = ("cl_min", "cl_mean", "cl_max")


def check_e2e(case):
    n_obj, kind, scaler, w, surrogate = case["n_obj"], case["kind"], case["scaler"], case["w"], case["surrogate"]
    objs, nx, nz, kappa = case["objs"], case["nx"], case["nz"], case.get("kappa", 0.0)
    strategy, batch = case.get("strategy", "cl_max"), case.get("batch", 1)
    fails, ff, par, bounds = set(case.get("fails") or []), case.get("ff", "min"), case.get("par"), case.get("lower_bounds")
    oscale = case.get("oscale")   # the objectives (and what is on their scale) multiplied by 2**oscale: exact, the pipeline is scale-free
    base_objs, base_stds, base_bounds = objs, case.get("stds"), bounds
    ooffset = case.get("ooffset")   # a constant added to every objective (dyadic: exact); see where the pipeline is offset-free below
    if oscale:
        c = 2.0 ** oscale
        objs = [[v * c for v in r] for r in objs]
        bounds = None if bounds is None else [None if b is None else b * c for b in bounds]
        # the spy's predicted std is on the scale of the fitted targets: it follows the objectives only under the identity scaler
        std_c = c if scaler in ("identity", "auto") else 1.0
        case = dict(case, objs=objs, stds=None if base_stds is None else [sd * std_c for sd in base_stds], lower_bounds=bounds)
    elif ooffset:
        objs = [[v + ooffset for v in r] for r in objs]
        bounds = None if bounds is None else [None if b is None else b + ooffset for b in bounds]
        case = dict(case, objs=objs, lower_bounds=bounds)
    zcat, otype, path = bool(case.get("zcat")), case.get("otype", "float"), case["path"]
    m = model()
    zval = (lambda j: ZCAT[j]) if zcat else (lambda j: j)
    cfgs = [{"x": i, "z": zval(j)} if nz > 1 else {"x": i} for i in range(nx) for j in range(nz)]
    assert len(cfgs) == len(objs)
    objs_q = Fm(objs)
    ok_idx = [i for i in range(len(objs)) if i not in fails]
    if fails:   # stand-in for the oracle: a failed configuration is never better than the worst observed one
        worst = [min(objs_q[i][j] for i in ok_idx) for j in range(n_obj)]
        objs_q = [worst if i in fails else r for i, r in enumerate(objs_q)]
    forest = surrogate in ("ET", "RF")
    eff_scaler = scaler if scaler != "auto" else ("quantile-uniform" if forest else "identity")
    told_rows = [[-x for x in objs_q[i]] for i in ok_idx]
    utag = "n/a" if n_obj == 1 else ("zero" if eff_scaler != "identity" else utopia_tag(told_rows))
    best_first = all(all(a >= b for a, b in zip(objs_q[0], r)) for r in objs_q)
    segs = segments(len(cfgs), case.get("cuts"))
    res = base_res(["n_obj=%d" % n_obj, "kind=" + (kind if n_obj > 1 else "-"), "scaler=" + scaler, "surrogate=" + surrogate, "acq=" + case["acq"],
                    "path=" + path, "weights=" + ("random" if w is None else "fixed"), sign_tag(told_rows), "kappa=%g" % kappa,
                    "tells=%d" % len(segs), "strategy=%s" % strategy, "batch=%d" % batch, "fails=%d" % min(len(fails), 3),
                    "asks-between-tells" if case.get("interleave") else "no-asks-between", "scalariser=" + ("object" if par is not None else "name"),
                    "bounds" if bounds else "no-bounds", "otype=" + otype, "z=" + ("cat" if zcat else "int") if nz > 1 else "z=-",
                    "pattern=" + case.get("pattern", "-"), "oscale=2^%d" % oscale if oscale else "oscale=1",
                    "offset=%+g" % ooffset if ooffset and not oscale else "offset=0"],
                   nontrivial=len(set(map(tuple, objs))) > 1 and not best_first,
                   scalarisation=kind if n_obj > 1 else "none", scaler=eff_scaler, utopia=utag, surrogate=surrogate, n_obj=n_obj,
                   objective_scale="one" if not oscale else ("tiny" if oscale < 0 else "huge"), path=path)
    if surrogate == "SPY":
        Spy = spy_class()
        sur, kw = Spy(), None
    else:
        sur, kw = surrogate, dict(FOREST_KW)
    def to_idx(nxt):
        key = {k: (v if isinstance(v, str) else int(v)) for k, v in nxt.items()}
        return cfgs.index(key) if key in cfgs else None

    def run_impl(objs, stds, bounds):
      """tells the history (objs), returns (asked, again) as index lists"""
      extra = {}
      if bounds:
          extra["moo_lower_bounds"] = bounds
      kind_arg = scalariser_instance(kind, n_obj, w, par) if par is not None else kind

      def outcome(i):
          if i in fails:
              return "F_fail"
          o = [as_type(v, otype) for v in objs[i]]
          return o[0] if n_obj == 1 else tuple(o)

      with tempfile.TemporaryDirectory(prefix="vp_c05_") as d:
          # batches ("topk", "boltzmann", "qUCB") rank a de-duplicated candidate list (nothing has been ASKED before, so the filter only
          # removes repeated samples)
          s = make_cbo(d, nx, sur, n_obj_kind=kind_arg, w=w, acq=case["acq"], kappa=kappa, scaler=scaler, n_points=512, seed=case["seed"],
                       surrogate_kwargs=kw, n_z=nz, strategy=strategy, filter_duplicated=strategy not in CL, ff=ff, zcat=zcat, **extra)
          if surrogate == "SPY":
              Spy.stds = stds
          inter = case.get("interleave") or []
          for bi, (a, b) in enumerate(segs):
              # "tell": every batch through CBO.tell; "fit_surrogate*": the first batch is a checkpoint given to fit_surrogate, the rest is told
              if path == "tell" or bi > 0:
                  s.tell([(dict(cfgs[i]), outcome(i)) for i in range(a, b)])
              else:
                  cols = ["objective"] if n_obj == 1 else ["objective_%d" % j for j in range(n_obj)]
                  names = ["p:x", "p:z"] if nz > 1 else ["p:x"]
                  if path == "fit_surrogate_df":
                      import pandas as pd

                      data = {nm: [cfgs[i][nm[2:]] for i in range(a, b)] for nm in names}
                      for j, cn in enumerate(cols):
                          data[cn] = [float(objs[i][j]) for i in range(a, b)]
                      data["job_id"] = list(range(b - a))
                      s.fit_surrogate(pd.DataFrame(data))
                  else:
                      csv = os.path.join(d, "prev.csv")
                      with open(csv, "w") as f:
                          f.write(",".join(names + cols + ["job_id"]) + "\n")
                          for i in range(a, b):
                              cells = ["F_fail"] * n_obj if i in fails else [repr(float(v)) for v in objs[i]]
                              f.write(",".join([str(cfgs[i][k[2:]]) for k in names] + cells + [str(i)]) + "\n")
                      s.fit_surrogate(csv)
              if bi < len(segs) - 1 and bi < len(inter) and inter[bi]:
                  s.ask(inter[bi])   # proposals (and, for n > 1, constant-liar lies) between two tells: must leave no trace in the history
          # constant-liar names: the FIRST element of a batch is the exploitation-only proposal (the others follow the lies)
          asked = s.ask(batch)
          if strategy in CL:
              asked = asked[:1]
          again = s.ask(1) if case.get("twice") and strategy in CL else None
      return asked, again

    asked, again = run_impl(objs, case.get("stds"), bounds)
    idxs = [to_idx(nxt) for nxt in asked]
    if any(i is None for i in idxs):
        return fail(res, "oracle", "proposal_outside_space", dict(proposal=repr(asked)))
    if oscale or ooffset:
        # metamorphic: the same history with the objectives on their original scale / without the offset (same seeds) gives the same
        # proposal(s) - compared by the objective vectors of the proposed configurations (equal objectives are interchangeable)
        asked1, _ = run_impl(base_objs, base_stds, base_bounds)
        idxs1 = [to_idx(nxt) for nxt in asked1]
        vec = lambda l: [tuple(base_objs[i]) for i in l if i is not None]
        if strategy in ("topk", "qUCB", "qUCBd"):
            same = sorted(vec(idxs1)) == sorted(vec(idxs))
        elif strategy == "boltzmann":
            same = vec(idxs1[:1]) == vec(idxs[:1])
        else:
            same = vec(idxs1) == vec(idxs)
        if not same:
            what = "scale" if oscale else "offset"
            return fail(res, "oracle", "proposal_changes_with_objective_" + what,
                        dict(transform="*2**%d" % oscale if oscale else "%+g" % ooffset, proposal_transformed=idxs, proposal_original=idxs1,
                             objectives=base_objs))
    if again is not None:
        idxs2 = [to_idx(nxt) for nxt in again]
        if idxs2 != idxs[:1]:
            # a second ask without new information: the same exploitation-only proposal (it is subject to the same oracle)
            idxs = idxs + [i for i in idxs2 if i is not None]
    key, idx = cfgs[idxs[0]], idxs[0]   # cl_*: the proposal; boltzmann: its first element is the candidate with the best acquisition value
    if strategy in ("topk", "qUCB", "qUCBd"):
        return check_topk_batch(case, res, m, idxs, objs_q, told_rows, eff_scaler)
    if strategy == "boltzmann" and len(idxs) != batch:
        return fail(res, "corr", "batch_size", dict(asked=repr(asked)))
    det = dict(proposal=key, objective=objs[idx], objectives=objs, fails=sorted(fails))
    if n_obj == 1:
        score = [r[0] for r in objs_q]
        if kappa and case.get("stds"):   # user-level UCB: objective + kappa * sigma is maximised
            score = [r[0] + F(kappa) * F(sd) for r, sd in zip(objs_q, case["stds"])]
        for i in ([idx] if strategy == "boltzmann" else idxs):
            if not m.call(O_PICKMAX, qpack(score, i)):
                return fail(res, "oracle", "not_the_largest_objective", dict(det, picked=i))
        return res
    if not m.call(O_PICKIDEAL, qpack(objs_q, idx)):
        return fail(res, "oracle", "ideal_configuration_not_proposed", det)
    wpos = w is None or all(x > 0 for x in w)
    if wpos and kind in ("Linear", "AugChebyshev") and (par is None or par > 0 or kind == "Linear") and not m.call(O_PICKPARETO, qpack(objs_q, idx)):
        return fail(res, "oracle", "dominated_configuration_proposed", det)
    if wpos and kind in ("Chebyshev", "AugChebyshev") and not m.call(O_PICKWEAK, qpack(objs_q, idx)):
        return fail(res, "oracle", "dominated_configuration_proposed", det)
    if bounds:
        return res   # the penalty of moo_lower_bounds is not modelled: oracles only
    if eff_scaler == "quantile-uniform" and interior_ties([[r[j] for r in told_rows] for j in range(n_obj)]):
        return dict(res, desc=res["desc"] + ["quantile-interior-ties"])
    if w is not None:   # correspondence with the model's scalarised history: the proposal minimises it
        parq = F(DEFAULT_PAR[kind] if par is None else par)
        mod = unqs(m.call(F_MOO, qpack(SCKIND[eff_scaler], SKIND[kind], parq, Fl(w), n_obj, told_rows)))
        lo = min(mod)
        if mod[idx] - lo > Fraction(1, 10 ** 9) * max([abs(x) for x in mod] + [1]):
            return fail(res, "corr", "proposal_not_model_argmin", dict(det, model=[float(x) for x in mod], picked=idx))
    return res


def check_topk_batch(case, res, m, idxs, objs_q, told_rows, eff_scaler):
    """ask(n, "topk") on a fully observed space: the batch is the n best candidates (as a set)."""
    n_obj, kind, w, batch, kappa = case["n_obj"], case["kind"], case["w"], case["batch"], case.get("kappa", 0.0)
    det = dict(batch=idxs, objectives=case["objs"])
    if n_obj == 1:
        score = [r[0] for r in objs_q]
        if kappa and case.get("stds"):
            score = [r[0] + F(kappa) * F(sd) for r, sd in zip(objs_q, case["stds"])]
        if not m.call(O_TOPK, qpack(score, batch, idxs)):
            return fail(res, "oracle", "batch_not_the_largest_objectives", det)
        return res
    if len(set(idxs)) != len(idxs) or len(idxs) != min(batch, len(objs_q)):
        return fail(res, "oracle", "batch_not_distinct", det)
    # a candidate that is best in every objective belongs to the batch (all five scalarisers)
    ideal = [i for i in range(len(objs_q)) if all(all(a >= b for a, b in zip(objs_q[i], r)) for r in objs_q)]
    if ideal and not any(m.call(O_PICKIDEAL, qpack(objs_q, i)) for i in idxs):
        return fail(res, "oracle", "ideal_configuration_not_in_batch", det)
    if case.get("lower_bounds"):
        return res
    if eff_scaler == "quantile-uniform" and interior_ties([[r[j] for r in told_rows] for j in range(n_obj)]):
        return dict(res, desc=res["desc"] + ["quantile-interior-ties"])
    if w is not None:   # the batch has the n smallest model scores (value multiset, ties in any order)
        parq = F(DEFAULT_PAR[kind] if case.get("par") is None else case["par"])
        mod = unqs(m.call(F_MOO, qpack(SCKIND[eff_scaler], SKIND[kind], parq, Fl(w), n_obj, told_rows)))
        want = sorted(mod[i] for i in m.call(F_TOPK, qpack(batch, mod)))
        got = sorted(mod[i] for i in idxs)
        if not lists_close(got, want, False):
            return fail(res, "corr", "batch_not_model_topk", dict(det, model=[float(x) for x in mod]))
    return res


def gen_objs(rng, n, n_obj, pattern):
    """user objectives: a base pattern, then offset / scale (all-positive, all-negative, mixed sign)."""
    base = [[dy(rng, 0, 8) for _ in range(n_obj)] for _ in range(n)]
    k = rng.random()
    if k < 0.4:   # one configuration is best in every objective
        best = [max(r[j] for r in base) + (0.25 if rng.random() < 0.5 else 0.0) for j in range(n_obj)]
        base[rng.randrange(n)] = best
    elif k < 0.6 and n_obj > 1:   # a chain
        step = [dy(rng, 0, 1) + 0.25 for _ in range(n_obj)]
        base = [[i * s for s in step] for i in range(n)]
        rng.shuffle(base)
    scale = rng.choice([1.0, 0.25, 8.0, 1024.0])
    off = {"pos": rng.choice([1.0, 100.0, 4096.0]), "neg": -rng.choice([9.0, 100.0, 4096.0]) * scale - 8 * scale, "mixed": -4.0 * scale}[pattern]
    return [[v * scale + off for v in r] for r in base]


def gen_e2e(count):
    def gen(rng, tier):
        kinds, scalers = list(SKIND), ["auto", "identity", "minmax", "quantile-uniform"]
        # F07 end to end: all-positive objectives, identity scaler, Chebyshev
        yield dict(n_obj=2, kind="Chebyshev", scaler="identity", w=[0.5, 0.5], surrogate="ET", acq="UCB", path="tell", nx=4, nz=1,
                   objs=[[100.0, 100.0], [101.0, 103.0], [107.0, 106.0], [104.0, 105.0]], seed=3)
        # objectives of the order 1e-12 with the default scaler of the forests (quantile-uniform): still the largest one (x = 5)
        yield dict(n_obj=1, kind="Linear", scaler="auto", w=[1.0], surrogate="ET", acq="UCBd", path="tell", nx=8, nz=1,
                   objs=[[3.0], [1.0], [7.0], [5.0], [2.0], [8.0], [4.0], [6.0]], seed=5, cuts=[4], strategy="cl_max", batch=1, oscale=-40)
        # expected improvement with positively offset objectives and a scaled target: the incumbent must be on the scale of the targets
        yield dict(n_obj=1, kind="Linear", scaler="quantile-uniform", w=[1.0], surrogate="SPY", acq="EI", path="tell", nx=8, nz=1,
                   objs=[[1003.0], [1001.0], [1007.0], [1005.0], [1002.0], [1008.0], [1004.0], [1006.0]], seed=6, cuts=[4], strategy="cl_max",
                   batch=1, stds=[64.0] * 8)
        # one-shot batch: the two largest objectives (x = 2, 3)
        yield dict(n_obj=1, kind="Linear", scaler="identity", w=[1.0], surrogate="RF", acq="UCB", path="tell", nx=4, nz=1,
                   objs=[[3.0], [1.0], [7.0], [5.0]], seed=2, strategy="topk", batch=2)
        # the utopia point must follow the history: objectives increasing with x, told in two batches (then the best is x = 9)
        for kind0 in ("Chebyshev", "AugChebyshev", "Quadratic", "PBI"):
            for path0 in ("tell", "fit_surrogate"):
                yield dict(n_obj=2, kind=kind0, scaler="identity", w=[0.5, 0.5], surrogate="ET", acq="UCB", path=path0, nx=10, nz=1,
                           objs=[[10.0 + x, 5.0 + 2.0 * x] for x in range(10)], seed=1, cuts=[5])
        k = count * (2 if tier == "search" else 1)
        for i in range(k):
            n_obj = [1, 2, 3][i % 3]
            nx, nz = rng.choice([(4, 1), (8, 1), (4, 2), (8, 2)]) if tier != "search" else rng.choice([(2, 1), (3, 1), (4, 1)])
            pattern = ["pos", "neg", "mixed"][(i // 3) % 3]
            kind = kinds[(i // 9) % 5]
            ideal_needed = kind in ("PBI", "Quadratic")
            objs = gen_objs(rng, nx * nz, n_obj, pattern)
            if ideal_needed and n_obj > 1:
                best = [max(r[j] for r in objs) for j in range(n_obj)]
                objs[rng.randrange(len(objs))] = best
            if rng.random() < 0.5:   # later configurations tend to be better: later batches beat the best of the earlier fits
                objs = sorted(objs, key=sum)
            sur = ["ET", "RF", "ET", "SPY"][(i // 2) % 4]
            case = dict(n_obj=n_obj, kind=kind, scaler=scalers[(i // 5) % 4], w=None if i % 4 == 3 else gen_weights(rng, n_obj, positive=True),
                        surrogate=sur, acq=["UCB", "UCBd"][(i // 7) % 2], path=["tell", "fit_surrogate"][(i // 11) % 2], nx=nx, nz=nz, objs=objs,
                        seed=rng.randint(0, 10 ** 6), cuts=gen_cuts(rng, nx * nz))
            N = nx * nz
            kappa_case = sur == "SPY" and n_obj == 1 and (i // 8) % 2 == 0
            if kappa_case:
                case["kappa"] = rng.choice([0.5, 1.0, 2.0])
                case["stds"] = [dy(rng, 0, 4) for _ in range(N)]
                case["acq"] = "UCB"
                case["scaler"] = "identity"   # the exploration bonus kappa*sigma is on the scale of the (scaled) targets
            # ---- which proposal(s): single (constant-liar names), one-shot batches, q-acquisition batch
            if i % 5 == 1:
                case.update(strategy="topk", batch=rng.choice([1, 2, 3, 4, N, N + 2]))
            elif i % 5 == 3:
                case.update(strategy="boltzmann", batch=rng.choice([1, 2, 3]))
            elif i % 10 == 4:
                # the q-batch draws its own kappas ~ Exp(kappa) for the 2nd, 3rd.. element: only kappa = 0 makes the batch deterministic
                case.update(strategy="qUCB" if case["acq"] == "UCB" else "qUCBd", batch=rng.choice([1, 2, 3, N]), kappa=0.0, stds=None)
                kappa_case = False
            else:
                case.update(strategy=rng.choice(CL), twice=rng.random() < 0.3, batch=rng.choice([1, 1, 2, 3]),
                            interleave=[rng.choice([0, 1, 2, 3]) for _ in case["cuts"]])   # asks (with lies) between the tells
            # ---- numeric edge patterns (single objective): 1-ulp differences, huge magnitudes, best exactly 0, all equal
            r = rng.random()
            if n_obj == 1 and not kappa_case and r < 0.3:
                import numpy as np

                exact_pipeline = dict(surrogate="SPY", scaler="identity", acq="UCB")
                if r < 0.07:
                    # 1-ulp differences: only the exact pipeline (spy surrogate that reproduces its targets, identity scaler) can and must
                    # resolve them - a forest cannot see variations below ~1e-8 of the magnitude (variance by sums of squares), the quantile
                    # scaler's percentiles are themselves rounded
                    v, vals = rng.choice([1.0, -3.5, 1e15, -2.0 ** 40, 1e-9]), []
                    for _ in range(N):
                        vals.append(v)
                        v = float(np.nextafter(v, np.inf))
                    rng.shuffle(vals)
                    # (and results told directly: a csv checkpoint is re-read by pandas' fast float parser, which is not exact to the ulp)
                    case.update(objs=[[x] for x in vals], pattern="ulp", path="tell", **exact_pipeline)
                elif r < 0.12:
                    base = rng.choice([2.0 ** 52, -2.0 ** 60, 2.0 ** 62])
                    case.update(objs=[[base + rng.randint(-8, 8) * 2.0 ** 12] for _ in range(N)], pattern="huge", **exact_pipeline)
                elif r < 0.17:
                    # relative differences of 2^-20 ~ 1e-6 (inside np.isclose's default tolerance): every surrogate and scaler resolves them
                    v = rng.choice([1.0, 1024.0, -1.0, -64.0])
                    ks = rng.sample(range(-40, 40), N)
                    case.update(objs=[[v * (1 + k * 2.0 ** -20)] for k in ks], pattern="close")
                elif r < 0.25:
                    vals = [-dy(rng, 0, 8) - 0.25 for _ in range(N)]
                    vals[rng.randrange(N)] = 0.0
                    case.update(objs=[[x] for x in vals], pattern="best-is-zero")
                else:
                    case.update(objs=[[dy(rng, -4, 4)]] * N, pattern="all-equal")
            elif n_obj > 1 and r < 0.08:
                rows = [[-dy(rng, 0, 8) - 0.25 for _ in range(n_obj)] for _ in range(N)]
                rows[rng.randrange(N)] = [0.0] * n_obj
                case.update(objs=rows, pattern="best-is-zero")
            # ---- failed evaluations among the told results (single objective; several objectives: stream fit_targets)
            if n_obj == 1 and not kappa_case and N >= 4 and rng.random() < 0.25:
                # "mean" gives a failed configuration the mean score: it can never be THE proposal but may enter a top-n batch,
                # so batches are checked with "min" (a failure is the worst) only
                batchy = case["strategy"] in ("topk", "qUCB", "qUCBd")
                case.update(fails=sorted(rng.sample(range(1, N), rng.randint(1, N // 3))), ff="min" if batchy else rng.choice(["min", "mean"]))
            # ---- a scalariser OBJECT with its own parameter instead of a name
            if n_obj > 1 and case["w"] is not None and rng.random() < 0.2:
                case["par"] = {"AugChebyshev": rng.choice([0.25, 2.0 ** -10]), "PBI": rng.choice([4.0, 0.5]),
                               "Quadratic": rng.choice([8.0, 2.0])}.get(kind, 0.0)
            # ---- moo_lower_bounds (penalty; oracles only)
            if n_obj > 1 and rng.random() < 0.1:
                ref = rng.choice(case["objs"])
                case["lower_bounds"] = [ref[j] if rng.random() < 0.6 else None for j in range(n_obj)]
            # ---- improvement-based acquisitions (EI, PI, their "d" variants, gp_hedge; xi = 0): with a surrogate that reproduces its targets and
            #      one common positive std, EI and PI are strictly decreasing in the predicted mean, so the proposal is still the best told
            #      candidate - PROVIDED the incumbent y_opt is on the scale of the fitted targets.  Scaled targets live in [0, 1] (std 64 keeps
            #      EI / PI far from underflow for every scalarisation); identity scaler, single objective: std = 4 * spread.
            if sur == "SPY" and not kappa_case and case["strategy"] not in ("qUCB", "qUCBd") and case.get("pattern") not in ("ulp", "huge") \
                    and rng.random() < 0.6:
                if n_obj == 1 and rng.random() < 0.3:
                    col = [r[0] for r in case["objs"]]
                    case.update(scaler="identity", stds=[4.0 * max(max(col) - min(col), 1.0)] * N)
                else:
                    case.update(scaler=rng.choice(["minmax", "quantile-uniform"]), stds=[64.0] * N)
                case["acq"] = rng.choice(["EI", "PI", "EId", "PId", "gp_hedge", "gp_hedged"])
            # ---- the same problem with a constant added to every objective (where the pipeline is offset-free and the sum exact: a single
            #      objective with any scaler, several objectives with the identity scaler - the utopia-relative scalarisation absorbs it)
            # (not the "close" pattern either: an offset 1e3..1e6 on a spread of 1e-5 is below what a forest's variance criterion resolves)
            if case.get("pattern") not in ("ulp", "huge", "close") and (n_obj == 1 or case["scaler"] == "identity" or
                                                                (case["scaler"] == "auto" and sur == "SPY")) and rng.random() < 0.3:
                case["ooffset"] = rng.choice([1000.0, -1000.0, 1024.0, -4096.0, 2.0 ** 20, -2.0 ** 20])
            # ---- the same problem with the objectives rescaled by a tiny / huge positive factor (a power of two: exact)
            if not case.get("ooffset") and rng.random() < 0.25:
                case["oscale"] = rng.choice([-50, -43, -40, -33, -30, -20, 20, 30, 40, 50])
                if case["scaler"] == "minmax" and case["oscale"] < 0:
                    # sklearn's MinMaxScaler treats a data range below 10*eps = 2.2e-15 as zero (an ABSOLUTE threshold of the library):
                    # keep every non-constant objective column's range well above it
                    cols = [[r[j] for r in case["objs"]] for j in range(n_obj)]
                    spreads = [max(c_) - min(c_) for c_ in cols if max(c_) > min(c_)]
                    if spreads and min(spreads) * 2.0 ** case["oscale"] < 1e-12:
                        del case["oscale"]
            # ---- python / numpy number types, categorical hyperparameter, DataFrame checkpoint
            case["otype"] = rng.choice(["float", "float", "int", "np"])
            if nz > 1 and rng.random() < 0.3:
                case["zcat"] = True
            if case["path"] == "fit_surrogate" and not case.get("fails") and rng.random() < 0.4:
                case["path"] = "fit_surrogate_df"
            yield case
    return gen


def shrink_e2e(case):
    objs, nx, nz = case["objs"], case["nx"], case["nz"]
    if case.get("batch", 1) > 1:
        yield dict(case, batch=case["batch"] - 1)
    if case.get("oscale"):
        yield dict(case, oscale=None)
    if case.get("ooffset"):
        yield dict(case, ooffset=None)
    cuts = case.get("cuts") or []
    for i in range(len(cuts)):
        yield dict(case, cuts=cuts[:i] + cuts[i + 1:], interleave=None)
    if case.get("interleave") and any(case["interleave"]):
        yield dict(case, interleave=None)
    if case.get("fails"):
        return   # indices of failed configurations: keep the space as it is
    if nz > 1:
        yield dict(case, nz=1, objs=objs[::nz], stds=(case.get("stds") or [])[::nz] or None)
    if nx > 2:
        yield dict(case, nx=nx - 1, objs=objs[:-nz], stds=(case.get("stds") or [])[:-nz] or None)
    for i in range(len(objs)):
        for j in range(len(objs[i])):
            v = objs[i][j]
            for wv in (0.0, float(round(v)), float(round(v / 8) * 8)):
                if wv != v:
                    q = [list(r) for r in objs]
                    q[i][j] = wv
                    yield dict(case, objs=q)


# ---------------------------------------------------------------------------------------------------------------
# stream: e2e_stat  (THOROUGH; a statistical test, not a theorem: later proposals concentrate at the maximiser)
# ---------------------------------------------------------------------------------------------------------------
STAT_MIN_MEAN = 0.55


def check_e2e_stat(case):
    from deephyper.hpo import CBO, HpProblem

    dim, n_obj, off, scale = case["dim"], case["n_obj"], case["offset"], case["scale"]
    m = model()
    pb = HpProblem()
    pb.add_hyperparameter((0.0, 1.0), "x")
    if dim == 2:
        pb.add_hyperparameter((0.0, 1.0), "y")

    def run(job):
        p = job.parameters if hasattr(job, "parameters") else job
        t = p["x"] if dim == 1 else 0.5 * (p["x"] + p["y"])
        vals = [scale * t + off, scale * t * t + off, scale * (2 * t - 1) + off][:n_obj]
        return vals[0] if n_obj == 1 else tuple(vals)

    kw = dict(n_estimators=25) if case["surrogate"] in ("ET", "RF") else None
    n_init = 8
    res = base_res(["surrogate=" + case["surrogate"], "n_obj=%d" % n_obj, "kind=" + (case["kind"] if n_obj > 1 else "-"), "scaler=" + case["scaler"],
                    "dim=%d" % dim, "offset=%g" % off, "scale=%g" % scale, "search-calls=%d" % (2 if case.get("two_calls") else 1), "acq=%s" % (case.get("acq") or "default")], scalarisation=case["kind"] if n_obj > 1 else "none",
                   scaler=case["scaler"] if case["scaler"] != "auto" else ("quantile-uniform" if case["surrogate"] in ("ET", "RF") else "identity"),
                   utopia="n/a" if n_obj == 1 else ("zero" if case["scaler"] in ("minmax", "quantile-uniform") or
                                                    (case["scaler"] == "auto" and case["surrogate"] in ("ET", "RF")) else "nonzero"),
                   surrogate=case["surrogate"], n_obj=n_obj, objective_scale="tiny" if scale < 1e-6 else ("huge" if scale > 1e6 else "one"))
    means, bottoms, laters = [], [], []
    for seed in case["seeds"]:
        with tempfile.TemporaryDirectory(prefix="vp_c05_") as d:
            # GP has no disentangled std (the default UCBd raises TypeError with GP: F04, a C02 finding) -> plain UCB for GP
            s = CBO(pb, run, log_dir=d, random_state=seed, surrogate_model=case["surrogate"], surrogate_model_kwargs=kw, n_points=1000,
                    acq_func=case.get("acq") or ("UCB" if case["surrogate"] == "GP" else "UCBd"),
                    n_initial_points=n_init, objective_scaler=case["scaler"], moo_scalarization_strategy=case["kind"],
                    moo_scalarization_weight=case["w"], verbose=0)
            if case.get("two_calls"):   # the same search object continued by a second search() call
                first = case["max_evals"] // 2
                s.search(max_evals=first)
                df = s.search(max_evals=case["max_evals"] - first)
            else:
                df = s.search(max_evals=case["max_evals"])
        df = df.sort_values("job_id")
        later = df[df["job_id"] >= n_init]
        t = later["p:x"].to_numpy() if dim == 1 else 0.5 * (later["p:x"].to_numpy() + later["p:y"].to_numpy())
        means.append(float(t.mean()))
        bottoms.append(int((t <= 0.2).sum()))
        laters.append(len(t))
    # far-tail thresholds on the MEDIAN over the seeds: a maximiser has a mean position ~0.85 and (almost) no proposal in the bottom
    # fifth; a random search 0.5; a minimiser ~0.15 with most proposals in the bottom fifth
    med_mean, med_bottom = sorted(means)[len(means) // 2], sorted(bottoms)[len(bottoms) // 2]
    det = dict(mean_position=means, bottom_fifth=bottoms, later=laters)
    if not m.call(O_PICKMAX, qpack([F(STAT_MIN_MEAN), F(med_mean)], 1)) or not m.call(O_PICKMAX, qpack([F(4 * med_bottom), F(min(laters))], 1)):
        return fail(res, "oracle", "proposals_do_not_concentrate_at_the_maximiser", det)
    return dict(res, stat=det)


def gen_e2e_stat(count):
    def gen(rng, tier):
        if tier == "quick":
            return
        kinds, scalers, surs = list(SKIND), ["auto", "identity", "minmax", "quantile-uniform"], ["ET", "RF", "GP"]
        combos = [(s, sc, k, 2) for s in surs for sc in scalers for k in kinds]            # 60: every surrogate x scaler x scalarisation
        combos += [(s, sc, "Linear", 1) for s in surs for sc in scalers]                   # 12: single objective
        combos += [(rng.choice(surs), rng.choice(scalers), k, 3) for k in kinds for _ in range(5)]   # 25: three objectives
        if tier == "search":
            combos = rng.sample(combos, 8)
        for i, (sur, scaler, kind, n_obj) in enumerate(combos[:count]):
            # Quadratic converges slowly on the 2-D problem (mean position 0.55-0.75 after 28 proposals): 1-D only, to keep the threshold far
            dim = 1 if kind == "Quadratic" and n_obj > 1 else rng.choice([1, 2])
            scale = rng.choice([1.0, 10.0, 0.125, 2.0 ** -40, 2.0 ** -43, 2.0 ** 40])
            yield dict(surrogate=sur, n_obj=n_obj, kind=kind, scaler=scaler, dim=dim,
                       offset=rng.choice([0.0, 100.0, -100.0, -0.5]) * (scale if scale < 1e-6 or scale > 1e6 else 1.0),
                       scale=scale, w=None if i % 3 else [1.0 / n_obj] * n_obj,
                       seeds=[rng.randint(0, 10 ** 6) for _ in range(3)], max_evals=36 if sur != "GP" else 28, two_calls=i % 2 == 1)
        # the hedging acquisition of the GP (EI / LCB / PI chosen by their gains) and plain EI / PI, single objective
        for acq in ("gp_hedge", "EI", "PI"):
            yield dict(surrogate="GP", n_obj=1, kind="Linear", scaler="identity", dim=1, offset=rng.choice([0.0, 100.0, -100.0]), scale=1.0, w=None,
                       seeds=[rng.randint(0, 10 ** 6) for _ in range(3)], max_evals=28, acq=acq, two_calls=False)
    return gen


# ---------------------------------------------------------------------------------------------------------------
def streams(tier):
    th = tier == "thorough"
    ss = [
        Stream("scalarize", gen_scalarize(3000 if th else 1500), check_scalarize, shrink_rows, timeout=60),
        Stream("scalar_dominance", gen_dominance(400 if th else 100), check_scalarize, shrink_rows, timeout=60),
        Stream("fit_targets", gen_fit_targets(2400 if th else 1200), check_fit_targets, shrink_ys, timeout=60),
        Stream("lies", gen_lies(1200 if th else 480), check_lies, shrink_ys, timeout=60),
        Stream("cbo_tell", gen_cbo_tell(900 if th else 360), check_cbo_tell, shrink_ys, timeout=60),
        Stream("acquisition", gen_acq(1800 if th else 600), check_acq, None, timeout=60),
        Stream("scalers", gen_scalers(1600 if th else 640), check_scalers, shrink_rows, timeout=60),
        Stream("e2e_exploit", gen_e2e(3600 if th else 1500), check_e2e, shrink_e2e, timeout=120),
    ]
    if th:
        ss.append(Stream("e2e_stat", gen_e2e_stat(97), check_e2e_stat, None, timeout=600))  # 97 combinations + 3 acquisition variants
    return ss
