"""C05 - Searches maximise the objective(s).

Tie between the Coq model (coq/theories/C05_Direction) and the code:
  (a) translator facts: MAP_multi_point_strategy / MAP_acq_func / MAP_filter_failures -> Generated/Facts_C05.v, consumed by
      theorem C05_name_maps (a swapped entry breaks a proof obligation; the cbo_names stream then shows the failing input);
  (b) functional correspondence (exact on dyadic inputs): every Mo*Function.scalarize, Optimizer._filter_failures, the lies of
      a multi-point ask (spy on Optimizer._tell), gaussian_lcb, CBO._tell / CBO.fit_surrogate (spy on Optimizer.tell),
      the objective scalers;
  (c) deterministic end-to-end: finite space, every configuration told, kappa = 0, interpolating forest: the next proposal
      is the configuration with the largest objective (Pareto sense for several objectives);
  (d) thorough: statistical end-to-end on monotone problems (a TEST, not a theorem).
Oracle verdicts are computed by the extracted Coq checkers (Check.v), ids 520..532.
"""
import ast
import math
import os
import tempfile
from fractions import Fraction

from ..driver import model
from ..runner import Stream
from .. import srcfacts

PROPERTY = "C05"
LEVEL = "proof"
COQ_DIRS = ("Common",)

# ---------------------------------------------------------------------------------------------------------------
# (a) translator facts
# ---------------------------------------------------------------------------------------------------------------
MAP_NAMES = ("MAP_multi_point_strategy", "MAP_acq_func", "MAP_filter_failures")


def _ast_literals(path):
    """{name: dict | None}: the LAST module-level assignment to each MAP_* name; None when it is not a literal dict of
    string constants (then only the imported value is used)."""
    tree = ast.parse(open(path).read(), filename=path)
    out = {}
    for n in tree.body:
        targets = []
        if isinstance(n, ast.Assign):
            targets, value = n.targets, n.value
        elif isinstance(n, ast.AnnAssign) and n.value is not None:
            targets, value = [n.target], n.value
        for t in targets:
            if isinstance(t, ast.Name) and t.id in MAP_NAMES:
                if isinstance(value, ast.Dict) and all(
                    isinstance(k, ast.Constant) and isinstance(k.value, str) and isinstance(v, ast.Constant) and isinstance(v.value, str)
                    for k, v in zip(value.keys, value.values)
                ):
                    out[t.id] = {k.value: v.value for k, v in zip(value.keys, value.values)}
                else:
                    out[t.id] = None
    return out


def facts(repo):
    import importlib

    path = os.path.join(repo, "src", "deephyper", "hpo", "_cbo.py")
    if not os.path.exists(path):
        return srcfacts.fail_closed("no file " + path), {"error": "missing " + path}
    lits = _ast_literals(path)
    mod = importlib.import_module("deephyper.hpo._cbo")
    if os.path.realpath(mod.__file__) != os.path.realpath(path):
        why = "imported deephyper.hpo._cbo is %s, not the tree under check %s" % (mod.__file__, path)
        return srcfacts.fail_closed(why), {"error": why}
    info, lines = {}, []
    for name in MAP_NAMES:
        val = getattr(mod, name, None)
        if not isinstance(val, dict) or not all(isinstance(k, str) and isinstance(v, str) for k, v in val.items()):
            why = "%s is not a dict of strings in the imported module: %r" % (name, val)
            return srcfacts.fail_closed(why), {"error": why}
        if name not in lits:
            why = "%s is not assigned at module level in %s" % (name, path)
            return srcfacts.fail_closed(why), {"error": why}
        if lits[name] is not None and lits[name] != val:
            why = "%s: source literal %r differs from the imported value %r" % (name, lits[name], val)
            return srcfacts.fail_closed(why), {"error": why}
        items = sorted(val.items())
        info[name] = dict(items=items, literal_shape=lits[name] is not None)
        lines.append("Definition %s : list (string * string) :=\n  %s." % (
            name.replace("MAP_", "map_"),
            srcfacts.coq_list(["(%s, %s)" % (srcfacts.coq_string(k), srcfacts.coq_string(v)) for k, v in items])))
    text = "Definition srcfacts_ok := true.\n" + "\n".join(lines) + "\n"
    return text, info


def streams(tier):
    return []
