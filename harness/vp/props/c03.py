"""C03 - search(max_evals) budget is honoured and accumulates over repeated calls.

Tie: sequences of search() calls on one search object (RandomSearch / CBO with the DUMMY surrogate; serial and thread
backends) with a counting run-function.  Observed per call: number of run-function invocations, rows of the returned table,
and the sizes of the gather('BATCH') results (through a wrapper around the evaluator instance's gather).
Oracle: extracted `ok_history` (the property's statement).  Correspondence: the model's prediction `predict` of the number
of new evaluations of every call without a timeout, from the observed gather sizes, must equal the observed number.
"""
import asyncio
import tempfile
import time

from ..driver import model
from ..runner import Stream

PROPERTY = "C03"
LEVEL = "proof"
TRUSTED = [
    "gather('BATCH', 1) hands back between 1 and in-flight jobs (what C01 proves and checks); its sizes are observed and fed to the model",
    "wall-clock: a call with a timeout has no count claim; only the calls after it do",
]
ASSUMPTIONS = ["max_evals >= 0 for counted calls", "run-functions return"]
RULE = ("sequences of <= 4 calls from {max_evals n, strict n, timeout 1s, timeout+max_evals} x n in {1,2,5} x workers {1,3,4} x backend {serial, thread} x "
        "{RandomSearch, CBO-DUMMY, CBO-ET, RegularizedEvolution, ExperimentalDesignSearch}; non-trivial = at least 2 calls of different kinds")
F_CHECK = 301


def run_case(case):
    from deephyper.evaluator import Evaluator
    from deephyper.hpo import CBO, ExperimentalDesignSearch, HpProblem, RandomSearch, RegularizedEvolution

    calls = [0]
    dur = case.get("dur", 0.0)

    steps = case.get("steps")

    async def run_async(job):
        calls[0] += 1
        if steps:
            # duration = a number of event-loop iterations chosen from the job id: deterministic completion orders, among them jobs
            # that complete in the one or two iterations between gather() having its batch and the loop actually stopping
            for _ in range(steps[int(job.id.split(".")[1]) % len(steps)]):
                await asyncio.sleep(0)
        if dur:
            await asyncio.sleep(dur)
        return job.parameters["x"]

    def run_sync(job):
        calls[0] += 1
        if dur:
            time.sleep(dur)
        return job.parameters["x"]

    problem = HpProblem()
    problem.add_hyperparameter((0.0, 10.0), "x")
    W = case["workers"]
    backend = case["backend"]
    evaluator = Evaluator.create(run_async if backend == "serial" else run_sync, method=backend, method_kwargs={"num_workers": W})
    sizes = []
    orig_gather = evaluator.gather

    def gather(type, size=1):
        res = orig_gather(type, size)
        if type == "BATCH":
            n = len(res[0]) + len(res[1]) if isinstance(res, tuple) else len(res)
            sizes.append(n)
        return res

    evaluator.gather = gather
    hist = []
    with tempfile.TemporaryDirectory(prefix="vp_c03_") as d:
        if case["search"] == "random":
            search = RandomSearch(problem, evaluator, random_state=case.get("seed", 1), log_dir=d)
        elif case["search"] == "regevo":  # small population: the evolution phase starts within the budgets used here
            search = RegularizedEvolution(problem, evaluator, random_state=case.get("seed", 1), log_dir=d, population_size=4, sample_size=2)
        elif case["search"] == "eds":
            search = ExperimentalDesignSearch(problem, evaluator, random_state=case.get("seed", 1), log_dir=d, n_points=64, design="random")
        elif case["search"] == "cbo_et":  # a real surrogate: the model phase starts after the initial points
            search = CBO(problem, evaluator, random_state=case.get("seed", 1), log_dir=d, surrogate_model="ET", n_initial_points=3, verbose=0,
                         surrogate_model_kwargs={"n_estimators": 5})
        else:
            search = CBO(problem, evaluator, random_state=case.get("seed", 1), log_dir=d, surrogate_model="DUMMY", verbose=0)
        for kind, n in case["calls"]:
            before = calls[0]
            del sizes[:]
            if kind == "plain":
                df = search.search(max_evals=n)
            elif kind == "strict":
                df = search.search(max_evals=n, max_evals_strict=True)
            elif kind == "timeout":
                df = search.search(timeout=1)
            else:
                df = search.search(max_evals=n, timeout=1)
            rows = 0 if df is None else len(df)
            tmo = kind in ("timeout", "timeout_max")
            hist.append([n if kind != "timeout" else -1, kind == "strict", tmo, calls[0] - before, rows, list(sizes)])
    ex = getattr(evaluator, "executor", None)
    if ex is not None:
        ex.shutdown(wait=False, cancel_futures=True)
    return hist


def check(case):
    hist = run_case(case)
    W = case["workers"]
    bad, pred = model().call(F_CHECK, [W, hist])
    kinds = [k for k, _ in case["calls"]]
    res = dict(ok=True, kind="oracle", clause="", nontrivial=len(set(kinds)) >= 2,
               sig={"backend": case["backend"], "search": case["search"]},
               desc=["calls=%d" % len(kinds), "workers=%d" % W, "backend=" + case["backend"], "search=" + case["search"]] + ["has_" + k for k in sorted(set(kinds))])
    if bad != -1:
        prev = kinds[bad - 1] if bad > 0 else "none"
        res["sig"].update(call=kinds[bad], after=prev)
        return dict(res, ok=False, clause="budget:%s_after_%s" % (kinds[bad], prev), detail=dict(call_index=bad, history=hist, workers=W))
    obs = [h[3] if not h[2] else -1 for h in hist]
    if obs != pred:
        return dict(res, ok=False, kind="corr", clause="predicted_new_evals", detail=dict(observed=obs, predicted=pred, history=hist))
    return res


KINDS = ["plain", "strict", "timeout", "timeout_max"]
SEARCHES = ["random", "cbo", "random", "regevo", "cbo", "eds", "random", "cbo_et", "regevo", "cbo"]


def gen(count, backends):
    def g(rng, tier):
        # the three shortest histories in which an earlier call leaks into a later one
        first = [
            dict(calls=[["strict", 2], ["strict", 2], ["strict", 2]], workers=1),
            dict(calls=[["strict", 2], ["plain", 2]], workers=1),
            dict(calls=[["timeout", 0], ["plain", 3]], workers=1),
        ]
        for c in first:
            yield dict(c, backend="serial", search="random", dur=0.02 if any(k[0].startswith("timeout") for k in c["calls"]) else 0.0)
        # a timed call that ends on its evaluation budget BEFORE the timeout, followed by a call that lasts longer than what was
        # left of that time budget (slow jobs): a time budget that is not cleared fires in the later call
        yield dict(calls=[["timeout_max", 1], ["plain", 5]], workers=1, backend="serial", search="random", dur=0.3)
        yield dict(calls=[["timeout_max", 2], ["strict", 5]], workers=1, backend="thread", search="random", dur=0.3)
        # serial backend, durations counted in loop iterations (no wall clock): the upper bound n + W under every completion order
        for j in range(count // 2):
            W = rng.choice([2, 3, 3, 4, 4])
            yield dict(calls=[[rng.choice(["plain", "plain", "strict"]), rng.choice([1, 2, 5])] for _ in range(rng.randint(2, 3))], workers=W,
                       backend="serial", search="random" if j % 4 else "cbo", dur=0.0, steps=[rng.randint(1, 12) for _ in range(12)], seed=rng.randint(0, 1000))
        n = count * (2 if tier == "search" else 1)
        for i in range(n):
            L = rng.randint(1, 4 if tier != "search" else 3)
            calls = []
            nt = 0
            for _ in range(L):
                k = rng.choice(["plain", "plain", "strict", "strict", "timeout", "timeout_max"])
                if k.startswith("timeout"):
                    nt += 1
                    if nt > 1:  # keep the wall time bounded: at most one timeout call per history
                        k = "plain"
                calls.append([k, rng.choice([1, 2, 5])])
            slow = nt and any(k == "timeout_max" for k, _ in calls) and rng.random() < 0.5
            yield dict(calls=calls, workers=rng.choice([1, 3, 4]) if not slow else 1, backend=backends[i % len(backends)],
                       search=SEARCHES[i % len(SEARCHES)], dur=(0.3 if slow else 0.02) if nt else 0.0, seed=rng.randint(0, 1000))
    return g


def shrink(case):
    cs = case["calls"]
    for i in range(len(cs)):
        if len(cs) > 1:
            yield dict(case, calls=cs[:i] + cs[i + 1:])
    for i, (k, n) in enumerate(cs):
        if n > 1:
            yield dict(case, calls=cs[:i] + [[k, n - 1]] + cs[i + 1:])
    if case["workers"] > 1:
        yield dict(case, workers=1)
    if case["search"] not in ("random", "cbo"):
        yield dict(case, search="cbo")
    if case["search"] != "random":
        yield dict(case, search="random")
    if case["backend"] != "serial":
        yield dict(case, backend="serial")


def streams(tier):
    th = tier == "thorough"
    return [Stream("call_sequences", gen(400 if th else 60, ["serial", "thread"]), check, shrink, timeout=120)]
