"""C14 - Timeouts cancel cooperatively and every job ends in a terminal status.

Tie:
(a) translator fact - the JobStatus enum of the source (names -> codes) regenerated into Generated/Facts_C14.v and consumed
    by theorem C14_status_codes;
(b) trace acceptance by the per-job oracle ok_C14 (entry 1401) - real searches / evaluators with a timeout are run with a
    logging storage (every status write) and run-functions that log start / every status poll / return under one lock; two
    sentinels are logged 0.4 s and 1.9 s after the deadline.  The extracted oracle replays every job's events on the status
    machine and checks the results table (one row per job, terminal status = last write, returned value kept, jobs running
    across the deadline were told to cancel and are reported CANCELLED, no run-function activity after search() returned);
(c) trace acceptance by the GLOBAL model (entry 1402, Accept.v) - the same run also logs, through wrappers set on the
    evaluator INSTANCE (nothing in /repo is edited), the calls of submit / gather / close, _update_job_when_done (execute()
    returns) and _on_done (the job was collected), the return of search(), a further search() call and an early sentinel
    logged well before the deadline.  The extracted acceptor explains every observed event by events of the global model
    (Global.v: jobs, worker semaphore, time budget, phase of the main thread, rows), fails at the first event the model cannot
    do, and compares the results table the model predicts with the real one.  By theorem C14_accepted_trace_is_model_run an
    accepted trace is a run of the model, for which the theorems (a)-(f) of Property.v hold.
"""
import ast
import asyncio
import os
import tempfile
import threading
import time

from ..driver import model
from ..runner import Stream
from .. import srcfacts

PROPERTY = "C14"
LEVEL = "proof"
FACTS = ["job_status"]
TRUSTED = [
    "real time: the deadline itself is not observed; two sentinels logged 0.4 s and 1.9 s after it: a job started before the first and not returned before the second was running across the deadline and must have been told to cancel before the second (1.5 s of slack for scheduling latency); "
    "a job finishing within that window may legally end DONE or CANCELLED; an early sentinel due 0.5 s BEFORE the deadline (a timer of the evaluator's own event loop, so ordered with the wait_for timeouts by their deadlines, not by the load) must precede every CANCELLING write of that search() call; the second sentinel is logged after two round trips through the evaluator's event loop (when it runs), so a freeze of the whole machine across the deadline cannot put it before the CANCELLING writes that were due",
    "asyncio.wait_for / shield / the thread and process pools behave as documented; status reads and writes are atomic under the harness lock; "
    "the wrappers on the evaluator instance (submit, gather, close, _update_job_when_done, _on_done) only log and delegate",
    "the acceptor places the two unobservable events as late as possible (budget expiry just before the first CANCELLING it must explain, the stop test right after gather returns); "
    "time.time() (stop test) and the event loop's monotonic clock (wait_for) are assumed not to step against each other during a case",
]
ASSUMPTIONS = ["run-functions poll job.status and return soon after seeing CANCELLING (or are short and never poll)",
               "backends covered: serial, thread, process (fresh interpreter, log shared through a multiprocessing manager); loky in the thorough tier"]
RULE = ("timeouts {1,2}s x workers {1,2,4} x backend {serial, thread, process, loky(thorough)} x search class {RandomSearch, CBO(DUMMY surrogate)} x mode {search(timeout), "
        "search(max_evals, timeout) plain/strict, evaluator.timeout + gather, evaluator.timeout + search(max_evals), two timed search() calls in a row on one search object, "
        "evaluator.timeout + gather(BATCH) + close() while jobs are in CANCELLING, a budget re-armed while one is set (evaluator.timeout = t1; batch; evaluator.timeout = t2; batch / evaluator.timeout armed before a search(timeout=)), a second evaluator on the same storage and search id gathering the jobs of a timed search during or after it, a direct session closed while jobs run / are CANCELLING / queued followed by a timed search on the same evaluator (watchdog)} x per-job behaviours (returned value 1000+id or the falsy 0; short jobs finishing before the deadline, "
        "jobs that never poll, jobs finishing within +-60 ms of the deadline, long jobs polling at different intervals until CANCELLING and returning at once or after more work); "
        "non-trivial = DONE and CANCELLED rows in one run")
CLAUSE = {1: "illegal_status_sequence_or_stale_poll", 2: "no_terminal_status", 3: "row_count", 4: "row_status", 5: "value_not_kept",
          6: "ran_past_deadline_without_cancelling", 7: "cancelling_then_done", 8: "activity_after_search_returned",
          9: "submitted_long_after_expiry"}
F_CHECK = 1401
F_ACCEPT = 1402
# observed event kinds (see Entry.v)
K_W, K_START, K_POLL, K_RET, K_FIN, K_SUBMIT, K_GIN, K_GOUT, K_S0, K_S, K_CIN, K_COUT, K_RETURN, K_AGAIN, K_COLLECTED, K_COUNTS = range(16)
OLD_KINDS = (K_W, K_START, K_POLL, K_RET, K_S)
ST_NAME = {0: "READY", 1: "RUNNING", 2: "DONE", 3: "CANCELLING", 4: "CANCELLED"}
# clause of a rejection by the global acceptor: (kind, status of a write) -> name
ACCEPT_CLAUSE = {
    (K_W, 0): "model:submitted_after_the_stop_test_or_outside_the_loop", (K_W, 1): "model:running_without_free_worker_or_outside_gather",
    (K_W, 3): "model:cancelling_without_exhausted_budget", (K_W, 4): "model:cancelled_before_the_run_function_returned", (K_W, 2): "model:done_not_collectable",
    K_START: "model:run_function_started_unexpectedly", K_POLL: "model:poll_saw_another_status_than_written_last", K_RET: "model:run_function_returned_twice_or_unstarted",
    K_FIN: "model:execute_returned_before_the_run_function", K_SUBMIT: "model:submit_inside_gather", K_GIN: "model:gather_reentered", K_GOUT: "model:gather_returned_with_nothing_collected",
    K_S0: "model:cancelling_before_the_early_sentinel", K_S: "model:sentinel", K_CIN: "model:close_inside_gather", K_COUT: "close_left_job_unsettled",
    K_COUNTS: "counters_differ_from_model", K_RETURN: "model:returned_before_close", K_AGAIN: "model:search_called_again_before_return", K_COLLECTED: "model:collected_without_done_or_before_execute_returned"}


def facts(repo):
    path = os.path.join(repo, "src", "deephyper", "evaluator", "_job.py")
    from deephyper.evaluator._job import JobStatus

    live = [(s.name, int(s.value)) for s in JobStatus]
    # cross-check with the literal in the source when it has the simple shape
    tree = ast.parse(open(path).read())
    lit = None
    for node in ast.walk(tree):
        if isinstance(node, ast.ClassDef) and node.name == "JobStatus":
            lit = []
            for b in node.body:
                if isinstance(b, ast.Assign) and len(b.targets) == 1 and isinstance(b.targets[0], ast.Name) and isinstance(b.value, ast.Constant) and isinstance(b.value.value, int):
                    lit.append((b.targets[0].id, b.value.value))
                elif isinstance(b, ast.Expr) and isinstance(b.value, ast.Constant):
                    continue  # docstring
                else:
                    lit = None
                    break
    if lit is not None and sorted(lit) != sorted(live):
        return srcfacts.fail_closed("JobStatus literal %r differs from the imported enum %r" % (lit, live)), {"job_status": live, "literal": lit}
    text = "Definition job_status : list (string * Z) := " + srcfacts.coq_list(["(%s, %d)" % (srcfacts.coq_string(n), v) for n, v in live]) + ".\n"
    return text, {"job_status": live, "literal_checked": lit is not None}


def valof(plan, jid):
    """value returned by job jid: 1000 + jid, or the falsy 0 when the behaviour says so (a legal objective / output)"""
    b = plan[jid % len(plan)]
    return 0 if len(b) > 4 and b[4] == "zero" else 1000 + jid


def job_no(job):
    return int(job.id.split(".")[1])


# ---------------------------------------------------------------------------------------------------------------------
# the run-function bodies (shared by the in-process backends and, through c14_child, by the process / loky backends)
#   behaviour = [kind, dur, every, extra, value]
#     short  : polls every `every` until `dur` has passed, then returns (never waits for CANCELLING)
#     nopoll : sleeps `dur` once, never reads the status
#     long   : polls every `every` until it sees CANCELLING (or CANCELLED: close() gave it up), then works `extra` more, polls once more, returns
# ---------------------------------------------------------------------------------------------------------------------
def run_body(job, plan, cap, emit, sleep, CANCELLING):
    """generator-free synchronous body; `sleep` blocks. Returns the value."""
    jid = job_no(job)
    kind, dur, every, extra = plan[jid % len(plan)][:4]
    emit(jid, K_START, 0)
    if kind == "nopoll":
        sleep(dur)
    else:
        t0 = time.time()
        while time.time() - t0 < (dur if kind == "short" else cap):
            sleep(every)
            s = emit(jid, K_POLL, job)
            if s in CANCELLING:
                if extra:
                    sleep(extra)
                    emit(jid, K_POLL, job)
                break
    v = valof(plan, jid)
    emit(jid, K_RET, v)
    return v


async def run_body_async(job, plan, cap, emit, CANCELLING):
    jid = job_no(job)
    kind, dur, every, extra = plan[jid % len(plan)][:4]
    emit(jid, K_START, 0)
    if kind == "nopoll":
        await asyncio.sleep(dur)
    else:
        t0 = time.time()
        while time.time() - t0 < (dur if kind == "short" else cap):
            await asyncio.sleep(every)
            s = emit(jid, K_POLL, job)
            if s in CANCELLING:
                if extra:
                    await asyncio.sleep(extra)
                    emit(jid, K_POLL, job)
                break
    v = valof(plan, jid)
    emit(jid, K_RET, v)
    return v


def instrument(evaluator, emit, hooks):
    """log the calls of the evaluator's entry points through attributes of the INSTANCE (the class in /repo is untouched);
    hooks["after_submit"] (set by drive) is called once the evaluator's event loop exists"""
    o_submit, o_gather, o_close = evaluator.submit, evaluator.gather, evaluator.close
    o_upd, o_done = evaluator._update_job_when_done, evaluator._on_done

    def submit(args_list):
        emit(0, K_SUBMIT, len(args_list))
        r = o_submit(args_list)
        if hooks.get("after_submit"):
            hooks["after_submit"]()
        return r

    def gather(*a, **k):
        emit(0, K_GIN, 0)
        try:
            return o_gather(*a, **k)
        finally:
            emit(0, K_GOUT, 0)

    def close():
        emit(0, K_CIN, 0)
        try:
            return o_close()
        finally:
            emit(0, K_COUT, 0)
            emit(0, K_COUNTS, max(0, evaluator.num_jobs_submitted - evaluator.num_jobs_gathered))

    def upd(job, output):
        emit(job_no(job), K_FIN, 0)
        return o_upd(job, output)

    def done(job):
        r = o_done(job)
        emit(job_no(job), K_COLLECTED, 0)
        return r

    evaluator.submit, evaluator.gather, evaluator.close = submit, gather, close
    evaluator._update_job_when_done, evaluator._on_done = upd, done


def make_search(case, problem, evaluator, d):
    from deephyper.hpo import CBO, RandomSearch

    if case.get("search", "random") == "cbo":
        return CBO(problem, evaluator, random_state=1, log_dir=d, surrogate_model="DUMMY")
    return RandomSearch(problem, evaluator, random_state=1, log_dir=d)


class SearchHung(Exception):
    pass


class Watchdog:
    """search() must return once the running evaluations have returned: if it has not `seconds` after the call (budget + 15 s,
    every run-function ends at budget + 3.5 s at the latest) the main thread is interrupted by a signal (it also wakes a blocked
    event loop) and the case reports `search_did_not_return` instead of waiting for the stream's own timeout"""

    def __init__(self, seconds):
        self.seconds = seconds

    def __enter__(self):
        import signal

        def handler(signum, frame):
            raise SearchHung()

        self.main = threading.main_thread().ident
        self.old = signal.signal(signal.SIGUSR1, handler)
        self.timer = threading.Timer(self.seconds, lambda: signal.pthread_kill(self.main, signal.SIGUSR1))
        self.timer.daemon = True
        self.timer.start()
        return self

    def __exit__(self, *exc):
        import signal

        self.timer.cancel()
        signal.signal(signal.SIGUSR1, self.old)
        return False


class PeerThread(threading.Thread):
    """the second evaluator polls the shared storage for finished jobs of the first one while that one is searching"""

    def __init__(self, peer):
        super().__init__(daemon=True)
        self.peer, self.got, self.stop = peer, [], False

    def run(self):
        import contextlib
        import io

        while not self.stop:
            with contextlib.redirect_stdout(io.StringIO()):
                self.got += self.peer.gather_other_jobs_done()
            time.sleep(0.05)

    def finish(self):
        self.stop = True
        self.join(10)
        return list(self.got)


def drive(case, evaluator, emit, snapshot, hooks):
    """Run the scenario of `case` on an instrumented evaluator. emit(j, kind, arg) appends to the shared log;
    snapshot() returns a copy of it. Returns (table, late, trace)."""
    from deephyper.evaluator import JobStatus
    from deephyper.hpo import HpProblem

    T = case["timeout"]
    mode = case.get("mode", "search")
    timers = []
    early = {}

    def second_sentinel():
        # two round trips through the evaluator's event loop first (when it is running): every wait_for timeout that was due
        # when this thread woke up has then been turned into its CANCELLING write, also after a freeze of the whole machine
        for _ in range(2):
            loop = evaluator.loop
            try:
                if loop is not None and not loop.is_closed() and loop.is_running():
                    ev = threading.Event()
                    loop.call_soon_threadsafe(ev.set)
                    ev.wait(1.0)
            except RuntimeError:
                pass
        emit(0, K_S, 0)

    def arm(t_budget):
        """sentinels of the search() call / evaluator budget that starts AFTER this call (so every deadline below is early)"""
        # first of all (starting the timer threads may take long on a loaded machine): the early sentinel is due 0.5 s before the deadline
        early["at"], early["fired"] = time.time() + t_budget - 0.5, False
        ts = [threading.Timer(t_budget + 0.4, emit, (0, K_S, 0)), threading.Timer(t_budget + 1.9, second_sentinel)]
        for t in ts:
            t.daemon = True
            t.start()
        timers.extend(ts)
        # the early sentinel is a timer of the evaluator's own event loop, due 0.5 s before the deadline and set at the first submit
        # of the call: the loop fires its timers in the order of their deadlines, so it precedes the wait_for timeouts of a fresh
        # budget whatever the load (the budget starts after this point, so the margin is at least 0.5 s)

        def after_submit():
            hooks["after_submit"] = None
            evaluator.loop.call_later(max(0.0, early["at"] - time.time()), fire_early)

        hooks["after_submit"] = after_submit

    def fire_early():
        if not early["fired"]:
            early["fired"] = True
            emit(0, K_S0, 0)

    def returned_early():
        """the call returned (its loop is closed) before the early sentinel was due: this instant is still before it"""
        if early and not early["fired"] and time.time() < early["at"]:
            fire_early()

    def rows_of_df(df):
        out = []
        if df is not None:
            for _, row in df.iterrows():
                try:
                    o = int(float(row["objective"]))
                except (TypeError, ValueError):
                    o = -1
                out.append([int(row["job_id"]), int(JobStatus[row["job_status"]].value), o])
        return out

    def rows_of_jobs(jobs):
        out = []
        for job in jobs:
            o = job.output
            if isinstance(o, dict):
                o = o.get("objective")
            out.append([job_no(job), int(job.status.value), int(o) if isinstance(o, (int, float)) else -1])
        return out

    def peer_stage(peer, peer_thread, how):
        import contextlib
        import io

        got = []
        if peer_thread is not None:
            got = peer_thread.finish()
        with contextlib.redirect_stdout(io.StringIO()):  # gather_other_jobs_done prints the records it loads
            if how == "gather_all":
                r = peer.gather("ALL")
                got += list(r[1]) if isinstance(r, tuple) else []
            else:
                got += peer.gather_other_jobs_done()
        return rows_of_jobs(got)

    problem = HpProblem()
    problem.add_hyperparameter((0.0, 10.0), "x")
    table = []
    extra = {}
    settle = 0.3
    with tempfile.TemporaryDirectory(prefix="vp_c14_") as d:
        if mode == "evaluator":
            # evaluator-level timeout with more jobs submitted than workers: some jobs are still queued at the deadline
            arm(T)
            evaluator.timeout = T
            evaluator.submit([{"x": float(i)} for i in range(case["njobs"])])
            jobs = evaluator.gather("ALL")
            evaluator.close()
            table = rows_of_jobs(jobs)
        elif mode == "early_close":
            # close() right after the first job was gathered, the others are in CANCELLING and still working
            evaluator.timeout = T
            evaluator.submit([{"x": float(i)} for i in range(case["njobs"])])
            evaluator.gather("BATCH", 1)
            evaluator.close()
            table = rows_of_jobs(evaluator.jobs_done)
            settle = case.get("settle", 1.3)
        elif mode == "rearm":
            # a budget assigned while an older one is still set: batch 1 under the first budget (gather ALL: nothing is left in
            # flight), then `evaluator.timeout = T` for batch 2 - the setter restarts the clock; sentinels belong to the LATEST budget
            evaluator.timeout = case["first_timeout"]
            evaluator.submit([{"x": float(i)} for i in range(case["njobs1"])])
            jobs = evaluator.gather("ALL")
            emit(0, K_AGAIN, 2)
            arm(T)
            evaluator.timeout = T
            evaluator.submit([{"x": float(i)} for i in range(case["njobs"])])
            jobs = jobs + evaluator.gather("ALL")
            evaluator.close()
            table = rows_of_jobs(jobs)
        else:
            search = make_search(case, problem, evaluator, d)
            peer = peer_thread = None
            if mode == "close_then_search":
                # a direct session on the evaluator, closed while its jobs are running / in CANCELLING / queued (close() kills them),
                # THEN a timed search on the same evaluator: it must return, and report the jobs of both
                evaluator.timeout = case["first_timeout"]
                evaluator.submit([{"x": float(i)} for i in range(case["njobs1"])])
                evaluator.gather("BATCH", 1)
                evaluator.close()
                if case["first"] == "running":
                    evaluator.timeout = None
                emit(0, K_RETURN, 0)
                emit(0, K_AGAIN, 1)
            if mode == "peer":
                # a second evaluator attached to the same storage and search id: it gathers the jobs of the first one (during its
                # timed search, or after it); every status write of both goes through the same logging storage
                peer = hooks["make_peer"]()
                peer._job_class = evaluator._job_class
                hooks["peers"].append(peer)
                if case["peer"] == "during":
                    peer_thread = PeerThread(peer)
                    peer_thread.start()
            if mode == "evbudget_search":
                # search(timeout=T) on an evaluator on which the caller armed his own (longer) budget some time before
                evaluator.timeout = case["first_timeout"]
                time.sleep(case["pause"])
                emit(0, K_AGAIN, 1)
            if mode == "two_calls":
                # the first call runs without sentinels; the pair (and the early one) belongs to the second call
                search.search(timeout=case["first_timeout"])
                emit(0, K_RETURN, 0)
                emit(0, K_AGAIN, 1)
                arm(T)
                df = search.search(timeout=T)
            else:
                arm(T)
                if mode == "close_then_search":
                    try:
                        with Watchdog(T + 15):
                            df = search.search(timeout=T) if not case.get("max_evals") else search.search(max_evals=case["max_evals"], timeout=T)
                    except SearchHung:
                        df = None
                        extra["hung"] = [evaluator.num_jobs_submitted, evaluator.num_jobs_gathered, len(evaluator._tasks_running)]
                elif mode in ("search", "peer", "evbudget_search"):
                    df = search.search(timeout=T)
                elif mode == "evtimeout_search":
                    # the time budget is set on the evaluator, the search call has no `timeout` of its own
                    evaluator.timeout = T
                    df = search.search(max_evals=case["max_evals"])
                elif mode == "search_max":
                    df = search.search(max_evals=case["max_evals"], timeout=T)
                else:  # strict budget that may be hit in the middle of a batch
                    df = search.search(max_evals=case["max_evals"], timeout=T, max_evals_strict=True)
            table = rows_of_df(df)
            if peer is not None:
                returned_early()
                emit(0, K_RETURN, 0)
                extra["peer_table"] = peer_stage(peer, peer_thread, case["peer"])
        returned_early()
        if "peer_table" not in extra:
            emit(0, K_RETURN, 0)
        n_at_return = len(snapshot())
        time.sleep(settle)
        for t in timers:
            t.cancel()
        tr = snapshot()
        k0 = case["njobs1"] if mode == "close_then_search" else 0  # jobs given up by close() may still run in a pool worker
        late = sum(1 for e in tr[n_at_return:] if e[1] in (K_START, K_POLL, K_RET) and e[0] >= k0)
    return table, late, tr, extra


def run_case(case):
    from deephyper.evaluator import Evaluator, JobStatus
    from deephyper.evaluator.storage import MemoryStorage

    lock = threading.RLock()
    trace = []
    plan = case["plan"]
    cap = case["timeout"] + 3.5
    t00 = time.time()

    def ms():  # diagnostic only: never compared
        return int((time.time() - t00) * 1000)

    class LoggingStorage(MemoryStorage):
        def store_job_status(self, job_id, job_status):
            with lock:
                super().store_job_status(job_id, job_status)
                trace.append([int(job_id.split(".")[1]), K_W, int(job_status), ms()])

    def emit(j, kind, arg):
        with lock:
            if kind == K_POLL:  # the read and its log entry are one atomic step
                s = arg.status
                trace.append([j, K_POLL, int(s.value), ms()])
                return s
            trace.append([j, kind, arg, ms()])

    def snapshot():
        with lock:
            return [list(e) for e in trace]

    async def run_async(job):
        return await run_body_async(job, plan, cap, emit, (JobStatus.CANCELLING, JobStatus.CANCELLED))

    def run_sync(job):
        return run_body(job, plan, cap, emit, time.sleep, (JobStatus.CANCELLING, JobStatus.CANCELLED))

    storage = LoggingStorage()
    backend = case["backend"]
    evaluator = Evaluator.create(run_async if backend == "serial" else run_sync, method=backend,
                                 method_kwargs={"num_workers": case["workers"], "storage": storage})
    hooks = {"peers": [], "make_peer": lambda: Evaluator.create(run_async if backend == "serial" else run_sync, method=backend, method_kwargs={
        "num_workers": 1, "storage": storage, "search_id": evaluator._search_id})}
    instrument(evaluator, emit, hooks)
    table, late, tr, extra = drive(case, evaluator, emit, snapshot, hooks)
    njobs = len(storage.load_all_job_ids(evaluator._search_id))
    for ev in [evaluator] + hooks["peers"]:
        ex = getattr(ev, "executor", None)
        if ex is not None:
            ex.shutdown(wait=False, cancel_futures=True)
    return njobs, tr, table, late, extra


def run_case_process(case):
    """process / loky backend: fresh interpreter (vp.props.c14_child), shared log through a multiprocessing manager"""
    import json
    import subprocess
    import sys

    with tempfile.NamedTemporaryFile("w", suffix=".json", prefix="vp_c14_", delete=False) as f:
        json.dump(case, f)
        path = f.name
    from ..procs import run_group

    try:
        rc, stdout, stderr = run_group([sys.executable, "-m", "vp.props.c14_child", path], 100)
    finally:
        os.unlink(path)
    if rc is None:
        raise subprocess.TimeoutExpired("vp.props.c14_child", 100)
    if "@@RESULT@@" not in stdout:
        raise RuntimeError("process-backend child failed: " + stderr[-1500:])
    o = json.loads(stdout.split("@@RESULT@@")[1].strip())
    return o["njobs"], o["trace"], o["table"], o["late"], o.get("extra", {})


def budget_code(case):
    return 2 if case.get("mode", "search") in ("evaluator", "evtimeout_search", "early_close", "rearm", "evbudget_search", "close_then_search") else 1


def check(case):
    mode = case.get("mode", "search")
    njobs, tr, table, late, extra = run_case_process(case) if case["backend"] in ("process", "loky") else run_case(case)
    statuses = sorted(set(r[1] for r in table))
    sig = {"backend": case["backend"], "mode": mode}
    kinds = sorted(set(p[0] for p in case["plan"]))
    res = dict(ok=True, kind="oracle", clause="", nontrivial=(2 in statuses and 4 in statuses), sig=sig,
               desc=["mode=" + mode, "backend=" + case["backend"], "search=" + case.get("search", "random"), "workers=%d" % case["workers"], "timeout=%d" % case["timeout"],
                     "jobs=%d" % njobs, "mixed_done_cancelled" if (2 in statuses and 4 in statuses) else "uniform"] + ["plan:" + k for k in kinds])
    if extra.get("hung"):
        # "the search returns once the running evaluations have returned": it had not, long after the last run-function returned
        started = set(e[0] for e in tr if e[1] == K_START)
        returned = set(e[0] for e in tr if e[1] == K_RET)
        return dict(res, ok=False, kind="oracle", clause="search_did_not_return", sig=dict(mode=mode, clause="search_did_not_return"),
                    detail=dict(counters_submitted_gathered_tasks=extra["hung"], run_functions_still_running=sorted(started - returned), tail=[describe(x) for x in tr[-30:]]))
    # ---- (b) the per-job oracle (not for the close()-kills of early_close: close() does not wait for the run-functions) ----
    if mode != "early_close":
        # chained mode: the jobs of the direct session (killed by close()) are left to the global model; the jobs of the search are renumbered from 0
        k0 = case["njobs1"] if mode == "close_then_search" else 0
        old = [[e[0] - k0] + list(e[1:]) for e in tr if e[1] in OLD_KINDS and (e[0] >= k0 or e[1] == K_S)]
        vals = sorted({e[0]: e[2] for e in old if e[1] == K_RET}.items())
        ok, j, clause = model().call(F_CHECK, [njobs - k0, [[e[0], e[1], 0 if e[1] == K_RET else e[2]] for e in old], [list(v) for v in vals],
                                               [[r[0] - k0, r[1], r[2]] for r in table if r[0] >= k0], -1, late])
        if not ok:
            name = CLAUSE.get(clause, str(clause))
            return dict(res, ok=False, clause=name, sig=dict(sig, clause=name),
                        detail=dict(job=j + k0, job_trace=[e for e in old if e[0] == j or e[1] == K_S][:80], row=[r for r in table if r[0] == j + k0], njobs=njobs, rows=len(table), late=late))
    # ---- (c) the global model ----
    acc, pos, code, races, phase, agree, mjobs = model().call(F_ACCEPT, [case["workers"], budget_code(case), [e[:3] for e in tr], table, -1])
    res["desc"].append("deadline_races=%d" % min(races, 3))
    if not acc:
        e = tr[pos]
        name = ACCEPT_CLAUSE.get((e[1], e[2]) if e[1] == K_W else e[1], "model:event_%d" % e[1])
        # a rejection that contradicts a theorem about the jobs' fate ((b), (c), (d), poll / value clauses) is a failure of the
        # property; one about the harness protocol (gather / close / submit nesting) only says that model and code disagree
        kind = "corr" if e[1] in (K_SUBMIT, K_GIN, K_GOUT, K_CIN, K_RETURN, K_AGAIN, K_S) else "oracle"
        return dict(res, ok=False, kind=kind, clause=name, sig=dict(mode=mode, clause=name),
                    detail=dict(position=pos, code=code, event=e, event_text=describe(e), context=[describe(x) for x in tr[max(0, pos - 25):pos + 3]], njobs=njobs, table=table[:40]))
    if phase != 5:
        return dict(res, ok=False, kind="corr", clause="model:not_returned", sig=dict(sig, clause="model:not_returned"), detail=dict(phase=phase))
    if not agree or mjobs != njobs:
        return dict(res, ok=False, kind="oracle", clause="table_differs_from_model", sig=dict(sig, clause="table_differs_from_model"),
                    detail=dict(table=table[:60], model_jobs=mjobs, njobs=njobs, tail=[describe(x) for x in tr[-40:]]))
    # ---- the peer evaluator reports every job of the first one, with the same terminal status and value ----
    if "peer_table" in extra:
        pt = extra["peer_table"]
        events = [e[:3] for e in tr]
        agree = model().call(F_ACCEPT, [case["workers"], budget_code(case), events, pt, -1])[5]
        if not agree:
            # the same comparison once the jobs with a falsy (0) value that the peer did not report at all are put back
            have = set(r[0] for r in pt)
            falsy = [r for r in table if r[0] not in have and r[2] == 0]
            name = "peer_reports_differ"
            if falsy and model().call(F_ACCEPT, [case["workers"], budget_code(case), events, pt + falsy, -1])[5]:
                name = "peer_drops_job_with_falsy_objective"
            return dict(res, ok=False, kind="oracle", clause=name, sig=dict(mode=mode, clause=name),
                        detail=dict(table=table[:40], peer_table=pt[:40], how=case.get("peer")))
        res["desc"].append("peer=" + case.get("peer", ""))
    return res


def describe(e):
    return "%6d  %s" % (e[3], describe3(e[:3])) if len(e) > 3 else describe3(e)


def describe3(e):
    j, k, a = e
    names = {K_W: "W", K_START: "start", K_POLL: "poll", K_RET: "return", K_FIN: "execute-returns", K_SUBMIT: "submit(", K_GIN: "gather{", K_GOUT: "}gather", K_S0: "EARLY-SENTINEL",
             K_S: "SENTINEL", K_CIN: "close{", K_COUT: "}close", K_RETURN: "search-returned", K_AGAIN: "search-again", K_COLLECTED: "collected", K_COUNTS: "submitted-gathered="}
    if k in (K_W, K_POLL):
        return "%s j%d %s" % (names[k], j, ST_NAME.get(a, a))
    if k in (K_START, K_FIN, K_COLLECTED):
        return "%s j%d" % (names[k], j)
    if k == K_RET:
        return "return j%d -> %s" % (j, a)
    if k == K_SUBMIT:
        return "submit(%d)" % a
    if k == K_COUNTS:
        return "submitted-gathered=%d" % a
    return names.get(k, str(k))


MODES = ["search", "evaluator", "search_strict", "evtimeout_search", "search_max", "two_calls", "early_close", "rearm", "evbudget_search", "peer", "close_then_search"]
PEER_HOW = ["other", "gather_all", "during"]


def behaviours(rng, T):
    plan = []
    for _ in range(rng.randint(2, 5)):
        kind = rng.choice(["short", "long", "long", "nopoll", "edge"])
        val = rng.choice(["id", "id", "zero"])
        if kind == "short":
            plan.append(["short", rng.choice([0.15, 0.25, 0.4]), rng.choice([0.05, 0.1]), 0, val])
        elif kind == "nopoll":
            plan.append(["nopoll", rng.choice([0.1, 0.3, 0.45]), 0, 0, val])
        elif kind == "edge":
            # finishes within +-60 ms of the deadline when started with the first batch; either outcome is legal
            plan.append([rng.choice(["nopoll", "short"]), T + rng.choice([-0.06, -0.02, 0.0, 0.02, 0.06]), 0.11, 0, val])
        else:
            plan.append(["long", 0, rng.choice([0.03, 0.1, 0.2]), rng.choice([0, 0, 0.2]), val])
    if not any(p[0] in ("short", "nopoll") and p[1] < 0.5 for p in plan):
        plan[0] = ["short", 0.2, 0.05, 0, "id"]
    if not any(p[0] == "long" for p in plan):
        plan[-1] = ["long", 0, 0.1, 0, "id"]
    return plan


def gen(count, pairs):
    def g(rng, tier):
        for i in range(count):
            T = rng.choice([1, 1, 2])
            plan = behaviours(rng, T)
            W = rng.choice([1, 2, 4])
            mode, backend = pairs[i % len(pairs)]
            c = dict(timeout=T, workers=W, backend=backend, plan=plan, mode=mode, search=rng.choice(["random", "cbo"]))
            longs = [p for p in plan if p[0] == "long"]
            if mode in ("search", "two_calls", "rearm") and not any(p[4] == "zero" for p in longs):
                longs[0][4] = "zero"  # a cancelled job that returns a falsy value
            if mode == "evaluator":
                c["timeout"] = 2  # a job queued at the deadline with a stale budget would run 2 s more: visible beyond the slack
                c["njobs"] = W + rng.randint(1, 2 * W + 1)
                # jobs queued behind the workers must not all finish before the deadline: long jobs only
                c["plan"] = longs * 2 + [["short", 0.3, 0.1, 0, "id"]]
            elif mode == "evtimeout_search":
                # enough budget left at the expiry that a search which keeps submitting is still doing so 2 s later
                c["max_evals"] = 400
                c["plan"] = longs
            elif mode == "search_strict":
                # the strict budget is hit in the middle of a batch (max_evals < workers: in the very first one): the loop is left
                # through MaximumJobsSpawnReached with tasks that have not started yet
                c["workers"] = W = rng.choice([2, 4])
                c["max_evals"] = rng.choice([W - 1, W - 1, W + 1, 2 * W + 1])
                c["plan"] = longs  # every job runs until told to cancel
            elif mode == "search_max":
                c["max_evals"] = rng.choice([W + 1, 2 * W + 1, 3]) if W > 1 else rng.choice([2, 3])
                c["plan"] = longs
            elif mode == "two_calls":
                # the second call must get a fresh budget (early sentinel 0.5 s before its deadline)
                c["first_timeout"] = 1
                c["plan"] = [p for p in plan if not (p[0] != "long" and p[1] > 0.5)]
            elif mode == "rearm":
                # a first budget of 1 s (its long jobs are cancelled at its expiry), then a fresh budget T for a second batch whose
                # short jobs finish well inside it: they must not be told to cancel before the early sentinel of the LATEST budget
                c["first_timeout"] = 1
                c["njobs1"] = rng.randint(1, W + 1)
                c["njobs"] = rng.randint(2, W + 2)
                c["search"] = "random"
                # job 0 is long: the first batch lasts until the first budget expires
                c["plan"] = [longs[0]] + [p for p in plan if p is not longs[0] and not (p[0] != "long" and p[1] > 0.5)]
            elif mode == "evbudget_search":
                # the caller's own budget (2 s) was armed `pause` before a search(timeout=1): the search gets its own clock
                c["first_timeout"] = 2
                c["pause"] = rng.choice([0.6, 0.8])
                c["timeout"] = 1
                c["plan"] = [p for p in plan if not (p[0] != "long" and p[1] > 0.5)]
            elif mode == "peer":
                c["peer"] = PEER_HOW[i % 3]
                c["plan"] = [p for p in plan if not (p[0] != "long" and p[1] > 0.5)]
                if not any(p[0] == "long" and p[4] == "id" for p in c["plan"]):
                    c["plan"].append(["long", 0, 0.1, 0, "id"])  # a cancelled job with a truthy value
            elif mode == "close_then_search":
                # direct session with one job more than workers: close() finds jobs running (first = running: job 0 is short, close comes
                # before the expiry) or in CANCELLING (job 0 returns as soon as told, the others keep working 0.8 s) and one queued / just
                # started; then search(timeout=T) or search(max_evals, timeout=T) on the same evaluator, under a watchdog
                c["first"] = ["running", "cancelling"][(i // len(MODES) + i // len(pairs)) % 2]
                c["first_timeout"] = 1
                c["workers"] = W = max(W, 2)
                c["njobs1"] = k = W + 1
                if i % 3 == 0:
                    c["max_evals"] = rng.choice([W + 1, 2 * W + 1])
                head = ["short", 0.2, 0.05, 0, "id"] if c["first"] == "running" else ["long", 0, 0.05, 0, "id"]
                rest = [p for p in plan if not (p[0] != "long" and p[1] > 0.5)]
                # plan entries are used by job id modulo the plan length: ids 0..k-1 are the direct session, the search gets the full mix
                c["plan"] = ([head] + [["long", 0, rng.choice([0.05, 0.1]), 0.8 if c["first"] == "cancelling" else 0, rng.choice(["id", "zero"])] for _ in range(k - 1)] + rest)
            elif mode == "early_close":
                # job 0 returns as soon as it is told; the others keep working 0.8 s in CANCELLING: close() finds them there
                c["timeout"] = 1
                c["workers"] = W = max(W, 2)
                c["njobs"] = W
                c["search"] = "random"
                c["plan"] = [["long", 0, 0.05, 0, "id"]] + [["long", 0, rng.choice([0.05, 0.1]), 0.8, rng.choice(["id", "zero"])] for _ in range(W - 1)]
            yield c
    return g


def shrink(case):
    """fewer behaviours / fewer workers / plain RandomSearch"""
    if case.get("search") == "cbo":
        yield dict(case, search="random")
    if case.get("mode") != "early_close":
        if case["workers"] > 1:
            yield dict(case, workers=case["workers"] // 2)
        for i in range(len(case["plan"])):
            if len(case["plan"]) > 1:
                yield dict(case, plan=case["plan"][:i] + case["plan"][i + 1:])


def streams(tier):
    th = tier == "thorough"
    # every (mode, backend) pair occurs: thread and serial twice per round, process once (loky: thorough only)
    backs = ("serial", "thread", "process", "thread", "serial") + (("loky",) if th else ())
    pairs = [(m, b) for b in backs for m in MODES]
    return [Stream("timeout_searches", gen(330 if th else 55, pairs), check, shrink, timeout=180)]
