"""C14 - Timeouts cancel cooperatively and every job ends in a terminal status.

Tie: (a) translator fact - the JobStatus enum of the source (names -> codes) regenerated into Generated/Facts_C14.v and
consumed by theorem C14_status_codes; (b) trace acceptance - real searches with a timeout are run with a logging storage
(every status write) and run-functions that log start / every status poll / return under one lock; two sentinels are
logged 0.4 s and 1.9 s after the deadline.  The extracted Coq oracle ok_C14 replays every job's events on the status machine and checks the
results table (one row per job, terminal status = last write, returned value kept, jobs running across the deadline were
told to cancel and are reported CANCELLED, no run-function activity after search() returned).
"""
import ast
import asyncio
import os
import tempfile
import threading
import time

from ..driver import model
from ..runner import Stream
from .. import srcfacts

PROPERTY = "C14"
LEVEL = "proof"
FACTS = ["job_status"]
TRUSTED = [
    "real time: the deadline itself is not observed; two sentinels logged 0.4 s and 1.9 s after it: a job started before the first and not returned before the second was running across the deadline and must have been told to cancel before the second (1.5 s of slack for scheduling latency); "
    "a job finishing within that window may legally end DONE or CANCELLED",
    "asyncio.wait_for / shield / the thread pool behave as documented; status reads and writes are atomic under the harness lock",
]
ASSUMPTIONS = ["run-functions poll job.status and return soon after seeing CANCELLING", "backends covered: serial, thread, process (process: fresh interpreter, log shared through a multiprocessing manager); loky is not"]
RULE = ("timeouts {1,2}s x workers {1,2,4} x backend {serial, thread, process} x mode {search(timeout), search(max_evals, timeout) plain/strict, evaluator.timeout + gather, "
        "evaluator.timeout + search(max_evals)} x per-job behaviours (returned value 1000+id or the falsy 0; short jobs finishing before the deadline, long jobs polling at "
        "different intervals until CANCELLING, jobs that keep working after seeing it); non-trivial = DONE and CANCELLED rows in one run")
CLAUSE = {1: "illegal_status_sequence_or_stale_poll", 2: "no_terminal_status", 3: "row_count", 4: "row_status", 5: "value_not_kept",
          6: "ran_past_deadline_without_cancelling", 7: "cancelling_then_done", 8: "activity_after_search_returned",
          9: "submitted_long_after_expiry"}
F_CHECK = 1401


def facts(repo):
    path = os.path.join(repo, "src", "deephyper", "evaluator", "_job.py")
    from deephyper.evaluator._job import JobStatus

    live = [(s.name, int(s.value)) for s in JobStatus]
    # cross-check with the literal in the source when it has the simple shape
    tree = ast.parse(open(path).read())
    lit = None
    for node in ast.walk(tree):
        if isinstance(node, ast.ClassDef) and node.name == "JobStatus":
            lit = []
            for b in node.body:
                if isinstance(b, ast.Assign) and len(b.targets) == 1 and isinstance(b.targets[0], ast.Name) and isinstance(b.value, ast.Constant) and isinstance(b.value.value, int):
                    lit.append((b.targets[0].id, b.value.value))
                elif isinstance(b, ast.Expr) and isinstance(b.value, ast.Constant):
                    continue  # docstring
                else:
                    lit = None
                    break
    if lit is not None and sorted(lit) != sorted(live):
        return srcfacts.fail_closed("JobStatus literal %r differs from the imported enum %r" % (lit, live)), {"job_status": live, "literal": lit}
    text = "Definition job_status : list (string * Z) := " + srcfacts.coq_list(["(%s, %d)" % (srcfacts.coq_string(n), v) for n, v in live]) + ".\n"
    return text, {"job_status": live, "literal_checked": lit is not None}


def valof(plan, jid):
    """value returned by job jid: 1000 + jid, or the falsy 0 when the behaviour says so (a legal objective / output)"""
    b = plan[jid % len(plan)]
    return 0 if len(b) > 4 and b[4] == "zero" else 1000 + jid


def run_case(case):
    from deephyper.evaluator import Evaluator, JobStatus
    from deephyper.evaluator.storage import MemoryStorage
    from deephyper.hpo import HpProblem, RandomSearch

    lock = threading.RLock()
    trace = []
    vals = {}
    plan = case["plan"]
    T = case["timeout"]
    cap = T + 3.5

    class LoggingStorage(MemoryStorage):
        def store_job_status(self, job_id, job_status):
            with lock:
                super().store_job_status(job_id, job_status)
                trace.append([int(job_id.split(".")[1]), 0, int(job_status)])

    def behaviour(jid):
        return plan[jid % len(plan)]

    def poll(job, jid):
        with lock:
            s = job.status
            trace.append([jid, 2, int(s.value)])
        return s

    def ret(jid):
        v = valof(plan, jid)
        with lock:
            trace.append([jid, 3, 0])
            vals[jid] = v
        return v

    async def run_async(job):
        jid = int(job.id.split(".")[1])
        kind, dur, every, extra = behaviour(jid)[:4]
        with lock:
            trace.append([jid, 1, 0])
        t0 = time.time()
        while time.time() - t0 < (dur if kind == "short" else cap):
            await asyncio.sleep(every)
            s = poll(job, jid)
            if s is JobStatus.CANCELLING:
                if extra:
                    await asyncio.sleep(extra)
                    poll(job, jid)
                break
        return ret(jid)

    def run_sync(job):
        jid = int(job.id.split(".")[1])
        kind, dur, every, extra = behaviour(jid)[:4]
        with lock:
            trace.append([jid, 1, 0])
        t0 = time.time()
        while time.time() - t0 < (dur if kind == "short" else cap):
            time.sleep(every)
            s = poll(job, jid)
            if s is JobStatus.CANCELLING:
                if extra:
                    time.sleep(extra)
                    poll(job, jid)
                break
        return ret(jid)

    problem = HpProblem()
    problem.add_hyperparameter((0.0, 10.0), "x")
    storage = LoggingStorage()
    backend = case["backend"]
    evaluator = Evaluator.create(run_async if backend == "serial" else run_sync, method=backend,
                                 method_kwargs={"num_workers": case["workers"], "storage": storage})
    def sentinel():
        with lock:
            trace.append([0, 9, 0])

    mode = case.get("mode", "search")
    with tempfile.TemporaryDirectory(prefix="vp_c14_") as d:
        timer = threading.Timer(T + 0.4, sentinel)
        timer.daemon = True
        timer2 = threading.Timer(T + 1.9, sentinel)
        timer2.daemon = True
        timer2.start()
        table = []
        if mode == "evaluator":
            # evaluator-level timeout with more jobs submitted than workers: some jobs are still queued at the deadline
            evaluator.timeout = T
            timer.start()
            evaluator.submit([{"x": float(i)} for i in range(case["njobs"])])
            jobs = evaluator.gather("ALL")
            evaluator.close()
            for job in jobs:
                out = job.output
                table.append([int(job.id.split(".")[1]), int(job.status.value), int(out) if isinstance(out, (int, float)) else -1])
        else:
            search = RandomSearch(problem, evaluator, random_state=1, log_dir=d)
            timer.start()
            if mode == "search":
                df = search.search(timeout=T)
            elif mode == "evtimeout_search":
                # the time budget is set on the evaluator, the search call has no `timeout` of its own
                evaluator.timeout = T
                df = search.search(max_evals=case["max_evals"])
            elif mode == "search_max":
                df = search.search(max_evals=case["max_evals"], timeout=T)
            else:  # strict budget that may be hit in the middle of a batch
                df = search.search(max_evals=case["max_evals"], timeout=T, max_evals_strict=True)
            if df is not None:
                for _, row in df.iterrows():
                    obj = row["objective"]
                    try:
                        o = int(float(obj))
                    except (TypeError, ValueError):
                        o = -1
                    table.append([int(row["job_id"]), int(JobStatus[row["job_status"]].value), o])
        with lock:
            n_at_return = len(trace)
        time.sleep(0.3)
        timer.cancel()
        timer2.cancel()
        with lock:
            late = sum(1 for e in trace[n_at_return:] if e[1] in (1, 2, 3))
            tr = list(trace)
        njobs = len(storage.load_all_job_ids(evaluator._search_id))
    ex = getattr(evaluator, "executor", None)
    if ex is not None:
        ex.shutdown(wait=False, cancel_futures=True)
    return njobs, tr, sorted(vals.items()), table, late


def run_case_process(case):
    """process backend: fresh interpreter (vp.props.c14_child), shared log through a multiprocessing manager"""
    import json
    import subprocess
    import sys

    with tempfile.NamedTemporaryFile("w", suffix=".json", prefix="vp_c14_", delete=False) as f:
        json.dump(case, f)
        path = f.name
    try:
        p = subprocess.run([sys.executable, "-m", "vp.props.c14_child", path], stdout=subprocess.PIPE, stderr=subprocess.PIPE, text=True, timeout=80)
    finally:
        os.unlink(path)
    if "@@RESULT@@" not in p.stdout:
        raise RuntimeError("process-backend child failed: " + p.stderr[-1500:])
    o = json.loads(p.stdout.split("@@RESULT@@")[1].strip())
    return o["njobs"], o["trace"], [tuple(v) for v in o["vals"]], o["table"], o["late"]


def check(case):
    njobs, tr, vals, table, late = run_case_process(case) if case["backend"] == "process" else run_case(case)
    ok, j, clause = model().call(F_CHECK, [njobs, tr, [list(v) for v in vals], table, -1, late])
    statuses = sorted(set(r[1] for r in table))
    res = dict(ok=True, kind="oracle", clause="", nontrivial=(2 in statuses and 4 in statuses),
               sig={"backend": case["backend"], "mode": case.get("mode", "search")},
               desc=["mode=" + case.get("mode", "search"), "backend=" + case["backend"], "workers=%d" % case["workers"], "timeout=%d" % case["timeout"], "jobs=%d" % njobs,
                     "mixed_done_cancelled" if (2 in statuses and 4 in statuses) else "uniform"])
    if not ok:
        jtrace = [e for e in tr if e[0] == j or e[1] == 9]
        return dict(res, ok=False, clause=CLAUSE.get(clause, str(clause)),
                    detail=dict(job=j, job_trace=jtrace[:80], row=[r for r in table if r[0] == j], njobs=njobs, rows=len(table), late=late))
    return res


MODES = ["search", "evaluator", "search_strict", "evtimeout_search", "search_max"]


def gen(count, pairs):
    def g(rng, tier):
        for i in range(count):
            T = rng.choice([1, 1, 2])
            plan = []
            for _ in range(rng.randint(2, 5)):
                kind = rng.choice(["short", "long", "long"])
                if kind == "short":
                    plan.append(["short", rng.choice([0.15, 0.25, 0.4]), rng.choice([0.05, 0.1]), 0, rng.choice(["id", "id", "zero"])])
                else:
                    plan.append(["long", 0, rng.choice([0.03, 0.1, 0.2]), rng.choice([0, 0, 0.2]), rng.choice(["id", "zero"])])
            if not any(p[0] == "short" for p in plan):
                plan[0] = ["short", 0.2, 0.05, 0]
            if not any(p[0] == "long" for p in plan):
                plan[-1] = ["long", 0, 0.1, 0]
            W = rng.choice([1, 2, 4])
            mode, backend = pairs[i % len(pairs)]
            c = dict(timeout=T, workers=W, backend=backend, plan=plan, mode=mode)
            if mode == "evaluator":
                c["timeout"] = 2  # a job queued at the deadline with a stale budget would run 2 s more: visible beyond the slack
                c["njobs"] = W + rng.randint(1, 2 * W + 1)
                # jobs queued behind the workers must not all finish before the deadline: long jobs only
                c["plan"] = [p for p in plan if p[0] == "long"] * 2 + [["short", 0.3, 0.1, 0]]
            elif mode == "evtimeout_search":
                # enough budget left at the expiry that a search which keeps submitting is still doing so 2 s later
                c["max_evals"] = 400
                c["plan"] = [p for p in plan if p[0] == "long"]
            elif mode in ("search_strict", "search_max"):
                c["max_evals"] = rng.choice([W + 1, 2 * W + 1, 3]) if W > 1 else rng.choice([2, 3])
                c["plan"] = [p for p in plan if p[0] == "long"]  # every job runs until told to cancel
            yield c
    return g


def streams(tier):
    th = tier == "thorough"
    # every (mode, backend) pair occurs: serial and thread twice per round, process once
    pairs = [(m, b) for b in ("serial", "thread", "process", "thread", "serial") for m in MODES]
    return [Stream("timeout_searches", gen(100 if th else 25, pairs), check, None, timeout=150)]
