"""C04 - Results table is a faithful, complete record of the evaluations.

Tie: functional correspondence on the CELL MATRIX.  Every case runs REAL searches (RandomSearch, serial evaluator,
num_workers 1-4, one or two search() calls on one log_dir) whose run-function replays a generated output sequence
(all return forms, metadata key sets varying between jobs, single / multi objective, failures anywhere, NaN / inf
scalars) and records what it received and returned.  The batching is OBSERVED (a wrapper around the evaluator
instance's dump_jobs_done_to_csv records which jobs every dump call saw, in which order, and the flush flag) and fed to
the extracted model (`search_fixed`, entry 401), whose table must equal the implementation's results.csv parsed with
the `csv` module.  The property itself is decided by the extracted oracle ok_C04 (entry 403) applied to the
implementation's cell matrix and to what the run-function recorded.  The DataFrame returned by search() is compared
with the CSV (1e-12 relative: pandas' float parser is a named oracle).
"""
import copy
import csv
import json
import math
import os
import tempfile
import warnings
from fractions import Fraction

from ..driver import model
from ..runner import Stream

PROPERTY = "C04"
LEVEL = "proof"
COQ_DIRS = ("Common", "C11_Pareto")
TRUSTED = [
    "python csv module (reader) for parsing results.csv; float(text) for cell numbers (exact, correctly rounded)",
    "pandas read_csv / to_csv: the multi-objective table is rewritten by pandas, whose default float parser may move a "
    "number by an ulp; cells of a pandas-rewritten file (and of the DataFrame) are identified with the case's number "
    "within 1e-12 relative (the tolerance of the statement); single-objective files are compared exactly",
    "cells of the columns m:timestamp_* (wall clock) are only required to be numbers: the harness replaces them by one token",
    "the harness' recording run-function (what was received / returned) and the wrapper observing the dump calls",
    "tokens: texts <-> integers table built by the harness (tokF is the text of Evaluator.FAIL_RETURN_VALUE read from the imported module)",
]
ASSUMPTIONS = [
    "tuple / list objectives have >= 2 finite numeric elements (non-finite elements: C06 / F08; 1-tuples are outside the statement)",
    "within one search all successes have the same arity (scalars, or m-tuples)",
    "metadata values are ints, floats or strings that pandas' default NA parser does not read as missing and that do not parse as numbers",
    "metadata keys returned by the run-function differ from timestamp_submit / timestamp_gather",
    "multi-objective tables (rewritten by pandas): no INTEGER objective beyond 2^53 (pandas reads such a text one ulp off, which can flip a Pareto tie)",
]
RULE = ("output sequences of length <= 8 (+ overshoot of the batch) x all six return forms x metadata key sets varying per job x "
        "single / multi(2,3) objective x workers 1-4 x 1-2 search() calls; structured patterns: failure first, all failed, first call all failed, "
        "NaN/inf scalars; non-trivial = at least one failure and one success, or metadata key sets that differ between jobs")

F_FIXED, F_PINNED, F_ORACLE, F_PUBMD, F_MULTI = 401, 402, 403, 404, 405
SYS = "\x00sys"
SYS_KEYS = ("timestamp_submit", "timestamp_gather")


# ------------------------------------------------------------------ building python outputs from a spec
def py_number(v, pytype):
    import numpy as np

    NPTYPES = {"npfloat32": np.float32, "npfloat16": np.float16, "npfloat64": np.float64}

    if isinstance(v, str):
        x = float(v)  # "nan" | "inf" | "-inf"
        return NPTYPES[pytype](x) if pytype in NPTYPES else np.float64(x) if pytype.startswith("np") else x
    if pytype in NPTYPES and not isinstance(v, (bool, int)):
        return NPTYPES[pytype](v)     # only generated for values that the narrow type holds exactly
    if isinstance(v, bool):
        return v
    if isinstance(v, int) and abs(v) >= 2 ** 62:
        return v                      # a python integer beyond int64 (dict form keeps it, plain form goes through float())
    if pytype == "int" and abs(v) < 2 ** 62 and float(v) == int(v):
        return int(v)
    if pytype == "npint" and abs(v) < 2 ** 62 and float(v) == int(v):
        return np.int64(int(v))
    if pytype == "npfloat":
        return np.float64(v)
    return float(v)


def number_cell(v, pytype, through_float):
    """The cell a numeric objective must show: the plain scalar forms go through float(output), the others are kept."""
    val = py_number(v, pytype)
    return ("N", Fraction(float(val))) if through_float else value_cell(val)


def build_obj(o, pytype):
    if "n" in o:
        return py_number(o["n"], pytype)
    if "s" in o:
        return o["s"]
    vals = [py_number(v, pytype) for v in o["t"]]
    return vals if o.get("aslist") else tuple(vals)


def build_output(spec):
    """A fresh python object for one run-function return (standardize_output mutates dicts)."""
    form = spec["form"]
    obj = build_obj(spec["obj"], spec.get("pytype", "float"))
    if form == "plain":
        return obj
    if form == "dict":
        return {"objective": obj}
    if form == "dictmd":
        return {"objective": obj, "metadata": copy.deepcopy(spec["md"])}
    if form == "prof":
        return {"output": obj, "metadata": copy.deepcopy(spec["md2"])}
    if form == "profdict":
        return {"output": {"objective": obj}, "metadata": copy.deepcopy(spec["md2"])}
    if form == "profdictmd":
        return {"output": {"objective": obj, "metadata": copy.deepcopy(spec["md"])}, "metadata": copy.deepcopy(spec["md2"])}
    raise ValueError(form)


def is_failure_spec(spec):
    o = spec["obj"]
    return "s" in o or ("n" in o and isinstance(o["n"], str)) or ("t" in o and any(isinstance(v, str) for v in o["t"]))


def finite_tuple(o):
    return "t" in o and not any(isinstance(v, str) for v in o["t"])


# ------------------------------------------------------------------ running the implementation
def _plain(v):
    import numpy as np

    if isinstance(v, (bool, np.bool_)):
        return bool(v)
    if isinstance(v, np.integer):
        return int(v)
    if isinstance(v, np.floating):
        return float(v)
    if isinstance(v, (int, float)):
        return v
    return str(v)


def replay(job, side=None, outs=None):
    """The run-function (module level: the process backend pickles it): records what it received, replays the output."""
    idx = int(str(job.id).split(".")[-1])
    out = build_output(outs[idx % len(outs)])
    rec = json.dumps(dict(idx=idx, params={k: _plain(v) for k, v in job.parameters.items()})) + "\n"
    fd = os.open(side, os.O_WRONLY | os.O_APPEND | os.O_CREAT)
    try:
        os.write(fd, rec.encode())
    finally:
        os.close(fd)
    return out


async def replay_async(job, side=None, outs=None):
    return replay(job, side=side, outs=outs)


CATS = ["a", "b c", "q,r", 'say "hi"', "line\nbreak", " sp "]


def make_problem():
    from deephyper.hpo import HpProblem

    problem = HpProblem()
    problem.add_hyperparameter((0.0, 10.0), "x")
    problem.add_hyperparameter((0, 10), "k")
    problem.add_hyperparameter(CATS, "c")
    problem.add_hyperparameter([True, False], "b")
    return problem


def run_impl(case):
    """One or two Search objects, one after the other, on ONE log_dir (one evaluator or a new one for the second search).
    Returns one observation per Search object: dict(received, finished, dumps, calls, dfs, csv, status, fail_text)."""
    warnings.filterwarnings("ignore")
    from deephyper.evaluator import Evaluator
    from deephyper.hpo import RandomSearch

    backend = case.get("backend", "serial")
    plan = [dict(calls=case["calls"], new_evaluator=True)]
    if case.get("second"):
        plan.append(dict(calls=case["second"]["calls"], new_evaluator=not case["second"].get("reuse")))
    problem = make_problem()
    tables = []
    with tempfile.TemporaryDirectory(prefix="vp_c04_") as d:
        log_dir = os.path.join(d, "log")
        evaluator, side, cur = None, None, [None]
        evaluators = []
        for si, pl in enumerate(plan):
            if pl["new_evaluator"]:
                side = os.path.join(d, "side%d.jsonl" % si)
                evaluator = Evaluator.create(replay_async if backend == "serial" else replay, method=backend,
                                             method_kwargs={"num_workers": case["workers"], "run_function_kwargs": dict(side=side, outs=case["outs"])})
                evaluators.append(evaluator)
                orig_dump = evaluator.dump_jobs_done_to_csv

                def dump(*a, _ev=evaluator, _orig=orig_dump, **k):
                    pre = [int(str(j.id).split(".")[-1]) for j in _ev.jobs_done]
                    flush = bool(k.get("flush", a[2] if len(a) > 2 else False))
                    try:
                        return _orig(*a, **k)
                    finally:
                        cur[0]["dumps"].append(dict(pre=pre, flush=flush, post=[int(str(j.id).split(".")[-1]) for j in _ev.jobs_done], call=len(cur[0]["calls"])))

                evaluator.dump_jobs_done_to_csv = dump
            obs = dict(dumps=[], calls=[], dfs=[], csv=None, status={}, side=side, evaluator=evaluator, reuse=not pl["new_evaluator"])
            cur[0] = obs
            tables.append(obs)
            before = set(os.listdir(log_dir)) if os.path.isdir(log_dir) else set()
            try:
                search = RandomSearch(problem, evaluator, random_state=case.get("seed", 1) + si, log_dir=log_dir)
                obs["renamed"] = sorted(set(os.listdir(log_dir)) - before - {"context.yaml"})
                for ci, n in enumerate(pl["calls"]):
                    if ci and case.get("user_dump"):
                        # the user dumps by hand between two calls (nothing is pending: must change nothing)
                        evaluator.dump_jobs_done_to_csv(log_dir, flush=bool(ci % 2))
                    df = search.search(max_evals=n)
                    obs["calls"].append("none" if df is None else "ok")
                    obs["dfs"].append(df)
            except Exception as e:  # the property: search() returns the table
                obs["calls"].append("raised:" + type(e).__name__)
                import traceback

                obs["exc"] = "%s: %s | %s" % (type(e).__name__, str(e)[:300], traceback.format_exc()[-700:])
                obs["dfs"].append(None)
                break
        # the table of the last search is results.csv, the table of an earlier one the file it was renamed to
        for ti, obs in enumerate(tables):
            if ti + 1 < len(tables):
                names = tables[ti + 1].get("renamed", [])
                path = os.path.join(log_dir, names[0]) if len(names) == 1 else None
                obs["renamed_to"] = names
            else:
                path = os.path.join(log_dir, "results.csv")
            if path is not None and os.path.exists(path):
                with open(path, newline="") as f:
                    rows = list(csv.reader(f))
                obs["csv"] = (rows[0], rows[1:]) if rows else ([], [])
        for ev in evaluators:
            ex = getattr(ev, "executor", None)
            if ex is not None:
                ex.shutdown(wait=False, cancel_futures=True)
        # what the run-functions recorded
        for obs in tables:
            recs = [json.loads(ln) for ln in open(obs["side"])] if os.path.exists(obs["side"]) else []
            mine = set(i for dmp in obs["dumps"] for i in dmp["pre"])
            obs["received"] = {r["idx"]: r["params"] for r in recs if r["idx"] in mine}
            obs["finished"] = [r["idx"] for r in recs if r["idx"] in mine]
            obs["recorded"] = [r["idx"] for r in recs]
            for j in obs["evaluator"].jobs:
                i = int(str(j.id).split(".")[-1])
                if i in mine:
                    obs["status"][i] = j.status.name
            obs["fail_text"] = type(obs["evaluator"]).FAIL_RETURN_VALUE
            del obs["evaluator"]
    # every evaluation that returned belongs to exactly one table (a job that was never dumped has no row anywhere)
    return tables


# ------------------------------------------------------------------ texts / numbers -> tokens
def parse_text(t):
    if t == "":
        return ("E",)
    if t.lstrip("-").isdigit() and t.count("-") <= 1 and t.isascii():
        return ("N", Fraction(int(t)))    # integer text: exact (python integers beyond 2^53 are written digit by digit)
    try:
        x = float(t)
    except ValueError:
        return ("S", t)
    if math.isfinite(x):
        return ("N", Fraction(x))
    return ("S", t)


def value_cell(v):
    """The cell a python value must show."""
    import numpy as np

    if v is None:
        return ("E",)                     # csv writes None as the empty string
    if isinstance(v, (bool, np.bool_)):
        return ("S", str(bool(v)))
    if isinstance(v, (int, np.integer)):
        return ("N", Fraction(int(v)))
    if isinstance(v, (float, np.floating)):
        x = float(v)
        return ("N", Fraction(x)) if math.isfinite(x) else ("S", repr(x))
    return parse_text(str(v))


class Tokens:
    def __init__(self, fail_text):
        self.s = {fail_text: 0, "True": 1, "False": 2}
        self.k = {}
        self.nums = set()

    def text(self, t):
        return self.s.setdefault(t, len(self.s))

    def key(self, name):
        if name not in self.k:
            n = len(self.k) + 1
            self.k[name] = -n if name.startswith("_") else n
        return self.k[name]

    def scale(self):
        den = 1
        for f in self.nums:
            den = max(den, f.denominator)
        return den


def enc_cell(c, tok, den):
    if c[0] == "N":
        v = c[1] * den
        assert v.denominator == 1
        return [0, int(v)]
    if c[0] == "S":
        return [1, tok.text(c[1])]
    return [2]


def note_nums(c, tok):
    if c[0] == "N":
        tok.nums.add(c[1])


def col_of(name, tok):
    if name.startswith("p:"):
        return [0, tok.key("p/" + name[2:])]
    if name == "objective":
        return [1]
    if name.startswith("objective_") and name[10:].isdigit():
        return [2, int(name[10:])]
    if name == "job_id":
        return [3]
    if name == "job_status":
        return [4]
    if name.startswith("m:"):
        return [5, tok.key(name[2:])]
    if name == "pareto_efficient":
        return [6]
    return [5, tok.key("?" + name)]


def md_cells(md):
    return [(k, value_cell(v)) for k, v in md.items()]


def spec_model(spec):
    """(objective, md-of-dict or None, md-of-profile or None) as python-level descriptions."""
    o = spec["obj"]
    form = spec["form"]
    md = md_cells(spec["md"]) if form in ("dictmd", "profdictmd") else None
    md2 = md_cells(spec["md2"]) if form.startswith("prof") else None
    return o, md, md2, form


def obj_numbers(spec):
    """The exact numbers the objective cell(s) must show."""
    o, form, pt = spec["obj"], spec["form"], spec.get("pytype", "float")
    if "n" in o and not isinstance(o["n"], str):
        return [number_cell(o["n"], pt, form in ("plain", "prof"))[1]]
    if finite_tuple(o):
        return [number_cell(v, pt, False)[1] for v in o["t"]]
    return []


def enc_job(idx, case, obs, tok, den):
    spec = case["outs"][idx % len(case["outs"])]
    o, md, md2, form = spec_model(spec)
    if "n" in o:
        if isinstance(o["n"], str):
            robj = [0, [{"nan": 1, "inf": 2, "-inf": 3}[o["n"]]]]
        else:
            robj = [0, [0, int(obj_numbers(spec)[0] * den)]]
    elif "s" in o:
        robj = [1, tok.text(o["s"])]
    elif not finite_tuple(o):
        robj = [3]                    # a tuple / list with a non-finite member
    else:
        robj = [2, [int(x * den) for x in obj_numbers(spec)]]
    emd = lambda m: [[tok.key(k), enc_cell(c, tok, den)] for k, c in m]
    if form in ("plain",):
        rplain = [0, robj]
    elif form in ("prof",):
        rplain = [0, robj]
    else:
        rplain = [1, robj, [emd(md)] if md is not None else []]
    rfout = [1, rplain, emd(md2)] if md2 is not None else [0, rplain]
    args = [[tok.key("p/" + k), enc_cell(value_cell(v), tok, den)] for k, v in obs["received"][idx].items()]
    pre = [[tok.key(SYS_KEYS[0]), [1, tok.text(SYS)]]]
    post = [[tok.key(SYS_KEYS[1]), [1, tok.text(SYS)]]]
    return [idx * den, args, rfout, tok.text(obs["status"].get(idx, "?")), pre, post]


def collect_numbers(case, obs, tok):
    for idx in obs["finished"]:
        tok.nums.add(Fraction(idx))
        spec = case["outs"][idx % len(case["outs"])]
        for x in obj_numbers(spec):
            tok.nums.add(x)
        for m in (spec.get("md") or {}, spec.get("md2") or {}):
            for k, c in md_cells(m):
                note_nums(c, tok)
        for v in obs["received"][idx].values():
            note_nums(value_cell(v), tok)


def snap(fr, cands):
    """Identify a number with the case's number within 1e-12 relative (decimal round trip through pandas)."""
    best = None
    for c in cands:
        if abs(fr - c) <= Fraction(1, 10 ** 12) * max(abs(fr), abs(c)):
            if best is None or abs(fr - c) < abs(fr - best):
                best = c
    return fr if best is None else best


def impl_matrix(obs, tok):
    """CSV text -> (header names, rows of abstract cells); wall-clock columns masked; numbers snapped when pandas rewrote the file."""
    header, rows = obs["csv"]
    rewritten = "pareto_efficient" in header
    cands = sorted(tok.nums)
    out = []
    for r in rows:
        cells = []
        for i, t in enumerate(r):
            c = parse_text(t)
            name = header[i] if i < len(header) else ""
            if name.startswith("m:timestamp_") and c[0] == "N":
                c = ("S", SYS)
            elif c[0] == "N" and rewritten:
                c = ("N", snap(c[1], cands))
            cells.append(c)
        out.append(cells)
    return header, out


def df_cells(df):
    import numpy as np

    rows = []
    for rec in df.itertuples(index=False):
        cells = []
        for v in rec:
            if isinstance(v, str):
                cells.append(parse_text(v))
            elif isinstance(v, (bool, np.bool_)):
                cells.append(("S", str(bool(v))))
            elif v is None or (isinstance(v, (float, np.floating)) and math.isnan(float(v))):
                cells.append(("E",))
            else:
                try:
                    cells.append(value_cell(v))
                except Exception:
                    cells.append(("S", repr(v)))
        rows.append(cells)
    return [str(c) for c in df.columns], rows


def close(a, b):
    if a[0] != b[0]:
        return False
    if a[0] == "N":
        return abs(a[1] - b[1]) <= Fraction(1, 10 ** 12) * max(abs(a[1]), abs(b[1]))
    return a == b


def events_of(obs):
    """The observed batching: for every dump call the jobs that were appended to jobs_done since the previous one."""
    evs, prev_post = [], []
    for d in obs["dumps"]:
        if d["pre"][:len(prev_post)] != prev_post:
            return None
        evs.append((d["pre"][len(prev_post):], d["flush"]))
        prev_post = d["post"]
    return evs


def canon_table(h, rows):
    """Coarse canonical form: header as a set, rows keyed by their job_id cell, cells keyed by column (Pareto column apart)."""
    cols = [tuple(c) for c in h]
    idc = cols.index((3,)) if (3,) in cols else None
    table, pareto = {}, {}
    for r in rows:
        key = tuple(r[idc]) if idc is not None and idc < len(r) else ("?", len(table))
        table[repr(key)] = sorted((repr(cols[i]) if i < len(cols) else "extra%d" % i, repr(r[i])) for i in range(len(r)) if i >= len(cols) or cols[i] != (6,))
        if (6,) in cols and cols.index((6,)) < len(r):
            pareto[repr(key)] = r[cols.index((6,))]
    return sorted(repr(c) for c in cols), table, pareto


def selected_values(h, rows):
    cols = [tuple(c) for c in h]
    if (6,) not in cols:
        return None
    pi = cols.index((6,))
    oi = [i for i, c in enumerate(cols) if c[0] in (1, 2)]
    return sorted(repr([r[i] for i in oi]) for r in rows if pi < len(r) and r[pi] == [1, 1])


def features(case, obs):
    outs = case["outs"]
    spec = lambda i: outs[i % len(outs)]
    order = [i for d in obs["dumps"] for i in d["pre"]]
    seen, first_order = set(), []
    for i in order:
        if i not in seen:
            seen.add(i)
            first_order.append(i)
    call1 = set(i for d in obs["dumps"] if d["call"] == 0 for i in d["pre"])
    multi = any(finite_tuple(spec(i)["obj"]) for i in obs["finished"])
    ints = [v for o in outs for v in (o["obj"].get("t", []) + [o["obj"].get("n", 0)]) if isinstance(v, int) and not isinstance(v, bool)]
    return dict(
        big_int=any(abs(v) >= 2 ** 63 for v in ints),
        kind="multi" if multi else "single",
        fail_first=bool(first_order) and is_failure_spec(spec(first_order[0])),
        first_call_all_failed=bool(call1) and all(is_failure_spec(spec(i)) for i in call1) and len(obs["calls"]) > 1,
    )


def check(case):
    tables = run_impl(case)
    prev, out = [], None
    for ti, obs in enumerate(tables):
        r, mevs = check_table(case, obs, prev if obs["reuse"] else [])
        r["desc"] = r.get("desc", []) + ["backend=" + case.get("backend", "serial"), "searches=%d" % len(tables)] + \
            (["second=" + ("same_evaluator" if case["second"].get("reuse") else "new_evaluator")] if case.get("second") else []) + \
            (["user_dump"] if case.get("user_dump") else [])
        if not r["ok"]:
            r["sig"]["table"] = ti
            if isinstance(r.get("detail"), dict):
                r["detail"]["table"] = ti
            return r
        prev = (prev if obs["reuse"] else []) + [mevs]
        out = r if out is None else dict(out, nontrivial=out["nontrivial"] or r["nontrivial"], desc=out["desc"] + [x for x in r["desc"] if x not in out["desc"]])
    # every evaluation whose run-function returned is a job of exactly one table
    sides = {}
    for obs in tables:
        sides.setdefault(obs["side"], [set(obs["recorded"]), set()])[1].update(obs["finished"])
    if all(c == "ok" or c == "none" for obs in tables for c in obs["calls"]):
        for side, (rec, fin) in sides.items():
            if rec != fin:
                return dict(out, ok=False, clause="evaluation_never_dumped", sig=dict(out["sig"], clause="evaluation_never_dumped"),
                            detail=dict(recorded=sorted(rec), in_tables=sorted(fin)))
    return out


def check_table(case, obs, prev):
    res, mevs = check_table_in(case, obs, prev)
    return res, mevs


def check_table_in(case, obs, prev):
    mevs = []
    feats = features(case, obs)
    fin = obs["finished"]
    nfail = sum(is_failure_spec(case["outs"][i % len(case["outs"])]) for i in fin)
    mdsets = set(tuple(sorted(list((case["outs"][i % len(case["outs"])].get("md") or {}).keys()) + list((case["outs"][i % len(case["outs"])].get("md2") or {}).keys()))) for i in fin)
    forms = sorted(set(case["outs"][i % len(case["outs"])]["form"] for i in fin))
    res = dict(ok=True, kind="oracle", clause="", sig=dict(feats),
               nontrivial=(0 < nfail < len(fin)) or len(mdsets) > 1,
               desc=["kind=" + feats["kind"], "workers=%d" % case["workers"], "calls=%d" % len(case["calls"]), "jobs=%d" % len(fin),
                     "fail_first=%s" % feats["fail_first"], "failures=%s" % ("none" if nfail == 0 else "all" if nfail == len(fin) else "some"),
                     "dumps=%d" % len(obs["dumps"])] + ["form=" + f for f in forms])
    if not isinstance(obs["fail_text"], str) or not obs["fail_text"].startswith("F"):
        return dict(res, ok=False, kind="corr", clause="fail_marker", detail=repr(obs["fail_text"])), mevs
    raised = [c for c in obs["calls"] if c.startswith("raised")]
    if raised:
        res["sig"]["raised"] = raised[0][7:]
    if len(set(fin)) != len(fin) or sorted(obs["status"]) != sorted(fin):
        return dict(res, ok=False, kind="corr", clause="harness_bookkeeping", detail=dict(finished=fin, status=obs["status"])), mevs
    tok = Tokens(obs["fail_text"])
    collect_numbers(case, obs, tok)
    evs = events_of(obs)
    if evs is None:
        return dict(res, ok=False, kind="corr", clause="jobs_done_not_a_queue", detail=obs["dumps"]), mevs
    m = model()
    # ---- implementation's table
    if obs["csv"] is None:
        imp = None
    else:
        header, cells = impl_matrix(obs, tok)
        for r in cells:
            for c in r:
                note_nums(c, tok)
    den = tok.scale()
    jobs = {i: enc_job(i, case, obs, tok, den) for i in fin}
    mevs = [[[jobs[i] for i in new], fl] for new, fl in evs]
    if obs["csv"] is not None:
        imp_h = [col_of(nm, tok) for nm in header]
        imp_rows = [[enc_cell(c, tok, den) for c in r] for r in cells]
    # ---- the property, decided by the extracted oracle on the implementation's cell matrix
    detail = dict(csv=obs["csv"], dumps=obs["dumps"], calls=obs["calls"], exc=obs.get("exc"), finished=fin,
                  returned={i: case["outs"][i % len(case["outs"])] for i in fin}, received={i: {k: str(v) for k, v in obs["received"][i].items()} for i in fin})
    if obs["csv"] is None:
        if fin:
            return dict(res, ok=False, clause="no_table", detail=detail), mevs
    else:
        ok, clause, bad = m.call(F_ORACLE, [[jobs[i] for i in fin], imp_h, imp_rows])
        if not ok:
            name = {1: "ids", 2: "cells", 3: "header", 4: "pareto"}.get(clause, "?")
            if clause == 2 and bad:
                ci = bad[0][1]
                kindc = imp_h[ci][0] if ci < len(imp_h) else -1
                name += ":" + {0: "param", 1: "objective", 2: "objective", 3: "job_id", 4: "job_status", 5: "metadata"}.get(kindc, "shape")
            if clause == 3:
                got = sorted(tuple(c) for c in imp_h if c[0] in (1, 2))
                name += ":objective_columns" if got != sorted(set(tuple(c) for c in expected_objcols(case, fin))) else ":columns"
            res["sig"]["clause"] = name
            detail["bad_cells"] = [(r, header[c] if c < len(header) else c) for r, c in bad[:12]]
            return dict(res, ok=False, clause=name, detail=detail), mevs
    if raised:
        return dict(res, ok=False, clause="search_" + raised[0], detail=detail), mevs
    # ---- DataFrame returned by the last call vs the CSV (pandas' parser is the oracle, 1e-12)
    df = obs["dfs"][-1] if obs["dfs"] else None
    if obs["csv"] is not None:
        if df is None:
            return dict(res, ok=False, clause="no_dataframe", detail=detail), mevs
        dcols, drows = df_cells(df)
        hdr, raw = obs["csv"]
        same = dcols == hdr and len(drows) == len(raw)
        if same:
            for dr, rr in zip(drows, raw):
                rr = list(rr) + [""] * (len(hdr) - len(rr))
                if len(dr) != len(rr) or not all(close(a, parse_text(t)) for a, t in zip(dr, rr)):
                    same = False
                    break
        if not same:
            return dict(res, ok=False, clause="dataframe_vs_csv", detail=dict(detail, df_columns=dcols, df_rows=repr(drows)[:2000])), mevs
    elif df is not None:
        return dict(res, ok=False, clause="dataframe_without_file", detail=detail), mevs
    # ---- correspondence with the model of the (repaired) dump on the observed batching
    mod = m.call(F_MULTI, prev + [mevs])[-1]
    if obs["csv"] is None:
        if mod[0] != 0:
            return dict(res, ok=False, kind="corr", clause="table_presence", detail=dict(detail, model=mod)), mevs
        return res, mevs
    if mod[0] != 2:
        return dict(res, ok=False, kind="corr", clause="table_presence", detail=dict(detail, model=mod)), mevs
    a, b = canon_table(imp_h, imp_rows), canon_table(mod[1], mod[2])
    if a[0] != b[0]:
        return dict(res, ok=False, kind="corr", clause="header", detail=dict(detail, impl=a[0], model=b[0])), mevs
    if a[1] != b[1]:
        diff = {k: (a[1].get(k), b[1].get(k)) for k in set(a[1]) | set(b[1]) if a[1].get(k) != b[1].get(k)}
        return dict(res, ok=False, kind="corr", clause="rows", detail=dict(detail, diff=repr(diff)[:3000])), mevs
    if a[2] != b[2] and selected_values(imp_h, imp_rows) != selected_values(mod[1], mod[2]):
        return dict(res, ok=False, kind="corr", clause="pareto_values", detail=dict(detail, impl=a[2], model=b[2])), mevs
    return res, mevs


def expected_objcols(case, fin):
    for i in fin:
        o = case["outs"][i % len(case["outs"])]["obj"]
        if finite_tuple(o):
            return [[2, k] for k in range(len(o["t"]))]
    return [[1]]


# ------------------------------------------------------------------ generators
MD_KEYS = ["a", "b", "c2", "_h", "long key", "_z"]
MD_STR = ["s", "t1", "u v", "q,r", 'say "hi"', "x:y"]
LABELS = ["F", "F_a", "F_timeout", "F_b c", "Fail,1"]


EDGE = [0.0, -0.0, 1e300, -1e300, 5e-324, 2.2250738585072014e-308, 1.7976931348623157e308, 1.0, 1.0000000000000002, 0.9999999999999999,
        123456789.12345679, 123456789.12345678, 9007199254740993, 2 ** 63 + 1, -(2 ** 64), 1e-310]
EDGE_MULTI = [0.0, -0.0, 1e300, -1e300, 5e-324, 1e-310, 1.0, 4503599627370497.0]   # exact through pandas (integers beyond 2^53 drift by an ulp there)
MD_ODD = [0, 0.0, "", None, False, True, [1, 2], {"k": 1}, "a\nb", [], "0"]


def gen_number(rng, style):
    if style == "grid":
        return rng.randint(-16, 16) / 4.0
    if style == "int":
        return float(rng.randint(-5, 5))
    if style == "edge":
        return rng.choice(EDGE)
    if style == "edge_multi":
        return rng.choice(EDGE_MULTI)
    return rng.choice([rng.uniform(-5, 5), rng.uniform(-1e-3, 1e-3), rng.uniform(-1e6, 1e6), 0.1, 1 / 3])


def gen_md(rng):
    keys = [k for k in MD_KEYS if rng.random() < 0.4]
    rng.shuffle(keys)
    md = {}
    for k in keys:
        r = rng.random()
        md[k] = rng.choice(MD_STR) if r < 0.3 else rng.randint(-3, 9) if r < 0.55 else rng.choice(MD_ODD) if r < 0.8 else gen_number(rng, "float")
    return md


def gen_out(rng, multi, fail, style):
    narrow = ["npfloat32", "npfloat16", "npfloat64"]
    if fail:
        r = rng.random()
        if multi and r > 0.85:
            # a non-finite member in a tuple / list (python float or a numpy float of any width)
            t = [gen_number(rng, "grid") for _ in range(multi)]
            t[rng.randrange(multi)] = rng.choice(["nan", "inf", "-inf"])
            obj = {"t": t, "aslist": rng.random() < 0.4}
        else:
            obj = {"s": rng.choice(LABELS)} if r < 0.7 else {"n": rng.choice(["nan", "inf", "-inf"])}
    elif multi and isinstance(style, list):
        # "absorb": one objective of huge magnitude shared by all rows, the others negligible against it (the sums of the
        # coordinates round to the same float; for 1.5e308 they overflow): dominated and dominating rows in both orders
        big, small = style
        obj = {"t": [big] + [rng.choice(small) for _ in range(multi - 1)], "aslist": rng.random() < 0.4}
        if rng.random() < 0.5:
            obj["t"] = obj["t"][1:] + obj["t"][:1]
    elif multi:
        obj = {"t": [gen_number(rng, "edge_multi" if style == "edge" else style) for _ in range(multi)], "aslist": rng.random() < 0.4}
    else:
        obj = {"n": gen_number(rng, style)}
    form = rng.choice(["plain", "plain", "dict", "dictmd", "prof", "profdict", "profdictmd"])
    spec = dict(form=form, obj=obj, pytype=rng.choice(["float", "float", "int", "npfloat", "npint"]))
    if isinstance(style, list):
        spec["pytype"] = rng.choice(["float", "npfloat"])   # (as integers, values beyond 2^53 drift by an ulp through pandas)
    if (fail or (isinstance(style, str) and style in ("grid", "int"))) and rng.random() < 0.35:
        spec["pytype"] = rng.choice(narrow)   # grid / int values are exact in float16; a non-finite value exists in every width
    if not fail and not multi and rng.random() < 0.06:
        # a python bool is a Number: falsy / truthy objective through the scalar forms (float(output))
        spec["obj"], spec["form"], form = {"n": rng.random() < 0.5}, rng.choice(["plain", "prof"]), None
        form = spec["form"]
    if form in ("dictmd", "profdictmd"):
        spec["md"] = gen_md(rng)
    if form.startswith("prof"):
        spec["md2"] = gen_md(rng)
    return spec


def gen_case(rng, pattern=None, small=False):
    multi = rng.choice([0, 0, 2, 2, 3])
    workers = rng.randint(1, 4)
    ncalls = rng.choice([1, 1, 2])
    total = rng.randint(1, 4 if small else 8)
    if ncalls == 2 and total < 2:
        total = 2
    if ncalls == 1:
        calls = [total]
    else:
        a = rng.randint(1, total - 1)
        calls = [a, total - a]
    n = total + 2 * workers * ncalls
    pattern = pattern or rng.choice(["mixed", "mixed", "mixed", "fail_first", "all_fail", "no_fail", "call1_fail", "late_success"])
    pf = rng.choice([0.2, 0.5, 0.8])
    style = rng.choice(["grid", "grid", "int", "float", "edge"])
    if multi and rng.random() < 0.3:
        big = rng.choice([3e17, -3e17, 1e17, 2.0 ** 60, 1.5e308, -1.5e308])
        style = [big, [1e308, 9e307, 8e307] if abs(big) > 1e300 else [0.5, 0.75, 0.9, 1.0, -1.0]]
    outs = []
    for i in range(n):
        if pattern == "mixed":
            fail = rng.random() < pf
        elif pattern == "fail_first":
            fail = i < rng.randint(1, 3) or rng.random() < 0.3
        elif pattern == "all_fail":
            fail = True
        elif pattern == "no_fail":
            fail = False
        elif pattern == "call1_fail":
            fail = i < calls[0] + workers or rng.random() < 0.2
        else:  # late_success: only the last evaluations succeed
            fail = i < total - 1
        outs.append(gen_out(rng, multi, fail, style))
    case = dict(workers=workers, calls=calls, outs=outs, seed=rng.randint(0, 10 ** 6))
    r = rng.random()
    case["backend"] = "serial" if r < 0.8 else "thread"     # (the process backend forks from a threaded runner worker: it can dead-lock; not used)
    if ncalls == 2 and rng.random() < 0.3:
        case["user_dump"] = True
    if rng.random() < 0.15:
        case["second"] = dict(calls=[rng.randint(1, 3)], reuse=rng.random() < 0.5)
    return case


def gen(count):
    def g(rng, tier):
        k = count * (3 if tier == "search" else 1)
        for i in range(k):
            yield gen_case(rng, small=(tier == "search"))
    return g


def shrink(case):
    outs, calls = case["outs"], case["calls"]
    if len(calls) > 1:
        yield dict(case, calls=calls[:1])
        yield dict(case, calls=[sum(calls)])
    for i, n in enumerate(calls):
        if n > 1:
            yield dict(case, calls=calls[:i] + [n - 1] + calls[i + 1:])
    if case["workers"] > 1:
        yield dict(case, workers=case["workers"] - 1)
    if len(outs) > 1:
        for i in range(len(outs)):
            yield dict(case, outs=outs[:i] + outs[i + 1:])
    for i, o in enumerate(outs):
        if o["form"] != "plain":
            yield dict(case, outs=outs[:i] + [dict(form="plain", obj=o["obj"], pytype="float")] + outs[i + 1:])
        for key in ("md", "md2"):
            if o.get(key):
                for k in list(o[key]):
                    o2 = copy.deepcopy(o)
                    del o2[key][k]
                    yield dict(case, outs=outs[:i] + [o2] + outs[i + 1:])
        if finite_tuple(o["obj"]):
            o2 = copy.deepcopy(o)
            o2["obj"]["t"] = [float(k) for k in range(len(o["obj"]["t"]))]
            if o2 != o:
                yield dict(case, outs=outs[:i] + [o2] + outs[i + 1:])
        if "s" in o["obj"] and o["obj"]["s"] != "F_a":
            o2 = copy.deepcopy(o)
            o2["obj"] = {"s": "F_a"}
            yield dict(case, outs=outs[:i] + [o2] + outs[i + 1:])


def streams(tier):
    th = tier == "thorough"
    return [Stream("searches", gen(5000 if th else 220), check, shrink, timeout=120)]
