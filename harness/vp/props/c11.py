"""C11 - Non-dominated set and Pareto front are exact.

Tie: functional correspondence (value sets) + the extracted Coq oracles ok_nds / ok_ranked applied to the
implementation's actual masks / index lists.
"""
import itertools
import os
import tempfile
import types
from fractions import Fraction

import numpy as np

from ..driver import model
from ..runner import Stream

PROPERTY = "C11"
LEVEL = "proof"
FACTS = None
TRUSTED = [
    "numpy comparison / argsort / boolean indexing; np.ceil on dyadic fraction*n (exact in binary64)",
    "float -> integer transfer: every coordinate is multiplied by one common power of two (order-embedding, exact)",
]
ASSUMPTIONS = ["NaN/inf inputs are rejected by the code (asarray_chkfinite) and are outside the property"]
RULE = ("lattice: every multiset of <=k points on {0..3}^m (exhaustive; quick: k=4 for m<=2, k=3 for m=3; thorough: k=5 for m<=2, k=4 for m=3 plus 150000 sampled 5-point multisets); floats/ranked/column: generated from the seed. "
        "non-trivial = the set has at least one dominated point or one duplicate")

F_NDS, F_OKNDS, F_RANKED, F_OKRANKED, F_REQ, F_FRONTS = 1101, 1102, 1103, 1104, 1105, 1106


def to_int_pts(Y):
    """Exact order-embedding of a float matrix into integers: multiply by the largest denominator (a power of 2)."""
    fr = [[Fraction(float(v)) for v in row] for row in Y]
    den = 1
    for row in fr:
        for f in row:
            den = max(den, f.denominator)
    return [[int(f * den) for f in row] for row in fr]


def nontrivial(P):
    n = len(P)
    if len(set(map(tuple, P))) < n:
        return True
    for i in range(n):
        for j in range(n):
            if i != j and all(a <= b for a, b in zip(P[i], P[j])):
                return True
    return False


def check_nds(case):
    from deephyper.skopt.moo import non_dominated_set, pareto_front

    Y = np.array(case["pts"], dtype=float)
    form = case.get("form", "f64")
    if case.get("oned"):
        Yin = Y[:, 0]
        form = "f64"
    else:
        Yin = Y
        # the same point set handed over in another legal form (only when the values survive the conversion exactly)
        if form == "int" and np.all(Y == np.round(Y)) and np.all(np.abs(Y) < 2.0 ** 62):
            Yin = Y.astype(np.int64)
        elif form == "f32" and np.all(Y.astype(np.float32).astype(float) == Y):
            Yin = Y.astype(np.float32)
        elif form == "fortran":
            Yin = np.asfortranarray(Y)
        elif form == "view":  # every second row / column of a bigger array
            big = np.full((2 * Y.shape[0], 2 * Y.shape[1]), 1e300)
            big[::2, ::2] = Y
            Yin = big[::2, ::2]
        elif form == "list":
            Yin = [[float(v) for v in row] for row in Y]
        else:
            form = "f64"
    P = to_int_pts(Y)
    m = model()
    y0 = [list(r) for r in Yin] if isinstance(Yin, list) else Yin.copy()
    mask = non_dominated_set(Yin, return_mask=True)
    idx = non_dominated_set(Yin, return_mask=False)
    res = dict(ok=True, kind="oracle", clause="", nontrivial=nontrivial(P), desc=["n=%d" % len(P), "m=%d" % len(P[0]), "form=" + form], sig={})
    if (y0 != Yin) if isinstance(Yin, list) else not np.array_equal(y0, Yin):
        return dict(res, ok=False, clause="input_mutated", detail="input array changed")
    mask_l = [bool(b) for b in mask]
    if len(mask_l) != len(P) or not m.call(F_OKNDS, [P, mask_l]):
        return dict(res, ok=False, clause="nds_mask", detail=dict(mask=mask_l))
    idx_l = [int(i) for i in idx]
    mask_from_idx = [i in idx_l for i in range(len(P))]
    if len(set(idx_l)) != len(idx_l) or any(i < 0 or i >= len(P) for i in idx_l) or not m.call(F_OKNDS, [P, mask_from_idx]):
        return dict(res, ok=False, clause="nds_index", detail=dict(idx=idx_l))
    # mask and index forms select the same positions
    if mask_from_idx != mask_l:
        return dict(res, ok=False, clause="mask_index_agree", detail=dict(mask=mask_l, idx=idx_l))
    if not case.get("oned"):
        pf, pidx = pareto_front(Y, sort=bool(case.get("sort")), return_idx=True)
        pmask = [i in [int(k) for k in pidx] for i in range(len(P))]
        if not m.call(F_OKNDS, [P, pmask]) or not np.array_equal(np.asarray(pf), Y[np.asarray(pidx, dtype=int)]):
            return dict(res, ok=False, clause="pareto_front", detail=dict(idx=[int(k) for k in pidx]))
    # correspondence with the model: same set of selected vectors
    mod_sel = sorted(map(tuple, m.call(F_NDS, P)))
    imp_sel = sorted(tuple(P[i]) for i in idx_l)
    if mod_sel != imp_sel:
        return dict(res, ok=False, kind="corr", clause="nds_values", detail=dict(model=mod_sel, impl=imp_sel))
    return res


def check_ranked(case):
    from deephyper.skopt.moo import non_dominated_set_ranked

    Y = np.array(case["pts"], dtype=float)
    P = to_int_pts(Y)
    num, den = case["frac"]
    frac = num / den  # dyadic: exact
    n = len(P)
    m = model()
    res = dict(ok=True, kind="oracle", clause="", nontrivial=nontrivial(P), desc=["n=%d" % n, "frac=%d/%d" % (num, den)], sig={})
    req = m.call(F_REQ, [num, den, n])
    mask = non_dominated_set_ranked(Y, frac, return_mask=True)
    idx = non_dominated_set_ranked(Y, frac, return_mask=False)
    mask_l = [bool(b) for b in mask]
    if len(mask_l) != n or not m.call(F_OKRANKED, [req, P, mask_l]):
        return dict(res, ok=False, clause="ranked_mask", detail=dict(mask=mask_l, req=req))
    if isinstance(idx, np.ndarray) and idx.dtype == bool:
        idx_l = [i for i in range(n) if idx[i]]  # the code returns an all-ones / all-zeros mask in the degenerate cases
    else:
        idx_l = [int(i) for i in idx]
    mi = [i in idx_l for i in range(n)]
    if len(set(idx_l)) != len(idx_l) or not m.call(F_OKRANKED, [req, P, mi]):
        return dict(res, ok=False, clause="ranked_index", detail=dict(idx=idx_l, req=req))
    mod = sorted(map(tuple, m.call(F_RANKED, [req, P])))
    # correspondence: complete fronts agree as value multisets; the truncated last front may differ in which points
    fronts = m.call(F_FRONTS, P)
    full, acc = [], 0
    for fr in fronts:
        if acc + len(fr) <= req:
            full += [tuple(v) for v in fr]
            acc += len(fr)
        else:
            break
    imp = sorted(tuple(P[i]) for i in idx_l)
    from collections import Counter

    if Counter(full) - Counter(imp) or len(imp) != len(mod):
        return dict(res, ok=False, kind="corr", clause="ranked_values", detail=dict(model=mod, impl=imp))
    return res


def check_column(case):
    """pareto_efficient column: Search.extend_results_with_pareto_efficient_indicator on a CSV (maximisation)."""
    import pandas as pd
    from deephyper.hpo._search import Search

    rows = case["rows"]  # list of objective tuples or None (failure)
    k = case["k"]
    with tempfile.TemporaryDirectory(prefix="vp_c11_") as d:
        path = os.path.join(d, "results.csv")
        with open(path, "w") as f:
            f.write(",".join(["p:x"] + ["objective_%d" % i for i in range(k)] + ["job_id"]) + "\n")
            for j, r in enumerate(rows):
                cells = ["F"] * k if r is None else [repr(float(v)) for v in r]
                f.write(",".join([str(j)] + cells + [str(j)]) + "\n")
        stub = types.SimpleNamespace(is_master=True, _path_results=path)
        Search.extend_results_with_pareto_efficient_indicator(stub)
        df = pd.read_csv(path)
    res = dict(ok=True, kind="oracle", clause="", nontrivial=True, desc=["k=%d" % k, "fail=%d" % sum(r is None for r in rows)], sig={})
    if "pareto_efficient" not in df.columns or len(df) != len(rows):
        return dict(res, ok=False, clause="column_missing", detail=list(df.columns))
    col = [bool(b) for b in df["pareto_efficient"]]
    succ = [i for i, r in enumerate(rows) if r is not None]
    if any(col[i] for i in range(len(rows)) if rows[i] is None):
        return dict(res, ok=False, clause="column_failed_row_marked", detail=col)
    if succ:
        P = to_int_pts([[-float(v) for v in rows[i]] for i in succ])
        if not model().call(F_OKNDS, [P, [col[i] for i in succ]]):
            return dict(res, ok=False, clause="column_mask", detail=col)
    return res


def check_search(case):
    """pareto_efficient column of the table RETURNED by (repeated) search() calls on one search object, and of results.csv:
    after every call it must be the non-dominated set of the WHOLE history of successful evaluations."""
    import pandas as pd
    from deephyper.evaluator import Evaluator
    from deephyper.hpo import CBO, HpProblem, RandomSearch

    rows, k, calls = case["rows"], case["k"], case["calls"]
    count = [0]

    async def run(job):
        i = count[0]
        count[0] += 1
        r = rows[i % len(rows)]
        if r is None:
            return "F_scripted"
        return tuple(float(v) for v in r)

    problem = HpProblem()
    problem.add_hyperparameter((0.0, 1.0), "x")
    res = dict(ok=True, kind="oracle", clause="", nontrivial=len(calls) > 1, desc=["k=%d" % k, "calls=%d" % len(calls), "search=" + case["search"]], sig={})
    with tempfile.TemporaryDirectory(prefix="vp_c11s_") as d:
        evaluator = Evaluator.create(run, method="serial", method_kwargs={"num_workers": 1})
        if case["search"] == "random":
            search = RandomSearch(problem, evaluator, random_state=case.get("seed", 1), log_dir=d)
        else:
            search = CBO(problem, evaluator, random_state=case.get("seed", 1), log_dir=d, surrogate_model="DUMMY", verbose=0)
        for ci, n in enumerate(calls):
            df = search.search(max_evals=n)
            disk = pd.read_csv(os.path.join(d, "results.csv"))
            for name, t in (("returned", df), ("disk", disk)):
                t = t.sort_values("job_id").reset_index(drop=True)
                if "pareto_efficient" not in t.columns or len(t) != count[0]:
                    return dict(res, ok=False, clause="search_column_missing", detail=dict(call=ci, table=name, columns=list(t.columns), rows=len(t), evals=count[0]))
                # the table's objectives are the scripted ones (job ids follow submission order with one serial worker)
                exp = [rows[int(j) % len(rows)] for j in t["job_id"]]
                col = [bool(b) if b == b else None for b in t["pareto_efficient"]]
                if any(c is None for c in col):
                    return dict(res, ok=False, clause="search_column_empty_flag", detail=dict(call=ci, table=name, col=col))
                succ = [i for i, r in enumerate(exp) if r is not None]
                for i in succ:
                    got = [float(t["objective_%d" % q][i]) for q in range(k)]
                    if got != [float(v) for v in exp[i]]:
                        return dict(res, ok=False, kind="corr", clause="search_objectives", detail=dict(call=ci, row=i, got=got, exp=exp[i]))
                if any(col[i] for i, r in enumerate(exp) if r is None):
                    return dict(res, ok=False, clause="search_failed_row_marked", detail=dict(call=ci, table=name, col=col))
                if succ:
                    P = to_int_pts([[-float(v) for v in exp[i]] for i in succ])
                    if not model().call(F_OKNDS, [P, [col[i] for i in succ]]):
                        return dict(res, ok=False, clause="search_column_mask", detail=dict(call=ci, table=name, col=col, objectives=exp))
    return res


# ---------------- generators ----------------
def gen_lattice(maxpts):
    def gen(rng, tier):
        if tier == "search":
            maxp = 3
        else:
            maxp = maxpts
        for m in (1, 2, 3):
            grid = list(itertools.product(range(4), repeat=m))
            for n in range(1, maxp + 1):
                if m == 3 and n > 3 and tier != "thorough":
                    continue
                if m == 3 and n > 4:
                    # 10.4 million multisets of 5 points on {0..3}^3: a seed-determined sample (the full enumeration needs tens of
                    # GB in the runner, which materialises the case list); exhaustive up to 4 points
                    for _ in range(150000):
                        pts = [list(rng.choice(grid)) for _ in range(n)]
                        yield dict(pts=pts, oned=False, sort=rng.random() < 0.3)
                    continue
                for combo in itertools.combinations_with_replacement(grid, n):
                    pts = [list(p) for p in combo]
                    if n > 1:
                        rng.shuffle(pts)  # the multiset in a seed-determined order
                    yield dict(pts=pts, oned=(m == 1 and rng.random() < 0.5), sort=rng.random() < 0.3)
    return gen


def rand_pts(rng, n, m, kind):
    if kind == "float":
        return [[rng.uniform(-5, 5) for _ in range(m)] for _ in range(n)]
    if kind == "grid":  # many ties
        return [[rng.randint(-3, 3) / 4 for _ in range(m)] for _ in range(n)]
    if kind == "equal_sum":  # points on a hyperplane: all sums equal -> the sort is uninformative
        pts = []
        for _ in range(n):
            v = [rng.randint(-8, 8) / 8 for _ in range(m - 1)] if m > 1 else []
            pts.append(v + [1.0 - sum(v)] if m > 1 else [1.0])
        return pts
    if kind == "dups":
        base = [[rng.randint(0, 3) / 2 for _ in range(m)] for _ in range(max(1, n // 3))]
        return [list(rng.choice(base)) for _ in range(n)]
    if kind == "chain":  # totally ordered by dominance
        return [[float(i) + (0.0 if rng.random() < 0.5 else 0.5)] * m for i in rng.sample(range(n), n)]
    if kind == "absorb":
        # one coordinate so large that the float row sums of different points round to the same value:
        # the order given by the sum sort is then arbitrary with respect to dominance
        big = float(2 ** rng.choice([53, 55, 60])) * rng.choice([1, 3])
        col = rng.randrange(m)
        pts = []
        for _ in range(n):
            v = [rng.randint(-8, 8) / 8 for _ in range(m)]
            v[col] = big if rng.random() < 0.8 else big * 2
            pts.append(v)
        return pts
    if kind == "near_equal_sum":
        # dominated / dominating pairs whose sums differ by less than one ulp of the sum (0.1 + 0.2 vs 0.3)
        pts = []
        for _ in range(n):
            a = rng.choice([0.1, 0.2, 0.3, 0.7])
            b = rng.choice([0.1, 0.2, 0.3])
            v = [rng.choice([a + b, round(a + b, 10)])] + [rng.choice([0.5, 0.25]) for _ in range(m - 1)]
            pts.append(v)
        return pts
    if kind == "ints":  # integer-valued objectives, small (many ties) or around a huge offset
        off = rng.choice([0, 0, 2 ** 40, -(2 ** 52)])
        return [[float(off + rng.randint(-3, 3)) for _ in range(m)] for _ in range(n)]
    if kind == "near_tie":
        # values of large magnitude that differ by tiny RELATIVE margins (down to one ulp): every strict difference counts
        base = [float(rng.choice([1.0, 1e5, 3.0 * 2 ** 17, 1e9, -1e5])) for _ in range(m)]
        pts = []
        for _ in range(n):
            v = []
            for j in range(m):
                b = base[j]
                c = rng.random()
                if c < 0.4:
                    v.append(b)
                elif c < 0.7:
                    v.append(b * (1 + rng.choice([-1, 1]) * 10.0 ** -rng.randint(6, 14)))
                elif c < 0.85:
                    v.append(float(np.nextafter(b, rng.choice([-np.inf, np.inf]))))
                else:
                    v.append(b + rng.choice([-1, 1]) * abs(b) * 0.25)
            pts.append(v)
        return pts
    raise ValueError(kind)


FORMS = ["f64", "int", "list", "f32", "fortran", "view", "f64"]
KINDS = ["float", "grid", "equal_sum", "dups", "chain", "absorb", "near_equal_sum", "near_tie", "ints"]


def gen_floats(count):
    def gen(rng, tier):
        k = count if tier != "search" else count * 4
        for i in range(k):
            n = rng.choice([1, 2, 3, 5, 8, 13, 30, 80, 200]) if tier != "search" else rng.randint(1, 12)
            m = rng.randint(1, 6)
            pts = rand_pts(rng, n, m, KINDS[i % len(KINDS)])
            yield dict(pts=pts, oned=False, sort=rng.random() < 0.3, form="int" if KINDS[i % len(KINDS)] == "ints" and i % 2 else FORMS[(i // len(KINDS)) % len(FORMS)])
            if i % 7 == 0 and n > 1:  # a permutation of the same set
                q = pts[:]
                rng.shuffle(q)
                yield dict(pts=q, oned=False, sort=False)
    return gen


def gen_ranked(count, lattice_n):
    def gen(rng, tier):
        dens = [1, 2, 4, 8, 16]
        # exhaustive small lattice part
        grid = list(itertools.product(range(3), repeat=2))
        for n in range(1, lattice_n + 1):
            for combo in itertools.combinations_with_replacement(grid, n):
                pts = [list(p) for p in combo]
                rng.shuffle(pts)
                den = rng.choice(dens)
                yield dict(pts=pts, frac=[rng.randint(0, den + 1), den])
        for i in range(count):
            n = rng.choice([1, 2, 3, 5, 8, 13, 30, 60])
            m = rng.randint(1, 4)
            den = rng.choice(dens)
            yield dict(pts=rand_pts(rng, n, m, KINDS[i % len(KINDS)]), frac=[rng.randint(0, den + 2), den])
    return gen


def gen_column(count):
    def gen(rng, tier):
        for i in range(count):
            k = rng.randint(2, 3)
            n = rng.randint(1, 12)
            pf = rng.choice([0.0, 0.2, 0.6, 1.0]) if i % 10 else 1.0
            rows = []
            for _ in range(n):
                if rng.random() < pf:
                    rows.append(None)
                else:
                    rows.append([rng.randint(-4, 4) / 2 for _ in range(k)])
            yield dict(rows=rows, k=k)
    return gen


def gen_search(count):
    def gen(rng, tier):
        # the shortest history in which a later call dominates a point an earlier call flagged
        yield dict(rows=[[1, 1], [2, 2]], k=2, calls=[1, 1], search="random")
        yield dict(rows=[[1, 3], [3, 1], [3, 3], [0, 0]], k=2, calls=[2, 1, 1], search="random")
        for i in range(count):
            k = rng.randint(2, 3)
            calls = [rng.randint(1, 4) for _ in range(rng.randint(1, 4))]
            n = sum(calls) + 2
            pf = rng.choice([0.0, 0.0, 0.2, 0.5])
            rows = [None if rng.random() < pf else [rng.randint(-4, 4) / 2 for _ in range(k)] for _ in range(n)]
            if rows[0] is None:  # a first call with failures only is C04/C06's subject (the objective columns are not known yet)
                rows[0] = [0.0] * k
            if i % 3 == 0:  # improving sequence: later evaluations dominate earlier ones
                rows = [None if r is None else [j / 2.0 + v / 8 for v in r] for j, r in enumerate(rows)]
            yield dict(rows=rows, k=k, calls=calls, search="random" if i % 4 else "cbo", seed=rng.randint(0, 999))
    return gen


def shrink_search(case):
    calls = case["calls"]
    for i in range(len(calls)):
        if len(calls) > 1:
            yield dict(case, calls=calls[:i] + calls[i + 1:])
        if calls[i] > 1:
            yield dict(case, calls=calls[:i] + [calls[i] - 1] + calls[i + 1:])
    if case["search"] != "random":
        yield dict(case, search="random")


def shrink_pts(case):
    pts = case["pts"]
    for i in range(len(pts)):
        if len(pts) > 1:
            yield dict(case, pts=pts[:i] + pts[i + 1:])
    if len(pts[0]) > 1:
        for j in range(len(pts[0])):
            yield dict(case, pts=[p[:j] + p[j + 1:] for p in pts], oned=False)
    for i in range(len(pts)):
        for j in range(len(pts[i])):
            v = pts[i][j]
            for w in (0.0, float(round(v))):
                if w != v:
                    q = [list(p) for p in pts]
                    q[i][j] = w
                    yield dict(case, pts=q)


def shrink_rows(case):
    rows = case["rows"]
    for i in range(len(rows)):
        if len(rows) > 1:
            yield dict(case, rows=rows[:i] + rows[i + 1:])


def streams(tier):
    th = tier == "thorough"
    return [
        Stream("nds_lattice", gen_lattice(5 if th else 4), check_nds, shrink_pts, timeout=30),
        Stream("nds_floats", gen_floats(5000 if th else 500), check_nds, shrink_pts, timeout=60),
        Stream("ranked", gen_ranked(3000 if th else 400, 4 if th else 3), check_ranked, shrink_pts, timeout=60),
        Stream("pareto_column", gen_column(600 if th else 80), check_column, shrink_rows, timeout=60),
        Stream("search_column", gen_search(300 if th else 40), check_search, shrink_search, timeout=120),
    ]
