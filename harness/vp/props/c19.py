"""C19 - Ensemble aggregators implement weighted mixtures consistently.

Tie: functional correspondence, cell by cell, between deephyper.ensemble.aggregator.{Mean,MixedNormal,MixedCategorical,Mode}Aggregator
and the extracted Coq model (coq/theories/C19_Aggregators/Model.v) on exact rationals:
  * dyadic inputs whose total AND remaining (unmasked) weight sums are powers of two -> EXACT equality of every statistic that
    involves neither sqrt nor log (loc, class probabilities, confidence total/aleatoric/epistemic, mode uncertainty);
  * everything else -> |impl - model| <= 1e-9 * (1 + magnitude of the terms that cancel).
sqrt is never compared: the returned standard deviations are squared and compared with the model's variances.
log is an oracle: the model receives the values log(p + eps) computed by numpy next to every probability.
The PROPERTY clauses are decided on the implementation's outputs by the extracted checkers of Check.v (ok_close, ok_between,
ok_variance_split, ok_distribution, ok_conf_range, ok_decomp, ok_mode); the harness only prepares their arguments.  In every
case the oracles run first (direct clauses, then the metamorphic pairs), the correspondence with the model last, so that a
property failure is reported as such (kind=oracle) and not shadowed by a correspondence break.
Failures that follow the Coq models of the pre-fix behaviour (mn_epi_today, counts_today, counts_mid) carry that fact in their
signature (today=..., today_normalised=..., today_masked_vote=...): this is what known_findings.json matches on.
"""
from fractions import Fraction

import numpy as np

from ..driver import model
from ..runner import Stream

PROPERTY = "C19"
LEVEL = "proof"
FACTS = None
COQ_DIRS = ()
TRUSTED = [
    "numpy / numpy.ma: stack, average, mean, max, argmax (first index of the maximum), maximum, sum, boolean masks; binary64 rounding inside them (1e-9 relative to the cancelled terms)",
    "np.sqrt: never compared - the returned scales are squared (exact rational of the float, squared) and compared with the model's variances",
    "np.log: oracle - the model is given numpy's values of log(p + eps) for every member probability and for the aggregated probabilities (entropy clauses); the Coq statements about entropy are for EVERY function lg with the stated hypotheses",
    "float -> exact rational: fractions.Fraction(float); model inputs are integers on one power-of-two scale per case (C19_scale_* lemmas: the statistics are homogeneous)",
]
ASSUMPTIONS = [
    "weights are >= 0 with a positive sum over the unmasked members of every cell (all-zero weights raise ZeroDivisionError in np.average: recorded by the malformed stream, outside the property)",
    "categorical / mode predictions are masked row-wise (a member's whole class vector for a sample), as OnlineSelector builds them",
    "a normal member whose loc or scale is masked at a cell counts as masked there (union of the two masks; F80 until repaired)",
    "a plain ndarray member, a MaskedArray with mask=nomask and one with an all-False mask all mean: nothing masked",
    "finite float inputs at the unmasked positions (no NaN / inf); under a mask anything may be stored (nan, +-inf, 1e308: exercised)",
    "a cell whose unmasked members all have weight 0 has no value: every output must be masked there (NaN accepted for 0-d results, a numpy.ma quirk); it takes no part in the numeric comparisons",
]
RULE = ("per aggregator: members 1..8, sample shapes 0-d..3-d, weights None/uniform/normalised/unnormalised/with zeros/dyadic, plain and masked, dyadic and "
        "general floats (plus 'members agree, scale ~ 0' for MixedNormal), from the seed; every case runs every option of the aggregator plus the metamorphic "
        "variants (None vs uniform weights, a permutation of members with weights, 7 kinds of data under the mask - finite, nan, +inf, -inf, 1e308, mixed, np.ma.masked_invalid - with tolerance 0, a fully masked member removed, zero-weight members "
        "removed, one member split into two with 1/4 and 3/4 of its weight). Hand-over dimensions: members as MaskedArray / plain ndarray / nomask / all-False mask mixed in one call, "
        "loc and scale with different masks, float64 / float32 / int64 (also > 2^31.5) members, weights as list / tuple / ndarray / python ints / int64 array, weights huge (2^300, 1e100), "
        "tiny, 200 orders of magnitude apart, 1 ulp from uniform; 5 of 7 cases give every aggregator object a history before the judged call: one call on other inputs (other shape, "
        "masked <-> plain), or 3-5 calls whose arrays are deleted before the next ones are created with the same shapes (CPython reuses the ids), or 3-5 calls on the SAME array "
        "objects refilled in place (data and mask) - each history call must answer bit-identically to a fresh object; every call is "
        "followed by: inputs and weights unchanged, then the caller edits inputs and weights in place and the outputs must not move. "
        "non-trivial = at least 2 members and (non-uniform weights or a mask)")

F_MEAN, F_MN, F_CONF, F_ENT, F_MODE, F_MODE_TODAY = 1901, 1902, 1903, 1904, 1905, 1906
F_CLOSE, F_BETWEEN, F_VSPLIT, F_DISTR, F_CONFR, F_DECOMP, F_OKMODE, F_MN2_TODAY, F_ALE_INT64 = 1907, 1908, 1909, 1910, 1911, 1912, 1913, 1914, 1915
RTOL = Fraction(1, 10 ** 9)
RTOL32 = Fraction(1, 10 ** 5) / 2  # float32 members: numpy reduces them in float32 (eps 1.2e-7)


def rt(case):
    return RTOL32 if case.get("dtype") == "f32" else RTOL
NAN = "nan"
SKIP = "undefined"  # a cell whose unmasked members all have weight 0: outside the property (numpy.ma answers masked, or NaN for 0-d)


# ----------------------------------------------------------------------------------------------- exact numbers
def fr(x):
    return Fraction(float(x))


def qp(f):
    f = Fraction(f)
    return [f.numerator, f.denominator]


def common_scale(fracs):
    s = 1
    for f in fracs:
        d = f.denominator
        if s % d:
            s = s * d // _gcd(s, d)
    return s


def _gcd(a, b):
    while b:
        a, b = b, a % b
    return a


def is_pow2(f):
    f = Fraction(f)
    if f <= 0:
        return False
    n, d = f.numerator, f.denominator
    return n & (n - 1) == 0 and d & (d - 1) == 0


def small_dyadic(f, bits=12):
    """m * 2^k with |m| < 2^bits: products with small dyadic data and sums of a few of them are exact in binary64."""
    f = Fraction(f)
    n, d = abs(f.numerator), f.denominator
    if d & (d - 1):
        return False
    while n and n % 2 == 0:
        n //= 2
    return n < 2 ** bits


def dec_q(d):
    return Fraction(d[0], d[1])


def dec_opt(d):
    return None if not d else dec_q(d[0])


# ----------------------------------------------------------------------------------------------- case -> arrays
def ncells(shape):
    n = 1
    for s in shape:
        n *= s
    return n


def weights_of(case):
    return None if case["weights"] is None else [float(w) for w in case["weights"]]


def weights_arg(case):
    """The weights as the caller passes them: list (default), tuple, float64 / float32 / int64 ndarray, list of python ints."""
    ws = weights_of(case)
    if ws is None:
        return None
    t = case.get("wtype") or "list"
    if t in ("int_list", "int_array") and any(w != int(w) for w in ws):
        t = "list"
    if t == "tuple":
        return tuple(ws)
    if t == "ndarray":
        return np.array(ws, dtype=np.float64)
    if t == "int_list":
        return [int(w) for w in ws]
    if t == "int_array":
        return np.array([int(w) for w in ws], dtype=np.int64)
    return list(ws)


def wkind_of(ws):
    if ws is None:
        return "none"
    f = [fr(w) for w in ws]
    k = "uniform" if len(set(f)) == 1 else ("normalised" if abs(sum(f) - 1) < Fraction(1, 10 ** 12) else "unnormalised")
    if any(w == 0 for w in f):
        k += "+zeros"
    return k


# what may be stored UNDER a mask: it must never reach an output (np.ma.masked_invalid leaves nan / inf there;
# NaN-filled buffers for the samples a member did not predict; overflowed values)
JUNKS = ("finite", "nan", "+inf", "-inf", "huge", "mixed", "masked_invalid")
_JUNK_VALUES = {"nan": [np.nan], "+inf": [np.inf], "-inf": [-np.inf], "huge": [1e308, -1e308],
                "mixed": [np.nan, np.inf, 1e308, -np.inf, -1e308, 0.0, np.nan, -1.7976931348623157e308]}


def hide(data, mk, junk, i, finite):
    """data with the entries under the mask mk replaced according to the junk mode (deterministic in the position)."""
    if junk is None:
        return data
    if junk == "finite":
        return np.where(mk, finite(data), data)
    vals = _JUNK_VALUES["nan" if junk == "masked_invalid" else junk]
    if junk == "masked_invalid":
        vals = [np.nan, np.inf, np.nan, -np.inf]
    idx = (np.arange(data.size).reshape(data.shape) * 3 + i * 5) % len(vals)
    return np.where(mk, np.array(vals, dtype=float)[idx], data.astype(float))


def masked(data, mk, junk):
    if junk == "masked_invalid":
        a = np.ma.masked_invalid(data)  # the mask is derived from the nan / inf entries: exactly mk
        assert np.array_equal(np.ma.getmaskarray(a), mk)
        return a
    return np.ma.array(data, mask=mk)


def own_mask(case, key):
    """The mask carried by the arrays of this key (loc and scale of normal members may carry different ones; case['mask'] is their union)."""
    if key == "vals" and case.get("mask_loc") is not None:
        return case["mask_loc"]
    if key == "vals2" and case.get("mask_scale") is not None:
        return case["mask_scale"]
    return case["mask"]


def wrap(case, key, i, data, mk, junk, finite):
    """Member i as the caller passes it: 'ma' MaskedArray with its mask, 'plain' ndarray, 'nomask' MaskedArray without mask,
    'allfalse' MaskedArray with an all-False mask.  A member with something masked is always 'ma'."""
    kinds = case.get("kinds2" if key == "vals2" else "kinds")
    if case.get("dtype") == "f32":
        data = data.astype(np.float32)
    kind = "ma" if (mk is not None and mk.any()) else (kinds[i] if kinds else ("ma" if mk is not None else "plain"))
    if kind == "plain" or (kind == "ma" and mk is None):
        return data
    if kind == "nomask":
        return np.ma.array(data)
    if kind == "allfalse":
        return np.ma.array(data, mask=np.zeros(data.shape, dtype=bool))
    if junk:
        with np.errstate(all="ignore"):
            data = hide(data, mk, junk, i, finite).astype(data.dtype)  # 1e308 -> inf in float32
    return masked(data, mk, junk)


def scalar_arrays(case, key="vals", junk=None):
    """Member arrays of shape case['shape']; junk: what is stored under the mask (see JUNKS)."""
    shape = tuple(case["shape"])
    mask = own_mask(case, key)
    out = []
    for i in range(case["n"]):
        data = np.array(case[key][i], dtype=float).reshape(shape)
        if case.get("int_dtype"):
            data = data.astype(np.int64)
        mk = None if mask is None else np.array(mask[i], dtype=bool).reshape(shape)
        out.append(wrap(case, key, i, data, mk, junk, lambda d: d * 3 + 17))
    return out


def row_arrays(case, junk=None):
    """Member arrays of shape sample-shape + (K,), masked row-wise."""
    shape = tuple(case["shape"])
    K = case["K"]
    out = []
    for i in range(case["n"]):
        data = np.array(case["vals"][i], dtype=float).reshape(shape + (K,))
        mk = None
        if case["mask"] is not None:
            mk = np.array(case["mask"][i], dtype=bool).reshape(shape)
            mk = np.broadcast_to(mk[..., None], shape + (K,)).copy()
        out.append(wrap(case, "vals", i, data, mk, junk, lambda d: 1.0 - d))
    return out


# ---- one aggregator object reused, inputs not mutated, outputs not aliasing the inputs
def decoy(arrays, rows):
    """Other inputs for a warm-up call on the same aggregator object: other shape, masked <-> plain, at most 2 members."""
    was_masked = any(isinstance(a, np.ma.MaskedArray) for a in arrays)
    out = []
    for a in arrays[:2]:
        d = np.array(np.ma.getdata(a), dtype=float)
        d = d.reshape((-1, d.shape[-1])) if rows else d.reshape(-1)
        d = np.concatenate([d, d], axis=0)
        if was_masked:
            out.append(d)
        else:
            mk = np.zeros(d.shape, dtype=bool)
            mk[0] = True
            out.append(np.ma.array(d, mask=mk))
    return out


def snapshot(arrays, ws):
    return ([(np.array(np.ma.getdata(a), copy=True), np.array(np.ma.getmaskarray(a), copy=True), type(a), a.dtype) for a in arrays],
            None if ws is None else (type(ws), [float(w) for w in ws]))


def scribble(arrays, ws):
    """The caller edits what it passed in, after the call."""
    for a in arrays:
        d = np.ma.getdata(a)
        with np.errstate(all="ignore"):
            d[...] = d * 2 + 1
        if isinstance(a, np.ma.MaskedArray) and a.mask is not np.ma.nomask:
            mk = np.ma.getmaskarray(a)
            mk[...] = ~mk
    if isinstance(ws, (list, np.ndarray)) and len(ws):
        ws[0] = ws[0] + 1


def observed(case, name, arrays, runs, extract):
    """Runs the aggregators (runs(ws) -> raw results) and returns extract(raw); around it: the inputs are not mutated
    by the call, and the outputs do not follow a later edit of the inputs (no shared memory)."""
    ws = weights_arg(case)
    snap = snapshot(arrays, ws)
    raw = runs(ws)
    now = snapshot(arrays, ws)
    for k, (a, b) in enumerate(zip(snap[0], now[0])):
        if not (np.array_equal(a[0], b[0], equal_nan=True) and np.array_equal(a[1], b[1]) and a[2] is b[2] and a[3] == b[3]):
            raise Fail("oracle", name + ":input_mutated", dict(member_array=k))
    if snap[1] != now[1]:
        raise Fail("oracle", name + ":weights_mutated", dict(before=str(snap[1]), after=str(now[1])))
    out = extract(raw)
    scribble(arrays, ws)
    if extract(raw) != out:
        raise Fail("oracle", name + ":output_aliases_input", "the returned arrays changed when the caller edited its inputs after the call")
    return out


def variant_case(case, j):
    """Same shapes, dtypes, container kinds - other contents (history call number j on one aggregator object)."""
    c = dict(case)
    n = case["n"]
    if "K" in case:
        c["vals"] = [[row[-((j + 1) % max(len(row), 1)):] + row[:-((j + 1) % max(len(row), 1))] if len(row) > 1 and (j + 1) % len(row) else
                      list(reversed(row)) for row in mem] for mem in case["vals"]]
        c["vals"] = c["vals"][(j + 1) % n:] + c["vals"][:(j + 1) % n]
    else:
        c["vals"] = [[float(j + i) - v for v in row] for i, row in enumerate(case["vals"])]
        if "vals2" in case:
            c["vals2"] = [[v + (j + 1) * (1.0 if case.get("int_dtype") else 0.25) for v in row] for row in case["vals2"]]
    for k in ("mask", "mask_loc", "mask_scale"):
        if case.get(k) is not None:
            c[k] = case[k][(j + 1) % n:] + case[k][:(j + 1) % n]
    return c


def same_result(a, b):
    """Bit-identical results (arrays or dicts of arrays): masks equal, data equal where not masked."""
    if isinstance(a, dict) or isinstance(b, dict):
        return isinstance(a, dict) and isinstance(b, dict) and set(a) == set(b) and all(same_result(a[k], b[k]) for k in a)
    ma, mb = np.ma.getmaskarray(a), np.ma.getmaskarray(b)
    if ma.shape != mb.shape or not np.array_equal(ma, mb):
        return False
    da, db = np.where(ma, 0, np.ma.getdata(a)), np.where(mb, 0, np.ma.getdata(b))
    return np.array_equal(da, db, equal_nan=True)


def refill(arrays, new):
    """The caller reuses its prediction buffers: same ndarray / MaskedArray objects, new data and new mask, in place."""
    for a, b in zip(arrays, new):
        d = np.ma.getdata(a)
        with np.errstate(all="ignore"):
            d[...] = np.ma.getdata(b)
        if isinstance(a, np.ma.MaskedArray) and np.ma.getmask(a) is not np.ma.nomask:
            np.ma.getmaskarray(a)[...] = np.ma.getmaskarray(b)


ID_REUSE = dict(calls=0, reused=0)  # how often CPython really handed the ids of freed arrays to the next call (per worker)


def warm(case, fresh, arrays, build, name):
    """Pattern 'one object, several calls'.  fresh() makes a new aggregator with the options under test; the returned object
    has a history of earlier calls, none of which may leave anything behind:
      'decoy' : one call on other inputs (other shape, masked <-> plain);
      'ids'   : 3-5 calls, the arrays of each call are deleted before those of the next call are created with the
                same shapes and types - CPython hands out the same ids again;
      'refill': 3-5 calls on the SAME ndarray / MaskedArray objects that the real call will use, refilled in place (data and
                mask) between the calls, and refilled with the real contents at the end.
    Every history call is judged against the same call on a fresh object (bit-identical); the real call that follows is
    judged by all oracles and the correspondence."""
    agg = fresh()
    mode = case.get("reuse")
    if not mode:
        return agg
    if mode is True or mode == "decoy":
        d = decoy(arrays[:case["n"]], "K" in case)
        y = [dict(loc=a, scale=np.abs(a)) for a in d] if case["agg"] == "mn" else d
        call_impl(None, "warm-up call on the same object", lambda: agg.aggregate(y))
        return agg
    k = 3 + (len(case["vals"][0]) + case["n"]) % 3
    real = [(np.array(np.ma.getdata(a), copy=True), np.array(np.ma.getmaskarray(a), copy=True)) for a in arrays]
    prev_ids = set()
    for j in range(k):
        vc = variant_case(case, j)
        ws = None if j % 2 else weights_arg(vc)
        if mode == "ids":
            arrs, y = build(vc)
            ID_REUSE["calls"] += 1
            ID_REUSE["reused"] += bool(prev_ids & {id(a) for a in arrs})
            prev_ids = {id(a) for a in arrs}
        else:
            arrs, y = arrays, build(vc, into=arrays)
        shared = call_impl(None, "history call %d (%s) on the same object" % (j, mode), lambda: run(agg, y, ws))
        alone = call_impl(None, "history call %d (%s) on a fresh object" % (j, mode), lambda: run(fresh(), y, ws))
        if not same_result(shared, alone):
            raise Fail("oracle", "%s:object_reuse:%s" % (name, mode), dict(call=j, of=k, what="an aggregator object that has been used before answers differently from a fresh one on the same inputs"))
        del arrs, y, shared, alone  # reference counting frees the arrays here (no cycles); gc.collect() would cost ~50 ms per call
    if mode == "refill":
        for a, (d, m) in zip(arrays, real):
            np.ma.getdata(a)[...] = d
            if isinstance(a, np.ma.MaskedArray) and np.ma.getmask(a) is not np.ma.nomask:
                np.ma.getmaskarray(a)[...] = m
    return agg


def cells_of(arr, n):
    """Flattened output cells: Fraction, None (masked) or NAN."""
    data = np.asarray(np.ma.getdata(arr), dtype=float).ravel()
    mask = np.ma.getmaskarray(arr).ravel() if isinstance(arr, np.ma.MaskedArray) else np.zeros(data.shape, dtype=bool)
    if data.shape[0] != n:
        raise ValueError("output has %d cells, expected %d" % (data.shape[0], n))
    out = []
    for v, mk in zip(data, mask):
        if mk:
            out.append(None)
        elif not np.isfinite(v):
            out.append(NAN)
        else:
            out.append(Fraction(float(v)))
    return out


def sq(cells):
    return [c * c if isinstance(c, Fraction) else c for c in cells]


def masked_at(case, i, c):
    return case["mask"] is not None and bool(case["mask"][i][c])


def member_weights(case):
    ws = weights_of(case)
    return [Fraction(1)] * case["n"] if ws is None else [fr(w) for w in ws]


def remaining_weight(case, c):
    w = member_weights(case)
    return sum((w[i] for i in range(case["n"]) if not masked_at(case, i, c)), Fraction(0))


def undefined_cells(case):
    out = []
    for c in range(ncells(case["shape"])):
        some = any(not masked_at(case, i, c) for i in range(case["n"]))
        out.append(some and remaining_weight(case, c) == 0)
    return out


def mark_undefined(case, stats, per_cell=1, wide=()):
    """Cells where every UNMASKED member has weight 0 (zero weights together with masks): no weighted member predicts the
    cell, so - a zero-weight member being the same as an absent one (C19_zero_weight_ignored_member_split, C19_masked_ignored:
    [defined] agrees) - NO output may carry a value there: every statistic must be masked (numpy.ma answers NaN instead for
    0-d results; accepted as 'no value').  A finite value is a property failure.  Afterwards the cells are SKIPped in the
    numeric comparisons (stats in `wide` have per_cell entries per cell)."""
    und = undefined_cells(case)
    if not any(und):
        return stats
    for k, v in stats.items():
        if not isinstance(v, list):
            continue
        w = per_cell if k in wide else 1
        for j, x in enumerate(v):
            if und[j // w] and isinstance(x, Fraction):
                raise Fail("oracle", "%s:value_where_only_zero_weight_members_are_unmasked:%s" % (case["agg"], k),
                           dict(cell=j // w, value=float(x), weights=case["weights"], unmasked=[i for i in range(case["n"]) if not masked_at(case, i, j // w)]))
        stats[k] = [SKIP if und[j // w] else x for j, x in enumerate(v)]
    return stats


def enc_weights(case):
    ws = weights_of(case)
    if ws is None:
        return []
    f = [fr(w) for w in ws]
    s = common_scale(f)
    ints = [int(x * s) for x in f]
    g = 0
    for x in ints:
        g = _gcd(g, x)
    return [[x // (g or 1) for x in ints]]  # any common factor may be dropped: C19_weights_rescaled


# ----------------------------------------------------------------------------------------------- comparison
class Fail(Exception):
    def __init__(self, kind, clause, detail=None, extra=None):
        super().__init__(clause)
        self.kind, self.clause, self.detail, self.extra = kind, clause, detail, extra or {}


def compare(name, impl, mod, tols, exact, kind="corr"):
    """impl / mod: lists of Fraction | None | NAN; tols: per-cell tolerance; exact: per-cell bool."""
    for c, (a, b) in enumerate(zip(impl, mod)):
        if a == SKIP or b == SKIP:
            continue
        if a is None or b is None:
            if (a is None) != (b is None):
                raise Fail(kind, name + ":mask", dict(cell=c, impl=str(a), model=str(b)))
            continue
        if a == NAN:
            raise Fail("oracle", name + ":nan", dict(cell=c, model=str(b)))
        if exact[c]:
            if a != b:
                raise Fail(kind, name + ":exact", dict(cell=c, impl=str(a), model=str(b), diff=float(a - b)))
        elif abs(a - b) > tols[c]:
            raise Fail(kind, name, dict(cell=c, impl=float(a), model=float(b), diff=float(a - b), tol=float(tols[c])))


def close_cells(name, a_cells, b_cells, tols, m):
    """Metamorphic equality decided by the extracted ok_close."""
    items, idx = [], []
    for c, (a, b) in enumerate(zip(a_cells, b_cells)):
        if a == SKIP or b == SKIP:
            continue
        if a is None or b is None:
            if (a is None) != (b is None):
                raise Fail("oracle", name + ":mask", dict(cell=c, a=str(a), b=str(b)))
            continue
        if a == NAN or b == NAN:
            if a != b:
                raise Fail("oracle", name + ":nan", dict(cell=c))
            continue
        items.append((tols[c], a, b))
        idx.append(c)
    # group by tolerance (one driver call per distinct tolerance)
    by_tol = {}
    for (t, a, b), c in zip(items, idx):
        by_tol.setdefault(t, []).append((c, a, b))
    for t, lst in by_tol.items():
        res = m.call(F_CLOSE, [qp(t), [[qp(a), qp(b)] for _, a, b in lst]])
        for ok, (c, a, b) in zip(res, lst):
            if not ok:
                raise Fail("oracle", name, dict(cell=c, a=float(a), b=float(b), diff=float(a - b), tol=float(t)))


def run(agg, y, weights):
    return agg.aggregate(y, weights=weights) if weights is not None else agg.aggregate(y)


MEMBER_KEYS = ("vals", "vals2", "mask", "mask_loc", "mask_scale", "kinds", "kinds2")


def permuted(case):
    p = case.get("perm")
    if not p or p == list(range(case["n"])):
        return None
    c = dict(case)
    for k in MEMBER_KEYS + ("weights",):
        if case.get(k) is not None:
            c[k] = [case[k][i] for i in p]
    return c


def fully_masked_member(case):
    """Index of a member that is masked in every cell (while another one is not), or None."""
    if case["mask"] is None or case["n"] < 2:
        return None
    for i in range(case["n"]):
        if all(case["mask"][i]):
            return i
    return None


def without_member(case, i):
    c = dict(case)
    c["n"] = case["n"] - 1
    for k in MEMBER_KEYS + ("weights",):
        if case.get(k) is not None:
            c[k] = case[k][:i] + case[k][i + 1:]
    c["perm"] = None
    c["split"] = None
    return c


def without_zero_weight_members(case):
    ws = weights_of(case)
    if ws is None or all(w != 0 for w in ws):
        return None
    c = case
    for i in reversed([i for i, w in enumerate(ws) if w == 0]):
        c = without_member(c, i)
    return c


def zero_weight_members_masked(case):
    """The zero-weight members masked everywhere instead of removed (data AND mask of every output must agree)."""
    ws = weights_of(case)
    if ws is None or all(w != 0 for w in ws) or case.get("int_dtype") or partial_masks(case):
        return None
    cells = ncells(case["shape"])
    c = dict(case)
    base = case["mask"] if case["mask"] is not None else [[False] * cells for _ in range(case["n"])]
    c["mask"] = [[True] * cells if ws[i] == 0 else list(base[i]) for i in range(case["n"])]
    c["mask_loc"] = c["mask_scale"] = None
    return c


def split_member(case):
    """Member j (case['split']) twice, with 1/4 and 3/4 of its weight (exact in binary64)."""
    j = case.get("split")
    if j is None or j >= case["n"]:
        return None
    ws = weights_of(case) or [1.0] * case["n"]
    c = dict(case)
    c["n"] = case["n"] + 1
    for k in MEMBER_KEYS:
        if case.get(k) is not None:
            c[k] = case[k][:j + 1] + [case[k][j]] + case[k][j + 1:]
    c["weights"] = ws[:j] + [ws[j] * 0.25, ws[j] * 0.75] + ws[j + 1:]
    c["perm"] = None
    c["split"] = None
    return c


def uniform_partner(case):
    """weights None <-> uniform weights: the other member of the pair, or None."""
    k = wkind_of(weights_of(case))
    if k == "none":
        c = dict(case)
        c["weights"] = [case.get("uniform_c", 1.0)] * case["n"]
        return c
    if k == "uniform":
        c = dict(case)
        c["weights"] = None
        return c
    return None


def base_result(case, extra_desc=()):
    ws = weights_of(case)
    k = wkind_of(ws)
    nt = case["n"] >= 2 and (case["mask"] is not None or k.split("+")[0] in ("normalised", "unnormalised") or "zeros" in k)
    nex = sum(exact_cells(case)) if case["agg"] != "malformed" else 0
    extra_desc = list(extra_desc) + ["exact_cells=%s" % ("0" if nex == 0 else "some"), "wtype=%s" % (case.get("wtype") or "list"), "dtype=%s" % (case.get("dtype") or ("int64" if case.get("int_dtype") else "f64")),
                                     "reuse=%s" % (case.get("reuse") or "fresh"), "only_zero_weight_unmasked_cells=%s" % ("some" if case["agg"] != "malformed" and any(undefined_cells(case)) else "0"), "members=%s" % ("uniform-kind" if not case.get("kinds") else "mixed-kinds"), "partial_masks=%s" % partial_masks(case)]
    return dict(ok=True, kind="oracle", clause="", nontrivial=nt,
                sig=dict(agg=case["agg"], masked=case["mask"] is not None),
                desc=["n=%d" % case["n"], "w=" + k, "masked=%s" % (case["mask"] is not None), "dims=%d" % len(case["shape"]),
                      "num=" + case.get("num", "float")] + list(extra_desc))


def failed(res, f):
    sig = dict(res["sig"])
    sig.update(f.extra)
    return dict(res, ok=False, kind=f.kind, clause=f.clause, detail=f.detail, sig=sig)


def guarded(check):
    """An exception raised by the implementation is reported with the aggregator and option that raised it."""
    def wrapped(case):
        res = base_result(case)
        try:
            check(case, res)
        except Fail as f:
            return failed(res, f)
        return res
    wrapped.__name__ = check.__name__
    return wrapped


def call_impl(zero_d, label, f):
    try:
        with np.errstate(all="ignore"):
            return f()
    except Fail:
        raise
    except ZeroDivisionError:
        raise
    except Exception as e:  # the aggregator raised on a well-formed input
        import traceback
        raise Fail("oracle", "exception:" + type(e).__name__, traceback.format_exc()[-1500:], dict(option=label, exc=type(e).__name__, zero_d=zero_d))


# ----------------------------------------------------------------------------------------------- MeanAggregator
def impl_mean(case, junk=None):
    from deephyper.ensemble.aggregator import MeanAggregator

    y = scalar_arrays(case, junk=junk)
    n = ncells(case["shape"])

    def build(c, into=None):
        a = scalar_arrays(c)
        if into is not None:
            refill(into, a)
            return y
        return a, a

    def runs(ws):
        r0 = call_impl(None, "with_scale=False", lambda: run(warm(case, MeanAggregator, y, build, "mean"), y, ws))
        r1 = call_impl(None, "with_scale=True", lambda: run(warm(case, lambda: MeanAggregator(with_scale=True), y, build, "mean"), y, ws))
        if not isinstance(r1, dict) or set(r1) != {"loc", "scale"}:
            raise Fail("oracle", "mean:keys", str(type(r1)))
        if np.shape(r0) != tuple(case["shape"]) or np.shape(r1["loc"]) != tuple(case["shape"]) or np.shape(r1["scale"]) != tuple(case["shape"]):
            raise Fail("oracle", "mean:shape", dict(loc=np.shape(r0), scale=np.shape(r1["scale"])))
        return r0, r1

    def extract(raw):
        r0, r1 = raw
        return dict(loc=cells_of(r0, n), loc1=cells_of(r1["loc"], n), scale=cells_of(r1["scale"], n))

    o = observed(case, "mean", y, runs, extract)
    if o["loc"] != o["loc1"]:
        raise Fail("oracle", "mean:loc_differs_between_options")
    if any(isinstance(x, Fraction) and x < 0 for x in o["scale"]):
        raise Fail("oracle", "mean:negative_scale")
    return mark_undefined(case, dict(loc=o["loc"], var=sq(o["scale"])))


def scalar_cells(case, keys=("vals",)):
    """Model encoding of the cells: per cell, per member, [] (masked) or [payload]."""
    fl = [fr(v) for k in keys for row in case[k] for v in row]
    s = common_scale(fl)
    n = ncells(case["shape"])
    cells = []
    for c in range(n):
        cell = []
        for i in range(case["n"]):
            if masked_at(case, i, c):
                cell.append([])
            elif len(keys) == 1:
                cell.append([int(fr(case[keys[0]][i][c]) * s)])
            else:
                cell.append([[int(fr(case[k][i][c]) * s) for k in keys]])
        cells.append(cell)
    return cells, s


def magnitudes(case, f):
    """Per cell: max over the unmasked members of f(member values)."""
    out = []
    for c in range(ncells(case["shape"])):
        m = Fraction(0)
        for i in range(case["n"]):
            if not masked_at(case, i, c):
                m = max(m, f(i, c))
        out.append(m)
    return out


def exact_cells(case):
    if case.get("num") != "dyadic":
        return [False] * ncells(case["shape"])
    if any(not small_dyadic(w) for w in member_weights(case)):
        return [False] * ncells(case["shape"])  # e.g. 1/3, 1/3, 1/3 + 1 ulp sums to exactly 1, but the products round
    tot = sum(member_weights(case), Fraction(0))  # also a power of two: exact even if the weights are normalised first
    return [is_pow2(tot) and is_pow2(remaining_weight(case, c)) for c in range(ncells(case["shape"]))]


def check_mean_body(case, res):
    m = model()
    n = ncells(case["shape"])
    imp = impl_mean(case)
    cells, s = scalar_cells(case)
    out = m.call(F_MEAN, [enc_weights(case), cells])
    mod_loc = [None if (o := dec_opt(r[0])) is None else o / s for r in out]
    mod_var = [None if (o := dec_opt(r[1])) is None else o / (s * s) for r in out]
    mag1 = magnitudes(case, lambda i, c: abs(fr(case["vals"][i][c])))
    tol1 = [rt(case) * (1 + g) for g in mag1]
    tol2 = [rt(case) * (1 + g * g) for g in mag1]
    ex = exact_cells(case)
    # --- property clauses on the implementation's outputs first (an oracle failure outranks a correspondence break) ---
    # between the extremes of the members that count (unmasked, positive weight)
    w = member_weights(case)
    by_tol = {}
    for c in range(n):
        if not isinstance(imp["loc"][c], Fraction):
            continue
        xs = [fr(case["vals"][i][c]) for i in range(case["n"]) if not masked_at(case, i, c) and w[i] > 0]
        if xs:
            by_tol.setdefault(tol1[c], []).append((c, xs, imp["loc"][c]))
    for t, lst in by_tol.items():
        for ok, (c, xs, v) in zip(m.call(F_BETWEEN, [qp(t), [[[qp(x) for x in xs], qp(v)] for _, xs, v in lst]]), lst):
            if not ok:
                raise Fail("oracle", "mean:between_extremes", dict(cell=c, mean=float(v), members=[float(x) for x in xs]))
    metamorphic(case, imp, impl_mean, dict(loc=tol1, var=tol2), m, "mean")
    # --- correspondence with the model ---
    compare("mean:loc", imp["loc"], mod_loc, tol1, ex)
    compare("mean:var", imp["var"], mod_var, tol2, [False] * n)


def metamorphic(case, imp, impl, tols, m, name):
    """uniform = None; permutation invariance; masked entries ignored (junk under the mask, masked member removed).
    A failure carries the partner case and its outputs (f.partner) so that the caller can classify it."""
    def pair(label, other_case, tl, **kw):
        ow = weights_of(other_case)
        if other_case["n"] == 0 or (ow is not None and sum(ow) == 0):
            return  # all-zero weights: no mixture (np.average raises ZeroDivisionError) - outside the property
        if other_case.get("reuse") in ("ids", "refill"):
            other_case = dict(other_case, reuse="decoy")  # the long histories run on the base call only
        try:
            other = impl(other_case, **kw)
        except Fail as f:  # the variant raised / returned a malformed result where the base run did not
            f.clause = "%s:%s:%s" % (name, label, f.clause)
            if isinstance(f.detail, dict):
                f.detail.update(kw)
            raise
        try:
            for k in tl:
                close_cells("%s:%s:%s" % (name, label, k), imp[k], other[k], tl[k], m)
        except Fail as f:
            f.partner = (other_case, other)
            raise

    part = uniform_partner(case)
    if part is not None:
        pair("uniform_is_none", part, tols)
    zc = without_zero_weight_members(case)
    if zc is not None:
        pair("zero_weight_member_ignored", zc, tols)
    zm = zero_weight_members_masked(case)
    if zm is not None:
        pair("zero_weight_member_masked", zm, tols)
    sc = split_member(case)
    if sc is not None:
        pair("member_split", sc, tols)
    pc = permuted(case)
    if pc is not None:
        pair("perm_invariant", pc, tols)
    if case["mask"] is not None:
        # whatever is stored under the mask (finite junk, nan, +-inf, 1e308, a mix, or arrays built by np.ma.masked_invalid):
        # bit-identical outputs (tolerance 0)
        zero = {k: [Fraction(0)] * len(v) for k, v in tols.items()}
        for jm in JUNKS:
            try:
                pair("masked_data_ignored", case, zero, junk=jm)
            except Fail as f:
                if isinstance(f.detail, dict):
                    f.detail["under_the_mask"] = jm
                raise
        i = fully_masked_member(case)
        if i is not None:
            pair("masked_member_ignored", without_member(case, i), tols)


check_mean = guarded(check_mean_body)


# ----------------------------------------------------------------------------------------------- MixedNormalAggregator
def impl_mn(case, junk=None, raw=False):
    from deephyper.ensemble.aggregator import MixedNormalAggregator

    locs = scalar_arrays(case, "vals", junk=junk)
    scales = scalar_arrays(case, "vals2", junk=junk)
    y = [dict(loc=a, scale=b) for a, b in zip(locs, scales)]
    n = ncells(case["shape"])

    def build(c, into=None):
        a, b = scalar_arrays(c, "vals"), scalar_arrays(c, "vals2")
        if into is not None:
            refill(into, a + b)
            return y
        return a + b, [dict(loc=p, scale=q) for p, q in zip(a, b)]

    def runs(ws):
        r0 = call_impl(None, "decomposed_scale=False", lambda: run(warm(case, MixedNormalAggregator, locs + scales, build, "mn"), y, ws))
        r1 = call_impl(None, "decomposed_scale=True", lambda: run(warm(case, lambda: MixedNormalAggregator(decomposed_scale=True), locs + scales, build, "mn"), y, ws))
        if set(r0) != {"loc", "scale"} or set(r1) != {"loc", "scale_aleatoric", "scale_epistemic"}:
            raise Fail("oracle", "mn:keys", dict(a=sorted(r0), b=sorted(r1)))
        for k, v in list(r0.items()) + list(r1.items()):
            if np.shape(v) != tuple(case["shape"]):
                raise Fail("oracle", "mn:shape", dict(key=k, shape=np.shape(v)))
        return r0, r1

    def extract(raw):
        r0, r1 = raw
        return dict(loc=cells_of(r0["loc"], n), loc1=cells_of(r1["loc"], n), total=cells_of(r0["scale"], n),
                    ale=cells_of(r1["scale_aleatoric"], n), epi=cells_of(r1["scale_epistemic"], n))

    o = observed(case, "mn", locs + scales, runs, extract)
    if o["loc"] != o["loc1"]:
        raise Fail("oracle", "mn:loc_differs_between_options")
    for k in ("total", "ale", "epi"):
        if any(isinstance(x, Fraction) and x < 0 for x in o[k]):
            raise Fail("oracle", "mn:negative_scale")
    res = dict(loc=o["loc"], total=sq(o["total"]), ale=sq(o["ale"]), epi=sq(o["epi"]))
    return res if raw else mark_undefined(case, res)


def impl_mn_raw(case):
    return impl_mn(case, raw=True)


def mn_model(case, m):
    cells, s = scalar_cells(case, ("vals", "vals2"))
    out = m.call(F_MN, [enc_weights(case), cells])
    mod = {}
    for j, k in enumerate(["loc", "total", "ale", "epi", "epi_today"]):
        d = s if k == "loc" else s * s
        mod[k] = [None if (o := dec_opt(r[j])) is None else o / d for r in out]
    mag1 = magnitudes(case, lambda i, c: abs(fr(case["vals"][i][c])))
    mag2 = magnitudes(case, lambda i, c: fr(case["vals"][i][c]) ** 2 + fr(case["vals2"][i][c]) ** 2)
    return mod, [rt(case) * (1 + g) for g in mag1], [rt(case) * (1 + g) for g in mag2]


def partial_masks(case):
    """loc and scale of some normal member carry different masks (F80)."""
    return case["agg"] == "mn" and case["mask"] is not None and own_mask(case, "vals") != own_mask(case, "vals2")


def mn_partial_today(case, m):
    """The pinned tree's statistics when loc and scale carry different masks (Coq: mn2_*_today)."""
    fl = [fr(v) for k in ("vals", "vals2") for row in case[k] for v in row]
    s = common_scale(fl)
    ml, ms = own_mask(case, "vals"), own_mask(case, "vals2")
    cells = [[[[] if ml[i][c] else [int(fr(case["vals"][i][c]) * s)], [] if ms[i][c] else [int(fr(case["vals2"][i][c]) * s)]]
              for i in range(case["n"])] for c in range(ncells(case["shape"]))]
    out = m.call(F_MN2_TODAY, [enc_weights(case), cells])
    return {k: [None if (o := dec_opt(r[j])) is None else o / (s if k == "loc" else s * s) for r in out] for j, k in enumerate(["loc", "total", "ale", "epi"])}


def same(a, b, tols):
    try:
        compare("x", a, b, tols, [False] * len(a))
        return True
    except Fail:
        return False


def check_mn_body(case, res):
    m = model()
    n = ncells(case["shape"])
    imp = impl_mn(case)
    mod, tol1, tol2 = mn_model(case, m)
    ex = exact_cells(case)
    no = [False] * n

    def follows_today(cs, im):
        """do these epistemic variances follow the pre-fix model (weights ignored) and not the repaired one?"""
        md, _, t2 = (mod, tol1, tol2) if cs is case else mn_model(cs, m)
        return same(im["epi"], md["epi_today"], t2) and not same(im["epi"], md["epi"], t2)

    def classify(f):
        """F18: an epistemic variance that follows mn_epi_today; F27: NaN (np) / masked (np.ma) total scale where the
        true variance is within rounding of zero (cancellation)."""
        extra = {}
        c = f.detail.get("cell") if isinstance(f.detail, dict) else None
        if "total" in f.clause and f.clause.rsplit(":", 1)[-1] in ("nan", "mask") and c is not None and c < n \
                and mod["total"][c] is not None and mod["total"][c] <= tol2[c]:
            extra["cancellation"] = True
            f.kind = "oracle"
        if case.get("int_dtype") and max(abs(v) for row in case["vals2"] for v in row) >= 3037000500:
            # integer-typed scale whose square passes 2^63 (F81): does the aleatoric part follow the int64 wrap-around model?
            cells, s1 = scalar_cells(case, ("vals", "vals2"))
            wrapped = [None if (o := dec_opt(r)) is None else o for r in m.call(F_ALE_INT64, [enc_weights(case), cells])] if s1 == 1 else []
            raw = impl_mn_raw(case)["ale"]
            extra["int64_square_overflow"] = bool(wrapped) and all(
                ((a == NAN or a is None) and w is not None and w < 0) or (isinstance(a, Fraction) and w is not None and w >= 0 and abs(a - w) <= t) for a, w, t in zip(raw, wrapped, tol2)) \
                and not same(raw, mod["ale"], tol2)
        if partial_masks(case):
            td = mn_partial_today(case, m)
            raw = impl_mn_raw(case)
            extra["today_partial"] = bool(all(same(raw[k], td[k], tol1 if k == "loc" else tol2) for k in ("loc", "total", "ale", "epi"))
                                          and not all(same(raw[k], mod[k], tol1 if k == "loc" else tol2) for k in ("loc", "total", "ale", "epi")))
        if "epi" in f.clause or f.clause == "mn:variance_split":
            partner = getattr(f, "partner", None)
            extra["today"] = bool(follows_today(case, imp) or (partner is not None and follows_today(*partner)))
        f.extra = dict(f.extra, **extra)

    try:
        for k in ("total", "ale", "epi"):
            for c in range(n):
                if imp[k][c] == NAN:
                    raise Fail("oracle", "mn:%s_var:nan" % k, dict(cell=c, model=str(mod[k][c])))
        # --- the property clause: total variance = aleatoric + epistemic, decided by ok_variance_split ---
        by_tol = {}
        for c in range(n):
            if not all(isinstance(imp[k][c], Fraction) for k in ("total", "epi", "ale")):
                continue
            by_tol.setdefault(3 * tol2[c], []).append((c, imp["total"][c], imp["ale"][c], imp["epi"][c]))
        for t, lst in by_tol.items():
            for ok, (c, a, b, e) in zip(m.call(F_VSPLIT, [qp(t), [[qp(a), qp(b), qp(e)] for _, a, b, e in lst]]), lst):
                if not ok:
                    raise Fail("oracle", "mn:variance_split", dict(cell=c, total=float(a), aleatoric=float(b), epistemic=float(e), sum=float(b + e)))
        metamorphic(case, imp, impl_mn, dict(loc=tol1, total=tol2, ale=tol2, epi=tol2), m, "mn")
        # --- correspondence with the model ---
        compare("mn:loc", imp["loc"], mod["loc"], tol1, ex)
        compare("mn:total_var", imp["total"], mod["total"], tol2, no)
        compare("mn:ale_var", imp["ale"], mod["ale"], tol2, no)
        compare("mn:epi_var", imp["epi"], mod["epi"], tol2, no)
    except Fail as f:
        classify(f)
        raise


check_mn = guarded(check_mn_body)


# ----------------------------------------------------------------------------------------------- MixedCategoricalAggregator
def impl_cat(case, junk=None):
    from deephyper.ensemble.aggregator import MixedCategoricalAggregator

    y = row_arrays(case, junk=junk)
    n, K = ncells(case["shape"]), case["K"]

    def build(c, into=None):
        a = row_arrays(c)
        if into is not None:
            refill(into, a)
            return y
        return a, a

    def runs(ws):
        raw = {}
        for meth in ("confidence", "entropy"):
            r0 = call_impl(None, "%s,decomposed=False" % meth, lambda: run(warm(case, lambda: MixedCategoricalAggregator(uncertainty_method=meth), y, build, "cat"), y, ws))
            r1 = call_impl(None, "%s,decomposed=True" % meth, lambda: run(warm(case, lambda: MixedCategoricalAggregator(uncertainty_method=meth, decomposed_uncertainty=True), y, build, "cat"), y, ws))
            if set(r0) != {"loc", "uncertainty"} or set(r1) != {"loc", "uncertainty_aleatoric", "uncertainty_epistemic"}:
                raise Fail("oracle", "cat:keys", dict(a=sorted(r0), b=sorted(r1)))
            for r in (r0, r1):
                if np.shape(r["loc"]) != tuple(case["shape"]) + (K,):
                    raise Fail("oracle", "cat:shape", dict(loc=np.shape(r["loc"])))
            for k, v in [("uncertainty", r0["uncertainty"]), ("uncertainty_aleatoric", r1["uncertainty_aleatoric"]), ("uncertainty_epistemic", r1["uncertainty_epistemic"])]:
                if np.shape(v) != tuple(case["shape"]):
                    raise Fail("oracle", "cat:shape", dict(key=k, shape=np.shape(v)))
            raw[meth] = (r0, r1)
        return raw

    def extract(raw):
        out = {}
        for meth, (r0, r1) in raw.items():
            out[meth + "_loc0"] = cells_of(r0["loc"], n * K)
            out[meth + "_loc1"] = cells_of(r1["loc"], n * K)
            out[meth + "_total"] = cells_of(r0["uncertainty"], n)
            out[meth + "_ale"] = cells_of(r1["uncertainty_aleatoric"], n)
            out[meth + "_epi"] = cells_of(r1["uncertainty_epistemic"], n)
        e0 = raw["entropy"][0]["loc"]
        out["loc_rows"] = [[float(x) for x in row] for row in np.asarray(np.ma.getdata(e0), dtype=float).reshape(n, K)]
        out["loc_dtype"] = str(np.asarray(np.ma.getdata(e0)).dtype)
        return out

    o = observed(case, "cat", y, runs, extract)
    locs = [o.pop(m + k) for m in ("confidence", "entropy") for k in ("_loc0", "_loc1")]
    if any(l != locs[0] for l in locs[1:]):
        raise Fail("oracle", "cat:loc_differs_between_options")
    o["loc"] = locs[0]
    rows, dt = o.pop("loc_rows"), o.pop("loc_dtype")
    o = mark_undefined(case, o, K, ("loc",))
    o["loc_array"] = np.array(rows, dtype=np.float32 if dt == "float32" else np.float64).reshape(n, K)
    return o


def row_cells(case):
    fl = [fr(v) for mem in case["vals"] for row in mem for v in row]
    s = common_scale(fl)
    rows = []
    for c in range(ncells(case["shape"])):
        rows.append([[] if masked_at(case, i, c) else [[int(fr(v) * s) for v in case["vals"][i][c]]] for i in range(case["n"])])
    return rows, s


def row_is_distribution(row, tol=Fraction(1, 10 ** 12)):
    return all(v >= 0 for v in row) and abs(sum(fr(v) for v in row) - 1) <= tol


def check_cat_body(case, res):
    m = model()
    n, K = ncells(case["shape"]), case["K"]
    imp = impl_cat(case)
    ex = exact_cells(case)
    exK = [e for e in ex for _ in range(K)]
    R = rt(case)
    tol = [R * 2] * n
    tolK = [R * 2] * (n * K)
    tolE = [R * 10] * n
    stats = ("confidence_total", "confidence_ale", "confidence_epi", "entropy_total", "entropy_ale", "entropy_epi")
    for k in stats + ("loc",):
        for c, v in enumerate(imp[k]):
            if v == NAN:
                raise Fail("oracle", "cat:%s:nan" % k, dict(cell=c))
    # --- property clauses on the implementation's outputs (when the rows of every member are distributions) ---
    if all(row_is_distribution(case["vals"][i][c], max(Fraction(1, 10 ** 12), R / 10 if case.get("dtype") == "f32" else 0)) for i in range(case["n"]) for c in range(n)):
        live = [c for c in range(n) if all(isinstance(imp[k][c], Fraction) for k in stats) and all(isinstance(x, Fraction) for x in imp["loc"][c * K:(c + 1) * K])]
        t2 = qp(R * 2)
        oks = m.call(F_DISTR, [t2, K, [[qp(x) for x in imp["loc"][c * K:(c + 1) * K]] for c in live]])
        for ok, c in zip(oks, live):
            if not ok:
                raise Fail("oracle", "cat:probs_distribution", dict(row=c, loc=[float(x) for x in imp["loc"][c * K:(c + 1) * K]]))
        oks = m.call(F_CONFR, [t2, K, [qp(imp["confidence_total"][c]) for c in live]])
        for ok, c in zip(oks, live):
            if not ok:
                raise Fail("oracle", "cat:confidence_range", dict(row=c, uncertainty=float(imp["confidence_total"][c])))
        for meth, strict in (("confidence", True), ("entropy", False)):
            items = [[qp(imp[meth + "_total"][c]), qp(imp[meth + "_ale"][c]), qp(imp[meth + "_epi"][c])] for c in live]
            oks = m.call(F_DECOMP, [qp(R * (2 if strict else 10)), strict, items])
            for ok, c in zip(oks, live):
                if not ok:
                    raise Fail("oracle", "cat:decomposition:" + meth, dict(row=c, total=float(imp[meth + "_total"][c]), aleatoric=float(imp[meth + "_ale"][c]), epistemic=float(imp[meth + "_epi"][c])))
    tols = dict(loc=tolK, confidence_total=tol, confidence_ale=tol, confidence_epi=tol, entropy_total=tolE, entropy_ale=tolE, entropy_epi=tolE)
    metamorphic(case, imp, impl_cat, tols, m, "cat")
    # --- correspondence with the model ---
    rows, s = row_cells(case)
    W = enc_weights(case)
    out = m.call(F_CONF, [W, s, K, rows])
    mod = dict(loc=[], confidence_total=[], confidence_ale=[], confidence_epi=[])
    for r in out:
        if not r:
            mod["loc"] += [None] * K
            for k in ("confidence_total", "confidence_ale", "confidence_epi"):
                mod[k].append(None)
        else:
            mod["loc"] += [dec_q(x) / s for x in r[0]]
            mod["confidence_total"].append(dec_q(r[1]) / s)
            mod["confidence_ale"].append(dec_q(r[2]) / s)
            mod["confidence_epi"].append(dec_q(r[3]) / s)
    compare("cat:loc", imp["loc"], mod["loc"], tolK, exK)
    for k in ("confidence_total", "confidence_ale", "confidence_epi"):
        compare("cat:" + k, imp[k], mod[k], tol, ex)
    # entropy: the log values are numpy's (oracle), for the members' probabilities and for the aggregated ones
    # (in the dtype numpy uses: float32 members -> eps and log of float32)
    mdt = np.float32 if case.get("dtype") == "f32" else np.float64
    ldt = imp["loc_array"].dtype.type
    lfl = []
    with np.errstate(all="ignore"):
        mem_logs = [[None if masked_at(case, i, c) else [fr(x) for x in np.log(np.array(case["vals"][i][c], dtype=mdt) + np.finfo(mdt).eps)] for i in range(case["n"])] for c in range(n)]
        ens_logs = [[fr(x) if np.isfinite(x) else Fraction(0) for x in np.log(np.maximum(np.nan_to_num(imp["loc_array"][c]), 0) + np.finfo(ldt).eps)] for c in range(n)]
    for c in range(n):
        for l in mem_logs[c]:
            lfl += l or []
        lfl += ens_logs[c]
    t = common_scale(lfl)
    erows = [[[] if mem_logs[c][i] is None else [[[int(fr(p) * s), int(lg * t)] for p, lg in zip(case["vals"][i][c], mem_logs[c][i])]] for i in range(case["n"])] for c in range(n)]
    eout = m.call(F_ENT, [W, K, erows, [[int(x * t) for x in ens_logs[c]] for c in range(n)]])
    for j, k in enumerate(("entropy_total", "entropy_ale", "entropy_epi")):
        mod[k] = [None if not r else dec_q(r[j]) / (s * t) for r in eout]
        compare("cat:" + k, imp[k], mod[k], tolE, [False] * n)


check_cat = guarded(check_cat_body)


# ----------------------------------------------------------------------------------------------- ModeAggregator
def impl_mode(case, junk=None):
    from deephyper.ensemble.aggregator import ModeAggregator

    y = row_arrays(case, junk=junk)
    n = ncells(case["shape"])
    zd = len(case["shape"]) == 0

    def build(c, into=None):
        a = row_arrays(c)
        if into is not None:
            refill(into, a)
            return y
        return a, a

    def runs(ws):
        r0 = call_impl(zd, "with_uncertainty=False", lambda: run(warm(case, ModeAggregator, y, build, "mode"), y, ws))
        r1 = call_impl(zd, "with_uncertainty=True", lambda: run(warm(case, lambda: ModeAggregator(with_uncertainty=True), y, build, "mode"), y, ws))
        if not isinstance(r1, dict) or set(r1) != {"loc", "uncertainty"}:
            raise Fail("oracle", "mode:keys")
        for v in (r0, r1["loc"], r1["uncertainty"]):
            if np.shape(v) != tuple(case["shape"]):
                raise Fail("oracle", "mode:shape", dict(shape=np.shape(v)))
        if not np.issubdtype(np.asarray(np.ma.getdata(r0)).dtype, np.integer):
            raise Fail("oracle", "mode:not_integer")
        return r0, r1

    def extract(raw):
        r0, r1 = raw
        return dict(mode=cells_of(r0, n), mode1=cells_of(r1["loc"], n), unc=cells_of(r1["uncertainty"], n))

    o = observed(case, "mode", y, runs, extract)
    if o["mode"] != o["mode1"]:
        raise Fail("oracle", "mode:loc_differs_between_options")
    return mark_undefined(case, dict(mode=o["mode"], unc=o["unc"]))


def mode_variant(case, m, norm):
    """The pre-fix models: norm=False pinned tree; norm=True weights normalised, masked members still vote."""
    rows, _ = row_cells(case)
    ws = weights_of(case)
    if ws is None:
        W, u = [], 1
    else:
        f = [fr(w) for w in ws]
        u = common_scale(f)
        W = [[int(x * u) for x in f]]
    out = m.call(F_MODE_TODAY, [W, u, case["K"], norm, rows])
    d = Fraction(1) if norm else Fraction(u)
    return [None if not r else (r[0], [dec_q(x) / d for x in r[1]], dec_q(r[2]) / d) for r in out]


def agrees(imp, var, tol):
    for c, v in enumerate(var):
        a, b = imp["unc"][c], imp["mode"][c]
        if a == SKIP:
            continue
        if v is None or a is None:
            if (v is None) != (a is None):
                return False
            continue
        if a == NAN or abs(a - v[2]) > tol:
            return False
        top = max(v[1])
        if sum(1 for x in v[1] if top - x <= tol) == 1 and int(b) != v[0]:
            return False
    return True


def check_mode_body(case, res):
    m = model()
    n, K = ncells(case["shape"]), case["K"]
    imp = impl_mode(case)
    rows, _ = row_cells(case)
    W = enc_weights(case)
    out = m.call(F_MODE, [W, K, rows])
    mod = [None if not r else (r[0], [dec_q(x) for x in r[1]], dec_q(r[2])) for r in out]
    tolq = rt(case) * 2
    tol = [tolq] * n
    ex = exact_cells(case)

    def which(cs, im):
        """which model of the pre-fix behaviour do these outputs follow?  (None, None): neither"""
        if agrees(im, repaired(cs), tolq):
            return None
        if agrees(im, mode_variant(cs, m, True), tolq):
            return dict(today_normalised=True, today_masked_vote=True)
        if agrees(im, mode_variant(cs, m, False), tolq):
            return dict(today_normalised=False, today_masked_vote=cs["mask"] is not None)
        return dict(today_normalised=None, today_masked_vote=None)

    def repaired(cs):
        rw, _ = row_cells(cs)
        return [None if not r else (r[0], [dec_q(x) for x in r[1]], dec_q(r[2])) for r in m.call(F_MODE, [enc_weights(cs), cs["K"], rw])]

    def classify(f):
        w = which(case, imp)
        if w is None and getattr(f, "partner", None) is not None:
            w = which(*f.partner)
        f.extra = dict(f.extra, **(w or dict(today_normalised=None, today_masked_vote=None)))

    try:
        # --- the property clause, decided by ok_mode on the implementation's outputs ---
        live = [c for c in range(n) if mod[c] is not None and isinstance(imp["unc"][c], Fraction) and isinstance(imp["mode"][c], Fraction)]
        for c in range(n):
            if imp["unc"][c] == SKIP:
                continue
            if (mod[c] is None) != (imp["unc"][c] is None) or (mod[c] is None) != (imp["mode"][c] is None):
                raise Fail("oracle", "mode:mask", dict(row=c, impl=str(imp["unc"][c]), model=str(mod[c])))
            if imp["unc"][c] == NAN:
                raise Fail("oracle", "mode:nan", dict(row=c))
        items = [[rows[c], int(imp["mode"][c]), qp(imp["unc"][c])] for c in live]
        oks = m.call(F_OKMODE, [qp(tolq), W, K, items])
        for ok, c in zip(oks, live):
            if not ok:
                raise Fail("oracle", "mode:weighted_vote", dict(row=c, mode=int(imp["mode"][c]), uncertainty=float(imp["unc"][c]), counts=[float(x) for x in mod[c][1]]))
        metamorphic(case, imp, impl_mode, dict(unc=tol), m, "mode")
        # --- correspondence ---
        compare("mode:unc", imp["unc"], [None if r is None else r[2] for r in mod], tol, ex)
        for c in live:
            top = max(mod[c][1])
            if sum(1 for x in mod[c][1] if top - x <= tolq) == 1 and int(imp["mode"][c]) != mod[c][0]:
                raise Fail("corr", "mode:loc", dict(row=c, impl=int(imp["mode"][c]), model=mod[c][0]))
            if ex[c] and int(imp["mode"][c]) != mod[c][0]:
                raise Fail("corr", "mode:loc_first_argmax", dict(row=c, impl=int(imp["mode"][c]), model=mod[c][0]))
    except Fail as f:
        classify(f)
        raise


check_mode = guarded(check_mode_body)


# ----------------------------------------------------------------------------------------------- malformed inputs
def check_malformed(case):
    """All-zero weights -> ZeroDivisionError (np.average), or at least no finite answer; wrong number of weights -> ValueError.
    Recorded classes; outside the property's quantifier."""
    from deephyper.ensemble.aggregator import MeanAggregator, MixedCategoricalAggregator, MixedNormalAggregator

    res = dict(ok=True, kind="oracle", clause="", nontrivial=True, sig=dict(agg=case["agg"], malformed=case["what"]), desc=["what=" + case["what"], "agg=" + case["agg"]])
    n = case["n"]
    vals = [np.array(case["vals"][i], dtype=float) for i in range(n)]
    if case["agg"] == "mean":
        agg, y = MeanAggregator(), vals
    elif case["agg"] == "mn":
        agg, y = MixedNormalAggregator(), [dict(loc=v, scale=np.abs(v)) for v in vals]
    else:
        agg, y = MixedCategoricalAggregator(), [np.stack([v * 0 + 0.5, v * 0 + 0.5], axis=-1) for v in vals]
    zero = case["what"] == "zero_weights"
    ws = [0.0] * n if zero else [1.0] * (n + 1)
    try:
        with np.errstate(all="ignore"):
            r = agg.aggregate(y, weights=ws)
    except (ZeroDivisionError if zero else ValueError):
        return res
    except Exception as e:
        return dict(res, ok=False, kind="corr", clause="malformed:" + type(e).__name__, detail=str(e))
    if zero:
        # no exception: then no finite answer either (all-zero weights have no mixture)
        vals = [r] if not isinstance(r, dict) else list(r.values())
        if not any(np.isfinite(np.asarray(np.ma.filled(v, np.nan), dtype=float)).any() for v in vals):
            return res
    return dict(res, ok=False, kind="corr", clause="malformed:no_error", detail="a finite answer and no exception for " + case["what"])


# ----------------------------------------------------------------------------------------------- generators
SHAPES = [[], [1], [3], [5], [2, 2], [2, 3], [1, 4], [2, 1, 3], [2, 2, 2]]
WKINDS = ["none", "uniform", "normalised", "unnormalised", "zeros", "dyadic", "none", "skewed", "huge", "tiny", "ulp", "wide"]


def gen_weights(rng, n, kind, dyadic):
    if kind == "none":
        return None
    if kind == "uniform":
        c = rng.choice([1.0, 0.5, 2.0, 1.0 / n, 3.0, 0.25])
        return [c] * n
    if kind == "dyadic" or (dyadic and kind in ("normalised", "skewed")):
        # positive multiples of 1/16 whose sum is a power of two
        tot = rng.choice([16, 32, 8 if n <= 8 else 16, 64])
        cuts = sorted(rng.sample(range(1, tot), n - 1)) if n > 1 else []
        parts = [b - a for a, b in zip([0] + cuts, cuts + [tot])]
        return [p / 16.0 for p in parts]
    if kind == "normalised":
        w = [rng.random() + 0.01 for _ in range(n)]
        s = sum(w)
        return [x / s for x in w]
    if kind == "skewed":
        w = [0.01 + 0.02 * rng.random() for _ in range(n)]
        w[rng.randrange(n)] = 1.0
        s = sum(w)
        return [x / s for x in w]
    if kind == "unnormalised":
        if dyadic:
            return [rng.randint(1, 12) / 4.0 for _ in range(n)]
        return [rng.choice([1.0, 2.0, 3.0, 0.5, 10 * rng.random() + 0.1]) for _ in range(n)]
    if kind == "zeros":
        if dyadic:
            w = [rng.randint(0, 6) / 4.0 for _ in range(n)]
        else:
            w = [rng.random() if rng.random() < 0.6 else 0.0 for _ in range(n)]
        if not any(w):
            w[rng.randrange(n)] = 1.0
        return w
    if kind in ("huge", "tiny"):
        # weights are mixture weights: only their ratios matter (C19_weights_rescaled), whatever their magnitude
        if dyadic:
            base = gen_weights(rng, n, "dyadic", True)
            f = 2.0 ** (300 if kind == "huge" else -300)
        else:
            base = [rng.uniform(1, 9) for _ in range(n)]
            f = 1e100 if kind == "huge" else 1e-100
        return [b * f for b in base]
    if kind == "ulp":
        # one weight 1 ulp above the others: NOT uniform, but within rounding of it
        c = rng.choice([1.0, 0.3, 2.5, 1.0 / n])
        w = [c] * n
        if n >= 2:
            w[rng.randrange(n)] = float(np.nextafter(c, np.inf))
        return w
    if kind == "wide":
        # 200 orders of magnitude between the weights of one call (small cases only: the exact model works on 700-bit integers)
        w = [rng.uniform(1, 9) * rng.choice([1e-100, 1e100, 1.0]) for _ in range(n)]
        w[rng.randrange(n)] = rng.uniform(1, 9) * 1e100
        return w
    raise ValueError(kind)


def decorate(rng, case, dyadic):
    """Blind-spot dimensions: how the caller hands things over (containers, dtypes, object reuse), mixtures of plain and
    masked members, loc / scale of a normal member with different masks."""
    n, cells = case["n"], ncells(case["shape"])
    case["reuse"] = rng.choice([None, None, "decoy", "ids", "refill", "ids", "refill"])
    ws = case["weights"]
    if ws is not None:
        ints = all(w == int(w) and abs(w) < 2 ** 53 for w in ws)
        case["wtype"] = rng.choice(["list", "tuple", "ndarray"] + (["int_list", "int_array"] * 2 if ints else []))
    if rng.random() < 0.12 and not case.get("int_dtype") and case.get("num") != "float-degenerate":
        case["dtype"] = "f32"
        for k in ("vals", "vals2"):
            if k in case:
                case[k] = _map_leaves(case[k], lambda v: float(np.float32(v)))
    if rng.random() < 0.4:
        # mixed population: some members are plain ndarrays / MaskedArrays without a mask / with an all-False mask
        kinds = [rng.choice(["ma", "plain", "plain", "nomask", "allfalse"]) for _ in range(n)]
        if case["mask"] is not None:
            for i in range(n):
                if kinds[i] != "ma" and rng.random() < 0.7:
                    case["mask"][i] = [False] * cells
        case["kinds"] = kinds
        if case["agg"] == "mn":
            case["kinds2"] = kinds if rng.random() < 0.5 else [rng.choice(["ma", "plain", "nomask", "allfalse"]) for _ in range(n)]
    if case["mask"] is not None and n >= 2 and rng.random() < (0.6 if (ws is not None and any(w == 0 for w in ws)) else 0.12):
        # zero weights TOGETHER with masks: in some cells exactly the weighted members are masked and only zero-weight
        # members are left unmasked - the cell has no value, as if the zero-weight members were absent
        if ws is None or all(w != 0 for w in ws):
            ws = list(ws) if ws is not None else [1.0] * n
            for i in rng.sample(range(n), rng.randint(1, n - 1)):
                ws[i] = 0.0
            case["weights"] = ws
            if case.get("wtype") in ("int_list", "int_array") and any(w != int(w) for w in ws):
                case["wtype"] = "list"
        if any(w != 0 for w in ws):
            zero = [i for i in range(n) if ws[i] == 0]
            for c in rng.sample(range(cells), max(1, cells // 3)):
                for i in range(n):
                    case["mask"][i][c] = ws[i] != 0
                for i in zero:
                    case["mask"][i][c] = rng.random() < 0.4
                case["mask"][rng.choice(zero)][c] = False
    if case["agg"] == "mn" and case["mask"] is not None and rng.random() < 0.25:
        # loc and scale of a member with different masks; case['mask'] (what the member counts as) is their union
        style = rng.choice(["loc_only", "scale_only", "different"])
        none = [[False] * cells for _ in range(n)]
        other = gen_mask(rng, n, cells)
        case["mask_loc"] = none if style == "scale_only" else case["mask"]
        case["mask_scale"] = none if style == "loc_only" else (case["mask"] if style == "scale_only" else other)
        case["mask"] = [[a or b for a, b in zip(ra, rb)] for ra, rb in zip(case["mask_loc"], case["mask_scale"])]
    return case


def _map_leaves(x, f):
    return [_map_leaves(y, f) for y in x] if isinstance(x, list) else f(x)


def gen_mask(rng, n, cells):
    """Per member, per cell; guarantees that at least one cell keeps an unmasked member; sometimes a whole member / a whole cell is masked."""
    style = rng.choice(["random", "member", "cell", "random", "sparse"])
    p = 0.1 if style == "sparse" else 0.35
    mask = [[rng.random() < p for _ in range(cells)] for _ in range(n)]
    if style == "member" and n >= 2:
        i = rng.randrange(n)
        mask[i] = [True] * cells
    if style == "cell":
        c = rng.randrange(cells)
        for i in range(n):
            mask[i][c] = True
    return mask


def scalar_value(rng, dyadic, spread):
    if dyadic:
        return rng.randint(-40, 40) / 8.0
    return rng.uniform(-1, 1) * spread


def gen_scalar(agg, count):
    def gen(rng, tier):
        k = count if tier != "search" else count * 2
        for j in range(k):
            dyadic = j % 2 == 0
            n = rng.randint(1, 8) if tier != "search" else rng.randint(1, 4)
            shape = rng.choice(SHAPES) if tier != "search" else rng.choice([[], [2]])
            cells = ncells(shape)
            wk = WKINDS[(j // 2) % len(WKINDS)]
            if wk == "wide" and (n > 3 or cells > 3):
                n, shape, cells = min(n, 3), [min(cells, 2)], min(cells, 2)
            ws = gen_weights(rng, n, wk, dyadic)
            spread = rng.choice([1.0, 10.0, 100.0, 0.01])
            base = scalar_value(rng, dyadic, spread)
            close = rng.random() < 0.15  # members that nearly agree
            vals = [[(base + (rng.randint(-2, 2) / 8.0 if dyadic else rng.uniform(-1e-3, 1e-3) * spread)) if close else scalar_value(rng, dyadic, spread)
                     for _ in range(cells)] for _ in range(n)]
            case = dict(agg=agg, n=n, shape=shape, vals=vals, weights=ws, num="dyadic" if dyadic else "float",
                        mask=gen_mask(rng, n, cells) if rng.random() < 0.4 else None,
                        perm=rng.sample(range(n), n), uniform_c=rng.choice([1.0, 0.5, 3.0, 1.0 / n]), split=rng.randrange(n))
            if agg == "mn" and not dyadic and j % 40 == 39:
                # degenerate: the members agree and are (almost) certain - the mixture variance is ~ 0
                case["vals"] = [[base * (1 + c) for c in range(cells)] for _ in range(n)]
                tiny = rng.choice([0.0, 1e-9, 1e-12])
                case["vals2"] = [[abs(base) * tiny for _ in range(cells)] for _ in range(n)]
                case["num"] = "float-degenerate"
            elif agg == "mn":
                if dyadic:
                    case["vals2"] = [[rng.randint(0, 16) / 8.0 for _ in range(cells)] for _ in range(n)]
                else:
                    case["vals2"] = [[rng.uniform(0.05, 3.0) * spread for _ in range(cells)] for _ in range(n)]
            if dyadic and case["mask"] is None and rng.random() < 0.1:
                # integer-typed arrays; half of them with magnitudes whose squares / products pass 2^63
                big = rng.random() < 0.5
                lim = 4_000_000_000 if big else 40
                case["vals"] = [[float(rng.randint(-lim, lim)) for _ in row] for row in vals]
                if agg == "mn":
                    case["vals2"] = [[float(rng.randint(0, lim)) for _ in row] for row in vals]
                case["int_dtype"] = True
            yield decorate(rng, case, dyadic)
    return gen


def gen_prob_row(rng, K, dyadic):
    style = rng.choice(["random", "random", "onehot", "tie", "peaked"])
    if dyadic:
        if style == "onehot":
            r = [0] * K
            r[rng.randrange(K)] = 16
        elif style == "tie" and K >= 2 and 16 % K == 0:
            r = [16 // K] * K
        else:
            cuts = sorted(rng.randint(0, 16) for _ in range(K - 1))
            r = [b - a for a, b in zip([0] + cuts, cuts + [16])]
        return [x / 16.0 for x in r]
    if style == "onehot":
        r = [0.0] * K
        r[rng.randrange(K)] = 1.0
        return r
    if style == "tie" and K >= 2:
        r = [rng.random() for _ in range(K)]
        a, b = rng.sample(range(K), 2)
        r[b] = r[a] = max(r)
    elif style == "peaked":
        r = [1e-6 * rng.random() for _ in range(K)]
        r[rng.randrange(K)] = 1.0
    else:
        r = [rng.random() + 1e-3 for _ in range(K)]
    s = sum(r)
    r = [x / s for x in r]
    return r


def gen_rows(agg, count):
    def gen(rng, tier):
        k = count if tier != "search" else count * 2
        for j in range(k):
            dyadic = j % 2 == 0
            n = rng.randint(1, 8) if tier != "search" else rng.randint(1, 4)
            shape = rng.choice(SHAPES[:-2] + [[2, 1, 2]]) if tier != "search" else rng.choice([[], [2]])
            cells = ncells(shape)
            K = rng.choice([1, 2, 2, 3, 3, 4, 5])
            wk = WKINDS[(j // 2) % len(WKINDS)]
            if wk == "wide" and (n > 3 or cells > 3):
                n, shape, cells = min(n, 3), [min(cells, 2)], min(cells, 2)
            ws = gen_weights(rng, n, wk, dyadic)
            vals = [[gen_prob_row(rng, K, dyadic) for _ in range(cells)] for _ in range(n)]
            if rng.random() < 0.2 and n >= 2:  # members that agree on every row
                vals = [vals[0] if rng.random() < 0.7 else v for v in vals]
            yield decorate(rng, dict(agg=agg, n=n, shape=shape, K=K, vals=vals, weights=ws, num="dyadic" if dyadic else "float",
                                     mask=gen_mask(rng, n, cells) if rng.random() < 0.4 else None,
                                     perm=rng.sample(range(n), n), uniform_c=rng.choice([1.0, 0.5, 3.0, 1.0 / n]), split=rng.randrange(n)), dyadic)
    return gen


def gen_malformed(count):
    def gen(rng, tier):
        for j in range(count):
            n = rng.randint(1, 5)
            yield dict(agg=["mean", "mn", "cat"][j % 3], what=["zero_weights", "weights_length"][(j // 3) % 2], n=n,
                       vals=[[rng.randint(-8, 8) / 4.0 for _ in range(3)] for _ in range(n)])
    return gen


# ----------------------------------------------------------------------------------------------- shrinking
def shrink(case):
    n, cells = case["n"], ncells(case["shape"])
    if cells > 1 or case["shape"]:
        for c in range(cells):
            s = dict(case, shape=[])
            for k in ("vals", "vals2", "mask", "mask_loc", "mask_scale"):
                if case.get(k) is not None:
                    s[k] = [[row[c]] for row in case[k]]
            yield s
    if n > 1:
        for i in range(n):
            yield without_member(case, i)
    if case["mask"] is not None:
        yield dict(case, mask=None, mask_loc=None, mask_scale=None)
    for k in ("kinds", "kinds2", "wtype", "dtype", "reuse"):
        if case.get(k):
            yield dict(case, **{k: None})
    if case.get("perm") and case["perm"] != list(range(n)):
        yield dict(case, perm=None)
    if case.get("split") is not None:
        yield dict(case, split=None)
    if case["weights"] is not None:
        ws = case["weights"]
        simple = [float(round(w * 4) / 4) for w in ws]
        if simple != ws and any(simple):
            yield dict(case, weights=simple)
    for k in ("vals", "vals2"):
        if case.get(k) is not None and "K" not in case:
            simple = [[float(round(v)) for v in row] for row in case[k]]
            if simple != case[k]:
                yield dict(case, **{k: simple})


def streams(tier):
    th = tier == "thorough"
    q = 15 if th else 1
    return [
        Stream("mean", gen_scalar("mean", 2000 * q), check_mean, shrink, timeout=600),
        Stream("mixed_normal", gen_scalar("mn", 2000 * q), check_mn, shrink, timeout=600),
        Stream("mixed_categorical", gen_rows("cat", 2000 * q), check_cat, shrink, timeout=600),
        Stream("mode", gen_rows("mode", 2000 * q), check_mode, shrink, timeout=600),
        Stream("malformed", gen_malformed(60 if th else 24), check_malformed, None, timeout=600),
    ]
