"""C08 - No configuration is proposed twice until the space is exhausted.

Tie: trace acceptance + direct oracle.
 * Space.rvs, Optimizer.ask, Optimizer.tell and Optimizer.update_next are wrapped at class level (outside /repo, for the
   duration of one case).  Every top-level call becomes an event carrying the candidate samples drawn during the call
   and the points returned; points are tokenised (tuple of values -> int).  The extracted automaton `replay`
   (C08_NoDup/Check.v, 801) must accept the whole history: branch by branch it demands what the code does with
   `sampled` (which candidates may be returned, what is recorded).  For every accepted history whose hypothesis codes are
   all 0 the proposals are pairwise distinct (theorem C08_nodup); for the ask/tell alternation of CBO.search the
   schedule hypotheses hold by construction (C08_cbo_schedule).
 * Direct oracle `ok_prefix` (802): on a space of N configurations the first N proposals (asked points and the p:* rows
   of the results) are pairwise distinct.
 * Functional stream: Optimizer._filter_duplicated against the model's filter_dup (803).
"""
import os

for _v in ("OMP_NUM_THREADS", "OPENBLAS_NUM_THREADS", "MKL_NUM_THREADS"):  # the machine is shared: no BLAS thread pools per worker
    os.environ.setdefault(_v, "1")

import asyncio
import contextlib
import shutil
import tempfile
import warnings

from ..driver import model
from ..runner import Stream

PROPERTY = "C08"
LEVEL = "proof"
TRUSTED = [
    "which candidate the surrogate / acquisition function picks is observed, not modelled (the theorems hold for every choice)",
    "Space.rvs (ConfigSpace / numpy sampling): the samples are observed; with n_points = 40 x N uniform candidates on a space of N "
    "configurations a candidate sample misses a given configuration with probability < e^-40",
    "tokenisation of points by Python equality of their values (harness)",
    "pandas duplicated/merge inside _filter_duplicated: compared with the model's filter_dup on every candidate sample (functional stream + acceptance)",
]
ASSUMPTIONS = [
    "filter_duplicated=True (default); random initial design (initial_points only in the optimizer-level stream, flagged by hypothesis code 6)",
    "strategies cl_min/cl_mean/cl_max/qUCB/qUCBd (topk/boltzmann return transformed points: flagged by hypothesis code 4, outside the theorem)",
    "GP is run with acq_func=UCB (UCBd/qUCBd raise TypeError: finding F04 of C02)",
    "less than max_failures (100) failures per search",
]
RULE = ("finite spaces (products of integer ranges / categorical / ordinal dimensions, 4..64 configurations) x surrogate x multi-point strategy "
        "x num_workers 1..8 x seeds x objectives with failures x filter_failures x gather ALL/BATCH; searches run until a few evaluations "
        "past the exhaustion of the space; non-trivial = at least N proposals made (the whole space has to be enumerated without repeat)")

F_REPLAY, F_PREFIX, F_FILTER, F_HASNEW, F_WRAP = 801, 802, 803, 804, 805
STRAT = {"cl_min": 0, "cl_mean": 1, "cl_max": 2, "topk": 3, "boltzmann": 4, "qLCB": 5, "qLCBd": 6, "qUCB": 5, "qUCBd": 6}
STRAT_NAME = {0: "cl_min", 1: "cl_mean", 2: "cl_max", 3: "topk", 4: "boltzmann", 5: "qLCB", 6: "qLCBd"}
REJECT = {1: "rvs_calls", 2: "random_not_head_of_filtered", 3: "initial_point", 4: "no_next_x", 5: "next_x", 6: "initial_batch",
          7: "qlcb_size", 8: "qlcb_pick", 9: "cache", 10: "cl_size", 11: "cl_pick"}
HYP = {0: "ok", 1: "exhausted", 2: "stale_next", 3: "cache_hit", 4: "one_shot", 5: "free_opt", 6: "initial_points"}
BRANCH = {1: "single_random", 2: "single_initial", 3: "single_next", 4: "multi_initial", 5: "one_shot", 6: "qlcb", 7: "cache", 8: "cl",
          9: "tell_nofit", 10: "tell_fit", 11: "update_nofit", 12: "update_fit"}


# ------------------------------------------------------------------ observation
def _norm(v):
    if hasattr(v, "item") and not isinstance(v, (list, tuple)):
        try:
            v = v.item()
        except Exception:
            pass
    if isinstance(v, float) and v != v:
        return "nan"
    return v


def _close(a, b):
    for x, y in zip(a, b):
        if isinstance(x, float) or isinstance(y, float):
            try:
                if abs(x - y) > 1e-9 * max(1.0, abs(x), abs(y)):
                    return False
            except TypeError:
                return False
        elif x != y:
            return False
    return len(a) == len(b)


class Recorder:
    def __init__(self):
        self.tok, self.events, self.depth, self.cl, self.stray, self.top = {}, [], 0, [], 0, None
        self.cops, self.in_cbo, self.ff, self.rvs_sizes = [], 0, "min", set()

    canon = None  # conditional spaces: maps a point to its canonical form (inactive hyperparameters at their canonical value)

    def token(self, point):
        key = tuple(_norm(v) for v in point)
        if self.canon is not None:
            key = self.canon(key)
        t = self.tok.get(key)
        if t is None:
            t = self.tok[key] = len(self.tok) + 1
        return t

    def tokens(self, points):
        return [self.token(p) for p in points]


@contextlib.contextmanager
def observed(rec):
    """Class-level wrappers, removed at exit.  Calls made by the copies inside a top-level ask are part of that ask."""
    from deephyper.skopt.optimizer.optimizer import Optimizer
    from deephyper.skopt.space.space import Space

    o_ask, o_tell, o_rvs = Optimizer.ask, Optimizer.tell, Space.rvs
    o_upd = getattr(Optimizer, "update_next", None)

    def rvs(self, *a, **k):
        out = o_rvs(self, *a, **k)
        if rec.depth > 0:
            rec.rvs_sizes.add((k.get("n_samples", a[0] if a else 1), len(out)))
            rec.cl.append(rec.tokens(out))
        else:
            rec.stray += 1
        return out

    def ask(self, n_points=None, strategy="cl_min", strategy_kwargs=None):
        if rec.depth > 0:
            return o_ask(self, n_points, strategy, strategy_kwargs)
        rec.top = rec.top or self
        rec.depth, rec.cl = 1, []
        try:
            out = o_ask(self, n_points, strategy, strategy_kwargs)
        finally:
            rec.depth = 0
        pts = [out] if n_points is None else list(out)
        rec.events.append([0, 0 if n_points is None else int(n_points), STRAT.get(strategy, 2), rec.cl, rec.tokens(pts), [list(p) for p in pts]])
        return out

    def tell(self, x, y, fit=True):
        if rec.depth > 0:
            return o_tell(self, x, y, fit)
        if not rec.in_cbo:
            rec.cops.append([2])  # the optimizer is told directly (fit_surrogate)
        rec.depth, rec.cl = 1, []
        try:
            out = o_tell(self, x, y, fit)
        finally:
            rec.depth = 0
        ys = list(y) if isinstance(y, (list, tuple)) and len(x) > 0 and isinstance(x[0], (list, tuple)) else [y]
        rec.events.append([1, sum(1 for v in ys if not (isinstance(v, str) and v == "F")), rec.cl])
        return out

    def update_next(self):
        if rec.depth > 0:
            return o_upd(self)
        rec.depth, rec.cl = 1, []
        try:
            out = o_upd(self)
        finally:
            rec.depth = 0
        rec.events.append([2, rec.cl])
        return out

    # the CBO-level calls (public Search.ask / Search.tell): the input of the wrapper model (Model.wrap, 805)
    from deephyper.hpo._search import Search

    s_ask, s_tell = Search.ask, Search.tell

    def _is_failure(obj):
        if isinstance(obj, str):
            return obj[:1] == "F"
        try:
            return any(isinstance(o, str) and o[:1] == "F" for o in obj)
        except TypeError:
            return False

    def search_ask(self, n=1):
        rec.cops.append([0])
        rec.in_cbo += 1
        try:
            return s_ask(self, n)
        finally:
            rec.in_cbo -= 1

    def search_tell(self, results):
        objs = [tuple(r)[1] for r in results]
        rec.cops.append([1, any((not _is_failure(o)) or rec.ff != "ignore" for o in objs), len(objs) > 0])
        rec.in_cbo += 1
        try:
            return s_tell(self, results)
        finally:
            rec.in_cbo -= 1

    Optimizer.ask, Optimizer.tell, Space.rvs = ask, tell, rvs
    Search.ask, Search.tell = search_ask, search_tell
    if o_upd is not None:
        Optimizer.update_next = update_next
    try:
        yield
    finally:
        Optimizer.ask, Optimizer.tell, Space.rvs = o_ask, o_tell, o_rvs
        Search.ask, Search.tell = s_ask, s_tell
        if o_upd is not None:
            Optimizer.update_next = o_upd


# ------------------------------------------------------------------ spaces
def dim_values(d):
    if d[0] == "int":
        return list(range(d[1], d[2] + 1))
    return list(d[1])


def space_size(dims, conds=None):
    n = 1
    for d in dims:
        if d[0] == "real":
            return None
        n *= len(dim_values(d))
    if conds:
        # conditional hyperparameters: an inactive one takes its canonical (first / lower bound) value: count the canonical forms
        import itertools

        seen = set()
        for pt in itertools.product(*[range(len(dim_values(d))) for d in dims]):
            pt = list(pt)
            for child, parent, vals in conds:
                if pt[parent] not in vals:
                    pt[child] = 0
            seen.add(tuple(pt))
        n = len(seen)
    return n


def mk_problem(dims, conds=None):
    from deephyper.hpo import HpProblem

    p = HpProblem()
    hps = []
    for i, d in enumerate(dims):
        name = "x%d" % i
        if d[0] == "int":
            hps.append(p.add_hyperparameter((int(d[1]), int(d[2])), name))
            continue
        hps.append(_add_hp(p, d, name))
    for child, parent, vals in conds or []:
        import ConfigSpace as cs

        p.add_condition(cs.InCondition(hps[child], hps[parent], [dim_values(dims[parent])[v] for v in vals]))
    return p


def _add_hp(p, d, name):
    if d[0] == "real":
        return p.add_hyperparameter((float(d[1]), float(d[2])), name)
    if d[0] == "catf":  # categorical hyperparameter with numeric (float / mixed) choices
        import ConfigSpace.hyperparameters as csh

        return p.add_hyperparameter(csh.CategoricalHyperparameter(name, choices=list(d[1])))
    # "cat": list of strings -> categorical ; "ord" / "ordmix": list of numbers -> ordinal (ordmix: ints and floats mixed)
    return p.add_hyperparameter(list(d[1]), name)


def index_vector(dims, params):
    out = []
    for i, d in enumerate(dims):
        v = _norm(params["x%d" % i])
        if d[0] == "real":
            out.append(int(1000 * (v - d[1]) / (d[2] - d[1])))
        else:
            out.append(dim_values(d).index(v))
    return out


# ------------------------------------------------------------------ CBO searches
def run_cbo(case):
    from deephyper.evaluator import Evaluator
    from deephyper.hpo import CBO

    dims = case["dims"]
    count = [0]
    target = [None]
    fail = case.get("fail", ["none"])

    def objective(params):
        iv = index_vector(dims, params)
        count[0] += 1
        k = count[0]
        s = sum((i + 1) * v for i, v in enumerate(iv))
        if fail[0] == "mod" and s % fail[1] == fail[2]:
            return k, iv, "F_fail"
        if fail[0] == "after" and k > fail[1]:
            return k, iv, "F_fail"
        if fail[0] == "window" and fail[1] < k <= fail[2]:
            return k, iv, "F_fail"
        y = float(sum(w * v for w, v in zip(case["weights"], iv)))
        if case.get("slow") and k == case["slow"][0]:
            target[0] = iv  # this job stays running for a long time; it is the best configuration
        if target[0] is not None:
            y = -float(sum((a - b) ** 2 for a, b in zip(iv, target[0])))  # the optimum is a configuration whose result is not told yet
        if case.get("moo"):
            return k, iv, (y, float(-sum(iv)))
        return k, iv, y

    async def run(job):
        k, iv, y = objective(job.parameters)
        n_yields = (sum(iv) + k) % (case.get("yields", 0) + 1)
        if case.get("slow") and k == case["slow"][0]:
            n_yields = case["slow"][1]  # uneven durations: this job is still running while many others are asked and told
        for _ in range(n_yields):
            await asyncio.sleep(0)
        return y

    rec = Recorder()
    d = tempfile.mkdtemp(prefix="vp_c08_")
    error, rows = None, None
    try:
        with warnings.catch_warnings():
            warnings.simplefilter("ignore")
            ev = Evaluator.create(run, method="serial", method_kwargs={"num_workers": case["nw"]})
            kw = {}
            if case["sur"] in ("ET", "RF"):
                kw["surrogate_model_kwargs"] = dict(n_estimators=case.get("trees", 8), min_samples_split=2)
            conds = case.get("conds")

            def mk_search(evaluator, log_dir, seed):
                sr = CBO(mk_problem(dims, conds), evaluator, random_state=seed, log_dir=log_dir, surrogate_model=case["sur"],
                         multi_point_strategy=case["strat"], acq_func=case.get("acq", "UCBd"), n_points=case["npts"],
                         n_initial_points=case["ninit"], filter_failures=case.get("ff", "min"),
                         acq_optimizer=case.get("acq_opt", "auto"), update_prior=bool(case.get("update_prior")),
                         acq_optimizer_freq=case.get("freq", 10), **kw)
                if case.get("gather") == "ALL":
                    sr.gather_type = "ALL"
                return sr

            mode = case.get("mode", "search")
            rec.ff = case.get("ff", "min")
            if conds:
                # two points that differ only in an inactive hyperparameter are the same configuration
                def canon(key):
                    key = list(key)
                    for child, parent, vals in conds:
                        if dim_values(dims[parent]).index(key[parent]) not in vals:
                            key[child] = dim_values(dims[child])[0]
                    return tuple(key)

                rec.canon = canon
            df0 = None
            has_fit = any(c0[0] == "fit" for c0 in case.get("calls") or []) or any(o[0] == "fit" for o in case.get("ops") or [])
            if mode == "warm" or has_fit:
                # a first search (not observed) leaves a checkpoint; the observed search is warm-started from it (fit_surrogate)
                d0 = os.path.join(d, "first")
                ev0 = Evaluator.create(run, method="serial", method_kwargs={"num_workers": case["nw"]})
                df0 = mk_search(ev0, d0, case["seed"] + 1).search(max_evals=case.get("warm_evals", 4))
                df0_path = os.path.join(d0, "checkpoint.csv")
                df0.to_csv(df0_path, index=False)
                with contextlib.suppress(Exception):
                    ev0.close()
            search = mk_search(ev, os.path.join(d, "main"), case["seed"])
            with observed(rec):
                try:
                    df = None
                    if mode == "warm":
                        search.fit_surrogate(df0)
                    # several search() calls on the same object (budgets accumulate); strict: MaximumJobsSpawnReached may end a call
                    # in the middle of submitting an asked batch
                    for n_call, strict in case["calls"] if "calls" in case and case["calls"] is not None else [[case["evals"], False]]:
                        if n_call == "fit":
                            # fit_surrogate in the MIDDLE of a history, on the same object (checkpoint given as DataFrame or as path):
                            # what was proposed before must stay known to the duplicate filter
                            search.fit_surrogate(df0 if strict == "df" else df0_path)
                            continue
                        df = search.search(max_evals=n_call, max_evals_strict=bool(strict))
                    if mode == "asktell":
                        # the public ask / tell interface driven by the caller, in any order (asks without tell, partial tells);
                        # the caller edits the dictionaries it got from ask() after use
                        pending = []
                        for op in case["ops"]:
                            if op[0] == "ask":
                                got = search.ask(op[1])
                                pending.extend((dict(g), g) for g in got)
                            elif op[0] == "fit":
                                search.fit_surrogate(df0 if op[1] == "df" else df0_path)
                            elif op[0] == "hold":
                                # the last asked configurations are slow jobs: their results are not told (for now); the objective
                                # is the best at the first of them
                                k = min(op[1], len(pending))
                                if k:
                                    held, pending = pending[-k:], pending[:-k]
                                    if target[0] is None and case.get("peak"):
                                        target[0] = index_vector(dims, held[0][0])
                            elif op[0] == "tell":
                                k = min(op[1], len(pending))
                                batch, pending = pending[:k], pending[k:]
                                results = [(cfgc, objective(cfgc)[2]) for cfgc, _g in batch]
                                for _c, g in batch:
                                    for key in list(g):
                                        g[key] = None  # what ask() returned belongs to the caller
                                search.tell(results)
                            else:
                                df = search.search(max_evals=op[1], max_evals_strict=bool(op[2]))
                        df = None  # the rows of the results only cover the search() calls
                    if df is None:
                        raise _NoRows()
                    cols = ["p:x%d" % i for i in range(len(dims))]
                    df = df.assign(_jid=[int(str(j).split(".")[-1]) for j in df["job_id"]]).sort_values("_jid")
                    # the results are read back from results.csv: floats may differ by an ulp (pandas' parser): a row is identified
                    # with the first not yet matched proposal that is equal up to 1e-9 (relative) on the float coordinates
                    praw = [(t, [_norm(v) for v in k]) for e in rec.events if e[0] == 0 for t, k in zip(e[4], e[5])]
                    used, rows_t = [False] * len(praw), []
                    for r in df[cols].values.tolist():
                        r = [_norm(v) for v in r]
                        for j, (t, k) in enumerate(praw):
                            if not used[j] and _close(r, k):
                                used[j] = True
                                rows_t.append(t)
                                break
                        else:
                            rows_t.append(-1)
                    rows = [[t for t, _ in praw], rows_t]
                except _NoRows:
                    rows = None
                except Exception as e:  # noqa: BLE001 - reported as a failure of the case
                    error = "%s: %s" % (type(e).__name__, str(e)[:300])
            with contextlib.suppress(Exception):
                ev.close()
    finally:
        shutil.rmtree(d, ignore_errors=True)
    top = rec.top
    cfg = [top is not None and top.base_estimator_ is None, top is not None and top.acq_optimizer != "sampling", True]
    n0 = int(top.n_initial_points_) if top is not None else case["ninit"]
    return rec, cfg, rows, error, n0


class _NoRows(Exception):
    pass


def locate(events, idx):
    """event index containing the idx-th proposal"""
    k = 0
    for i, e in enumerate(events):
        if e[0] == 0:
            k += len(e[4])
            if idx < k:
                return i
    return len(events)


def judge(res, cfg, n0, inits, events, N, extra_rows=None, strict_coverage=False):
    """Shared verdict of the trace streams: direct oracle first, then acceptance."""
    events = [e[:5] for e in events]
    props = [t for e in events if e[0] == 0 for t in e[4]]
    npre = N if N is not None else len(props)
    acc, ridx, rcode, hb, _sampled = model().call(F_REPLAY, [cfg, n0, inits, events])
    ok, first = model().call(F_PREFIX, [npre, props])
    hyps = [h for h, _ in hb]
    res["desc"] += ["hyp=" + HYP.get(h, str(h)) for h in sorted(set(hyps))] + ["branch=" + BRANCH.get(b, str(b)) for b in sorted(set(b for _, b in hb))]
    res["nontrivial"] = len(set(props)) >= npre > 0
    if not ok:
        ei = locate(events, first)
        if acc or ei < ridx:
            h, b = hb[ei]
            where = "%s/%s" % (BRANCH.get(b, str(b)), HYP.get(h, str(h)))
            if h == 1 and not strict_coverage:  # the candidate sample did not contain any unproposed point: the repeat is allowed
                res["desc"].append("coverage_miss")
                where = None
            # strict_coverage: 40 x N uniform candidates miss an unproposed configuration with probability < e^-40; a sample that
            # contains nothing new although the space is not exhausted means that the sampling itself is broken: not excused
        else:
            where = "rejected:" + REJECT.get(rcode, str(rcode))
        if where is not None:
            res["sig"]["where"] = where
            return dict(res, ok=False, kind="oracle", clause="duplicate",
                        detail=dict(first_repeat_index=first, proposals=props, N=N, event=_short(events[ei]) if ei < len(events) else None, accepted=bool(acc)))
    if not acc:
        res["sig"]["where"] = REJECT.get(rcode, str(rcode))
        return dict(res, ok=False, kind="corr", clause="reject:" + REJECT.get(rcode, str(rcode)),
                    detail=dict(rejected_event=ridx, event=_short(events[ridx]), proposals=props, hyps=hyps))
    sched = [(h, b) for h, b in hb if h >= 2]
    if sched:
        # C08_cbo_schedule: the ask / tell loop of CBO.search only produces the codes 0 and 1; anything else means that the search
        # asked twice without telling (or used an option outside the property): the theorem no longer covers this search
        h, b = sched[0]
        res["sig"]["where"] = "%s/%s" % (BRANCH.get(b, str(b)), HYP.get(h, str(h)))
        return dict(res, ok=False, kind="corr", clause="schedule:" + HYP.get(h, str(h)), detail=dict(hyps=hyps, proposals=props))
    if ok and all(h == 0 for h in hyps) and len(set(props)) != len(props):
        # accepted, every hypothesis of C08_nodup holds, yet a repeat (beyond the first N): contradicts the theorem -> harness/model bug
        return dict(res, ok=False, kind="corr", clause="theorem_contradicted", detail=dict(proposals=props))
    if extra_rows is not None:
        props_r, extra_rows = extra_rows
        okr, firstr = model().call(F_PREFIX, [npre, extra_rows])
        left = list(props_r)
        stray = []
        for t in extra_rows:
            if t in left:
                left.remove(t)
            else:
                stray.append(t)
        if stray:
            return dict(res, ok=False, kind="corr", clause="rows_not_proposed", detail=dict(rows=extra_rows, proposals=props_r, stray=stray))
        # rows are in submission order; they are the proposals unless a job was still running when the search stopped
        if extra_rows == props_r[: len(extra_rows)]:
            if not okr and ok:
                return dict(res, ok=False, kind="oracle", clause="duplicate_rows", detail=dict(rows=extra_rows, first_repeat_index=firstr))
        else:
            res["desc"].append("rows_not_a_prefix")
    return res


def _short(e):
    def cut(l):
        return l if len(l) <= 40 else l[:40] + ["...%d" % len(l)]
    if e[0] == 0:
        return [0, e[1], e[2], [cut(c) for c in e[3]], e[4]]
    return [e[0]] + [x if not isinstance(x, list) else [cut(c) for c in x] for x in e[1:]]


def has_fit_case(case):
    return any(c0[0] == "fit" for c0 in case.get("calls") or []) or any(o[0] == "fit" for o in case.get("ops") or [])


def check_cbo(case):
    N = space_size(case["dims"], case.get("conds"))
    res = dict(ok=True, kind="oracle", clause="", nontrivial=False,
               sig=dict(strategy=case["strat"], surrogate=case["sur"], ff=case.get("ff", "min"),
                        calls="strict" if any(st is True for _, st in case.get("calls") or []) else ("multi" if case.get("calls") else "one")),
               desc=["sur=" + case["sur"], "strat=" + case["strat"], "nw=%d" % case["nw"], "N=%s" % N, "ff=" + case.get("ff", "min"),
                     "dims=" + "+".join(sorted(set(d[0] for d in case["dims"]))),
                     "calls=%d" % len(case.get("calls") or [0]), "mode=" + case.get("mode", "search"), "pending_optimum" if case.get("peak") or case.get("slow") else "plain_objective", "acq=" + case.get("acq", "UCBd"), "acq_opt=" + case.get("acq_opt", "auto"),
                     "cond" if case.get("conds") else "product", "moo" if case.get("moo") else "single_objective", "strict" if any(st is True for _, st in case.get("calls") or []) else "not_strict", "fit_in_the_middle" if has_fit_case(case) else "no_mid_fit", "fail=" + case.get("fail", ["none"])[0], "gather=" + case.get("gather", "BATCH")])
    rec, cfg, rows, error, n0 = run_cbo(case)
    if error is not None:
        kind = error.split(":")[0]
        res["sig"]["exc"] = kind
        return dict(res, ok=False, clause="exception:" + kind, detail=dict(error=error, events=[_short(e) for e in rec.events][-6:]))
    if rec.stray:
        res["desc"].append("stray_rvs")
    # every candidate sample has the size that was asked for (n_points)
    bad = sorted(x for x in rec.rvs_sizes if x[0] != x[1] or x[0] != case["npts"])
    if bad:
        return dict(res, ok=False, kind="corr", clause="rvs_size", detail=dict(asked_got=bad, n_points=case["npts"]))
    # the CBO wrapper (Model.wrap): the kinds of the optimizer-level events are the ones predicted from the CBO-level calls, and alternate
    kinds = [e[0] for e in rec.events]
    same, predicted, alternates = model().call(F_WRAP, [rec.cops, kinds])
    out = judge(res, cfg, n0, [], rec.events, N, extra_rows=rows, strict_coverage=N is not None and not case.get("update_prior"))
    if out["ok"] and (not same or not alternates):
        out["sig"]["where"] = "wrapper"
        return dict(out, ok=False, kind="corr", clause="wrapper_kinds" if not same else "not_alternating",
                    detail=dict(calls=rec.cops, observed=kinds, predicted=predicted))
    return out


EXOTIC = [[1.0, 1.0000000000000002, 1.0000001, 0.0], [0.1, 0.30000000000000004, 0.3, 1e-300], [9007199254740992.0, 9007199254740994.0, 5, -9007199254740994.0],
          [0, 1e-12, -1e-12, 1], [1e16, 1e16 + 2, 1.5]]
MIXED = [[0.5, 1, 2], [1, 2.5, 4], [0, 0.25, 1, 3], [1, 2, 4.0], [0.1, 1, 10, 100], [2, 3.5]]
FLOATCAT = [[0.5, 1.0, 2.0], [0.1, 0.2, 0.4, 0.8], [1.0, 2.0], [0.5, 1, 2]]


def gen_dims(rng, lo=4, hi=64, mixed=False):
    while True:
        dims = []
        for j in range(rng.randint(1, 3)):
            k = rng.choice(["int", "int", "cat", "cat", "ord"])
            if mixed:
                k = rng.choice(["ordmix", "ordmix", "catf"]) if j == 0 else rng.choice(["int", "int", "cat", "ordmix", "catf"])
            if k == "ordmix":
                dims.append(["ordmix", list(rng.choice(MIXED))])
                continue
            if k == "catf":
                dims.append(["catf", list(rng.choice(FLOATCAT))])
                continue
            if k == "int":
                a = rng.randint(-2, 3)
                dims.append(["int", a, a + rng.randint(1, 7)])
            elif k == "cat":
                dims.append(["cat", ["a", "b", "c", "d", "e", "f", "g", "h"][: rng.randint(2, 8)]])
            else:
                dims.append(["ord", sorted(rng.sample([1, 2, 3, 4, 5, 8, 16, 32], rng.randint(2, 5)))])
        if mixed:
            rng.shuffle(dims)
        n = space_size(dims)
        if lo <= n <= hi:
            return dims


def gen_cont_dims(rng):
    dims = [["real", float(rng.choice([0, -5, 1])), float(rng.choice([10, 20, 100]))]]
    for _ in range(rng.randint(0, 2)):
        k = rng.choice(["real", "int", "cat"])
        if k == "real":
            dims.append(["real", 0.0, 1.0])
        elif k == "int":
            dims.append(["int", 0, rng.choice([3, 50, 1000])])
        else:
            dims.append(["cat", ["a", "b", "c", "d"][: rng.randint(2, 4)]])
    rng.shuffle(dims)
    return dims


def gen_cbo(count, surrogates, big=False, cont=False):
    def g(rng, tier):
        n = count * (3 if tier == "search" else 1)
        for i in range(n):
            mixed = (not cont) and i % 3 == 1
            dims = gen_cont_dims(rng) if cont else gen_dims(rng, 4, 24 if (tier == "search" or i % 3) and not big else 64, mixed=mixed)
            N = space_size(dims) or rng.randint(12, 40)
            sur = surrogates[i % len(surrogates)]
            if mixed and sur == "DUMMY":
                sur = "ET"  # the model side (inverse_transform) is where the numeric types change
            strat = rng.choice(["cl_min", "cl_mean", "cl_max", "qUCB", "qUCBd", "qUCB", "qUCBd"])
            if sur == "GP" and strat == "qUCBd":
                strat = "qUCB"
            nw = rng.choice([1, 1, 2, 3, 4, 5, 6, 8])
            ninit = rng.randint(1, max(1, min(10, N // 2 if not mixed else N // 3)))
            fm = rng.choice(["none", "none", "mod", "after", "window", "mod"])
            if fm == "mod":
                m = rng.randint(2, 5)
                fail = ["mod", m, rng.randrange(m)]
            elif fm == "after":
                fail = ["after", rng.randint(0, N)]
            elif fm == "window":
                a = rng.randint(0, N)
                fail = ["window", a, a + rng.randint(1, 12)]
            else:
                fail = ["none"]
            evals = min(N + rng.randint(0, 2 * nw), 90)
            c = dict(dims=dims, sur=sur, strat=strat, nw=nw, seed=rng.randrange(10 ** 6), ninit=ninit, evals=evals, npts=max(200, 40 * N) if not cont else rng.choice([200, 500]),
                     ff=rng.choice(["min", "mean", "ignore", "ignore"] if fm != "none" else ["min", "mean", "ignore"]), fail=fail,
                     acq="UCB" if sur == "GP" else rng.choice(["UCBd", "UCBd", "UCB", "EI"]),
                     weights=[rng.randint(-3, 3) for _ in dims], yields=rng.choice([0, 0, 1, 3]), gather=rng.choice(["BATCH", "BATCH", "ALL"]))
            if sur == "GP":
                c["evals"] = min(c["evals"], 28)
                c["freq"] = rng.choice([1, 2, 10])
            if not cont and sur != "GP":
                if len(dims) >= 2 and rng.random() < 0.25:
                    # the last hyperparameter is active only for some values of the first one
                    npar = len(dim_values(dims[0]))
                    vals = sorted(rng.sample(range(npar), rng.randint(1, max(1, npar - 1))))
                    if len(vals) < npar:
                        c["conds"] = [[len(dims) - 1, 0, vals]]
                        N = space_size(dims, c["conds"])
                        c["evals"] = min(N + rng.randint(0, 2 * nw), 90)
                if rng.random() < 0.12:
                    c["moo"] = True
                if rng.random() < 0.08:
                    c["update_prior"] = True
                if sur != "DUMMY" and rng.random() < 0.2:
                    c["acq"] = rng.choice(["PI", "gp_hedge", "EI"])
                if tier == "thorough" and sur == "ET" and rng.random() < 0.08 and all(d[0] in ("int", "cat") for d in dims):
                    # the genetic acquisition optimizer (result not restricted to the candidates: F12 fallback). Numeric ordinals are left
                    # out: "ga" returns values between the ordinal's values (not a member of the space - a C02 matter, reported)
                    c["acq_opt"] = "ga"
            if i % 8 == 5 and not cont:
                # warm start: the observed search is fitted on the checkpoint of another search (n_initial_points becomes 0)
                c["mode"], c["warm_evals"] = "warm", rng.randint(2, 8)
                if c["ff"] == "ignore" and fail[0] != "none":
                    c["ff"] = "mean"  # fit_surrogate tells the failures of the checkpoint even with filter_failures="ignore" and the fit raises (C06's business)
            elif i % 8 == 7 and not cont:
                # the public ask / tell interface after a first search() call, in any order
                c["mode"], c["calls"] = "asktell", [[rng.randint(1, max(1, min(c["evals"], ninit + nw))), rng.random() < 0.4]]
                ops = []
                for _k in range(rng.randint(3, 10)):
                    r = rng.random()
                    ops.append(["ask", rng.randint(1, 4)] if r < 0.5 else ["tell", rng.randint(1, 5)] if r < 0.9 else ["search", rng.randint(1, 4), rng.random() < 0.5])
                if rng.random() < 0.6:
                    ops.insert(rng.randint(1, len(ops)), ["fit", rng.choice(["df", "path"])])
                    ops.append(["ask", rng.randint(1, 3)])
                    c["warm_evals"] = rng.randint(2, 8)
                c["ops"] = ops
            elif i % 4 == 2:
                # the same budget spent in 2..4 search() calls, some of them strict (the call may stop between an ask and its tell)
                left, calls = c["evals"], []
                for _k in range(rng.randint(2, 4)):
                    if left <= 0:
                        break
                    n_call = rng.randint(1, max(1, min(left, ninit + 2 * nw + 3)))
                    calls.append([n_call, rng.random() < 0.6])
                    left -= n_call
                if left > 0:
                    calls.append([left, rng.random() < 0.5])
                if len(calls) >= 2 and rng.random() < 0.6:
                    # search, then fit_surrogate on the SAME object, then search again
                    calls.insert(rng.randint(1, len(calls) - 1), ["fit", rng.choice(["df", "path"])])
                    c["warm_evals"] = rng.randint(2, 8)
                c["calls"] = calls
            yield c
    return g


def gen_gp_pending(count):
    """GP surrogate (acq_optimizer lbfgs on every fit) on small integer spaces with configurations that are asked but not told for a
    long time, the objective being the best exactly there: the acquisition optimizer is attracted by a pending configuration."""
    def g(rng, tier):
        for i in range(count * (2 if tier == "search" else 1)):
            dims = [["int", 0, rng.choice([5, 7, 9])]] + ([["int", 0, rng.choice([2, 3])]] if rng.random() < 0.7 else [])
            N = space_size(dims)
            ninit = rng.randint(3, 6)
            c = dict(dims=dims, sur="GP", strat=rng.choice(["cl_max", "cl_min", "qUCB"]), nw=1, seed=rng.randrange(10 ** 6), ninit=ninit,
                     evals=min(N, ninit + rng.randint(8, 13)), npts=40 * N, ff="min", fail=["none"], acq="UCB", weights=[1 for _ in dims],
                     yields=0, gather="BATCH", freq=1)
            if i % 2 == 0:
                # the public ask / tell interface: a first batch with one or two slow jobs, then one ask / one tell at a time
                first = ninit + rng.randint(1, 2)
                ops = [["ask", first], ["hold", rng.randint(1, 2)], ["tell", first]]
                for _k in range(rng.randint(8, 13)):
                    ops += [["ask", 1], ["tell", 1]]
                c.update(mode="asktell", calls=[], ops=ops, peak=True)
            else:
                # search() with several workers and one job that runs much longer than the others
                c.update(nw=rng.randint(2, 4), yields=rng.choice([0, 1, 2]), slow=[rng.randint(1, ninit + 2), 400])
            yield c
    return g


def shrink_cbo(case):
    if case.get("ops"):
        ops = case["ops"]
        for i in range(len(ops) - 1, -1, -1):
            yield dict(case, ops=ops[:i] + ops[i + 1:])
    if case.get("slow") and case["slow"][1] > 20:
        yield dict(case, slow=[case["slow"][0], case["slow"][1] // 2])
    for key in ("moo", "update_prior", "conds", "acq_opt"):
        if case.get(key):
            yield {k: v for k, v in case.items() if k != key}
    if case.get("mode") == "warm" and case["warm_evals"] > 1:
        yield dict(case, warm_evals=case["warm_evals"] - 1)
    calls = case.get("calls")
    if calls:
        for i in range(len(calls)):
            if len(calls) > 1:
                yield dict(case, calls=calls[:i] + calls[i + 1:])
            if calls[i][0] == "fit":
                continue
            if calls[i][0] > 1:
                yield dict(case, calls=calls[:i] + [[calls[i][0] - 1, calls[i][1]]] + calls[i + 1:])
            if calls[i][1]:
                yield dict(case, calls=calls[:i] + [[calls[i][0], False]] + calls[i + 1:])
    if case["evals"] > 2 and not calls:
        yield dict(case, evals=case["evals"] - max(1, case["evals"] // 4))
        yield dict(case, evals=case["evals"] - 1)
    if case["nw"] > 1:
        yield dict(case, nw=case["nw"] - 1)
    if case["ninit"] > 1:
        yield dict(case, ninit=case["ninit"] - 1)
    if len(case["dims"]) > 1 and not case.get("conds"):
        for i in range(len(case["dims"])):
            yield dict(case, dims=case["dims"][:i] + case["dims"][i + 1:], weights=case["weights"][:i] + case["weights"][i + 1:])
    if case.get("yields"):
        yield dict(case, yields=0)
    if case.get("gather") == "ALL":
        yield dict(case, gather="BATCH")
    if case.get("fail", ["none"])[0] != "none" and case.get("ff") != "ignore":
        yield dict(case, fail=["none"])


# ------------------------------------------------------------------ optimizer-level histories (any order of ask / tell / update_next)
def mk_dimensions(dims):
    from deephyper.skopt.space import Categorical

    out = []
    for d in dims:
        if d[0] == "int":
            out.append((int(d[1]), int(d[2])))
        else:
            out.append(Categorical([str(v) for v in d[1]] if d[0] == "cat" else list(d[1])))
    return out


def run_opt(case):
    import numpy as np
    from deephyper.skopt import Optimizer
    from deephyper.skopt.learning import ExtraTreesRegressor

    dims = case["dims"]
    vals = [dim_values(d) if d[0] != "cat" else [str(v) for v in dim_values(d)] for d in dims]
    rec = Recorder()
    inits = [[vals[i][j % len(vals[i])] for i, j in enumerate(p)] for p in case.get("inits", [])]
    base = None if case["sur"] == "DUMMY" else "GP" if case["sur"] == "GP" else ExtraTreesRegressor(n_estimators=6, min_samples_split=2, random_state=case["seed"])
    error = None
    with warnings.catch_warnings():
        warnings.simplefilter("ignore")
        opt = Optimizer(mk_dimensions(dims), base_estimator=base, n_initial_points=case["ninit"], initial_points=inits or None,
                        acq_func="LCB", acq_func_kwargs=dict(kappa=1.96), acq_optimizer="auto" if case["sur"] == "GP" else "sampling",
                        random_state=case["seed"],
                        acq_optimizer_kwargs=dict(n_points=case["npts"], filter_failures=case.get("ff", "mean"), acq_optimizer_freq=1))
        pending = []
        step = 0
        oneshot_raised = False
        with observed(rec):
            try:
                for op in case["ops"]:
                    step += 1
                    if op[0] == "ask":
                        n, strat = op[1], op[2]
                        if n > 1 and strat in ("topk", "boltzmann"):
                            # outside the property (hypothesis code 4); boltzmann may raise on equal acquisition values (NaN probabilities)
                            try:
                                opt.ask(n_points=n, strategy=strat)
                            except ValueError:
                                oneshot_raised = True
                            break
                        out = opt.ask() if n == 0 else opt.ask(n_points=n, strategy=strat)
                        pending.extend([out] if n == 0 else out)
                    elif op[0] == "tell":
                        k = min(op[1], len(pending))
                        if k == 0:
                            continue
                        if case.get("peak") and len(pending) > k:
                            # asynchronous history: the newest results come back first, the oldest asked point stays pending and the
                            # objective (minimised) is the best there
                            xs, pending = pending[-k:], pending[:-k]
                            tv = [vals[i].index(_norm(v)) for i, v in enumerate(pending[0])]
                        else:
                            xs, pending = pending[:k], pending[k:]
                            tv = None
                        ys = []
                        for j, x in enumerate(xs):
                            iv = [vals[i].index(_norm(v)) for i, v in enumerate(x)]
                            y = float(sum((i + 1) * v for i, v in enumerate(iv))) if tv is None else float(sum((a - b) ** 2 for a, b in zip(iv, tv)))
                            ys.append("F" if (sum(iv) + j) % op[2] == 0 and op[2] > 1 else y)
                        if k == 1 and op[3] and ys[0] != "F":  # a single failure has to be told in list form
                            opt.tell(xs[0], ys[0])
                        else:
                            opt.tell(xs, ys)
                    elif op[0] == "update":
                        opt.update_next()
            except Exception as e:  # noqa: BLE001
                error = "%s: %s (op %d %r)" % (type(e).__name__, str(e)[:200], step, case["ops"][step - 1])
    cfg = [opt.base_estimator_ is None, opt.acq_optimizer != "sampling", True]
    return rec, cfg, rec.tokens(inits), error


def check_opt(case):
    N = space_size(case["dims"])
    res = dict(ok=True, kind="oracle", clause="", nontrivial=False, sig=dict(surrogate=case["sur"], level="optimizer"),
               desc=["sur=" + case["sur"], "N=%s" % N, "ops=%d" % len(case["ops"])])
    rec, cfg, inits, error = run_opt(case)
    events = [e[:5] for e in rec.events]
    if error is not None:
        # the model predicts the documented RuntimeError/AttributeError (no _next_x): the history up to the failing call must be accepted
        kind = error.split(":")[0]
        acc, ridx, rcode, hb, _ = model().call(F_REPLAY, [cfg, case["ninit"], inits, events])
        res["sig"]["exc"] = kind
        return dict(res, ok=False, clause="exception:" + kind, detail=dict(error=error, accepted_prefix=bool(acc)))
    acc, ridx, rcode, hb, _sampled = model().call(F_REPLAY, [cfg, case["ninit"], inits, events])
    hyps = [h for h, _ in hb]
    props = [t for e in events if e[0] == 0 for t in e[4]]
    res["desc"] += ["hyp=" + HYP.get(h, str(h)) for h in sorted(set(hyps))] + ["branch=" + BRANCH.get(b, str(b)) for b in sorted(set(b for _, b in hb))]
    res["nontrivial"] = len(set(b for _, b in hb)) >= 4
    if not acc:
        rname = REJECT.get(rcode, str(rcode))
        qlcb = any(e[0] == 0 and e[1] >= 2 and e[2] in (5, 6) for e in events[: ridx + 1])
        res["sig"]["strategy"] = "qLCB" if qlcb else (STRAT_NAME.get(events[ridx][2], "?") if events[ridx][0] == 0 else "-")
        detail = dict(rejected_event=ridx, event=_short(events[ridx]), proposals=props, hyps=hyps, ops=case["ops"][: ridx + 2])
        if all(h == 0 for h in hyps) and events[ridx][0] == 0:
            # every hypothesis held so far and the model cannot explain this ask: does it repeat a proposal while the space is not exhausted?
            pre = [t for e in events[: ridx + 1] if e[0] == 0 for t in e[4]]
            ok, first = model().call(F_PREFIX, [N if N is not None else len(pre), pre])
            if not ok:
                res["sig"]["where"] = "rejected:" + rname
                return dict(res, ok=False, kind="oracle", clause="duplicate", detail=dict(detail, first_repeat_index=first))
        res["sig"]["where"] = rname
        return dict(res, ok=False, kind="corr", clause="reject:" + rname, detail=detail)
    # the theorem's conclusion on the longest prefix of the history whose hypothesis codes are all 0
    k = 0
    while k < len(hyps) and hyps[k] == 0:
        k += 1
    pre = [t for e in events[:k] if e[0] == 0 for t in e[4]]
    ok, first = model().call(F_PREFIX, [len(pre), pre])
    if not ok:
        return dict(res, ok=False, kind="oracle", clause="duplicate", detail=dict(first_repeat_index=first, proposals=pre))
    return res


def gen_opt(count):
    def g(rng, tier):
        for i in range(count * (3 if tier == "search" else 1)):
            dims = gen_dims(rng, 4, 30, mixed=(i % 4 == 1))
            N = space_size(dims)
            ops = []
            for _ in range(rng.randint(3, 14)):
                r = rng.random()
                if r < 0.45:
                    n = rng.choice([0, 0, 1, 2, 3, 4, 6])
                    ops.append(["ask", n, rng.choice(["cl_min", "cl_mean", "cl_max", "qLCB", "qLCB", "cl_max", "qLCB", "topk", "boltzmann"])])
                elif r < 0.9:
                    ops.append(["tell", rng.choice([1, 1, 2, 3, 8]), rng.choice([1, 1, 1, 2, 3]), rng.random() < 0.5])
                else:
                    ops.append(["update"])
            # one-shot batches (transformed points, F03 of C02) pollute sampled: only as the last call of a history
            ops = [op for op in ops if not (op[0] == "ask" and op[2] in ("topk", "boltzmann"))]
            if rng.random() < 0.15:
                ops.append(["ask", rng.choice([2, 3]), rng.choice(["topk", "boltzmann"])])
            ninit = rng.randint(1, 5)
            inits = [[rng.randrange(8) for _ in dims] for _ in range(rng.choice([0, 0, 0, 1, 3]))]
            if i % 8 == 5:
                # GP (lbfgs on every fit) on a small integer space, partial tells (newest first): the oldest asked points stay pending and
                # the objective is the best there
                dims = [["int", 0, rng.choice([5, 7, 9])]] + ([["int", 0, rng.choice([2, 3])]] if rng.random() < 0.6 else [])
                N = space_size(dims)
                ninit = rng.randint(3, 5)
                ops = [["ask", ninit + 2, "cl_max"], ["tell", ninit + 1, 1, False]]
                for _k in range(rng.randint(5, 10)):
                    ops += [["ask", rng.choice([0, 0, 1, 2]), rng.choice(["cl_max", "qLCB"])], ["tell", rng.choice([1, 1, 2]), 1, rng.random() < 0.5]]
                yield dict(dims=dims, sur="GP", seed=rng.randrange(10 ** 6), ninit=ninit, npts=40 * N, ops=ops, inits=[], ff="mean", peak=True)
                continue
            yield dict(dims=dims, sur=rng.choice(["ET", "ET", "ET", "DUMMY"]), seed=rng.randrange(10 ** 6), ninit=ninit, npts=max(100, 30 * N),
                       ops=ops, inits=inits, ff=rng.choice(["mean", "max"]))
    return g


def shrink_opt(case):
    ops = case["ops"]
    for i in range(len(ops) - 1, -1, -1):
        yield dict(case, ops=ops[:i] + ops[i + 1:])
    if case.get("inits"):
        yield dict(case, inits=case["inits"][:-1])
    if len(case["dims"]) > 1:
        for i in range(len(case["dims"])):
            yield dict(case, dims=case["dims"][:i] + case["dims"][i + 1:], inits=[p[:i] + p[i + 1:] for p in case.get("inits", [])])


# ------------------------------------------------------------------ _filter_duplicated against filter_dup
def check_filter(case):
    from deephyper.skopt import Optimizer

    dims = case["dims"]
    vals = [dim_values(d) if d[0] != "cat" else [str(v) for v in dim_values(d)] for d in dims]

    import numpy as np

    # the same value with another type: python int / float, numpy scalars (what inverse_transform returns), bool / numpy bool
    def styled(v, k):
        if isinstance(v, bool):
            return [v, np.bool_(v)][k % 2]
        if isinstance(v, (int, float)):
            if v == 0:
                return [v, 0, 0.0, -0.0, np.float64(-0.0), np.int64(0)][k % 6]
            if abs(v) >= 2 ** 31:
                return [v, np.int64(v) if isinstance(v, int) else np.float64(v)][k % 2]  # no float rendering of a big int: it would be another number
            if float(v) == int(v):
                return [v, int(v), float(v), np.int64(int(v)), np.float64(v), np.int32(int(v))][k % 6]
            return [v, float(v), np.float64(v)][k % 3]
        return [v, np.str_(v)][k % 2]

    def point(p, st):
        return [styled(vals[i][j % len(vals[i])], st[i] if st else 0) for i, j in enumerate(p)]

    sty_h, sty_s = case.get("styles_sampled"), case.get("styles_samples")
    with warnings.catch_warnings():
        warnings.simplefilter("ignore")
        opt = Optimizer(mk_dimensions(dims), base_estimator=None, n_initial_points=1, random_state=0)
        opt.sampled = [point(p, sty_h[i] if sty_h else None) for i, p in enumerate(case["sampled"])]
        samples = [point(p, sty_s[i] if sty_s else None) for i, p in enumerate(case["samples"])]
        got = opt._filter_duplicated([list(p) for p in samples])
    rec = Recorder()
    s, c, g = rec.tokens(opt.sampled), rec.tokens(samples), rec.tokens(got)
    want = model().call(F_FILTER, [s, c])
    new = bool(model().call(F_HASNEW, [s, c]))
    res = dict(ok=True, kind="corr", clause="", nontrivial=new and len(want) < len(c), sig={},
               desc=["fallback" if not new else "filtered", "sampled=%d" % min(len(s), 10), "dup_in_sample" if len(set(c)) < len(c) else "distinct_sample",
                     "typed" if sty_h or sty_s else "plain", "dims=" + "+".join(sorted(set(d[0] for d in dims)))])
    if g != want:
        return dict(res, ok=False, clause="filter_dup", detail=dict(sampled=s, samples=c, got=g, want=want))
    return res


def gen_filter(count):
    def g(rng, tier):
        yield dict(dims=[["int", 0, 1]], sampled=[[0], [1]], samples=[[1], [0], [1]])
        yield dict(dims=[["int", 0, 3]], sampled=[], samples=[[1], [1], [2]])
        # the history holds 1.0 (model side), the sample holds 1 (sampler side): the same configuration
        yield dict(dims=[["ordmix", [0.5, 1, 2]]], sampled=[[1]], samples=[[1], [0], [1]], styles_sampled=[[2]], styles_samples=[[0], [0], [1]])
        yield dict(dims=[["int", 0, 3], ["catf", [0.5, 1.0, 2.0]]], sampled=[[1, 1], [2, 2]], samples=[[1, 1], [2, 2], [3, 0]],
                   styles_sampled=[[3, 1], [4, 4]], styles_samples=[[0, 0], [1, 3], [2, 0]])
        yield dict(dims=[["catf", [True, False]], ["int", 0, 1]], sampled=[[0, 1]], samples=[[0, 1], [1, 1]], styles_sampled=[[1, 2]], styles_samples=[[0, 0], [0, 0]])
        for i in range(count * (3 if tier == "search" else 1)):
            dims = gen_dims(rng, 2, 30, mixed=(i % 3 == 1))
            if i % 7 == 3:
                dims = dims[:2] + [["catf", [True, False]]]
            if i % 5 == 2:
                # values one ulp / 1e-7 apart, tiny values, magnitudes past 2^53 (distinct configurations; integer categories that large cannot be declared: skopt encodes them as int32), -0.0 for 0 (the same one)
                dims = dims[:1] + [["catf", list(rng.choice(EXOTIC))]]
            N = space_size(dims)
            ns = rng.choice([0, 1, 2, N // 2, N, 2 * N])
            c = dict(dims=dims, sampled=[[rng.randrange(8) for _ in dims] for _ in range(ns)],
                     samples=[[rng.randrange(8) for _ in dims] for _ in range(rng.randint(1, 3 * N))])
            if i % 2:
                c["styles_sampled"] = [[rng.randrange(6) for _ in dims] for _ in c["sampled"]]
                c["styles_samples"] = [[rng.randrange(6) for _ in dims] for _ in c["samples"]]
            yield c
    return g


def shrink_filter(case):
    for key in ("samples", "sampled"):
        l = case[key]
        st = case.get("styles_" + key)
        for i in range(len(l)):
            if key == "sampled" or len(l) > 1:
                c = dict(case, **{key: l[:i] + l[i + 1:]})
                if st:
                    c["styles_" + key] = st[:i] + st[i + 1:]
                yield c


def streams(tier):
    th = tier == "thorough"
    ss = [
        Stream("filter_functional", gen_filter(2000 if th else 300), check_filter, shrink_filter, timeout=30),
        Stream("optimizer_histories", gen_opt(1200 if th else 120), check_opt, shrink_opt, timeout=120),
        Stream("cbo_search", gen_cbo(1200 if th else 160, ["ET", "DUMMY", "ET", "RF", "ET", "DUMMY"] if th else ["ET", "ET", "DUMMY"], big=False),
               check_cbo, shrink_cbo, timeout=300),
    ]
    ss.append(Stream("gp_pending", gen_gp_pending(80 if th else 14), check_cbo, shrink_cbo, timeout=600))
    ss.append(Stream("cbo_continuous", gen_cbo(300 if th else 24, ["ET", "DUMMY", "RF"] if th else ["ET", "ET", "DUMMY"], cont=True), check_cbo, shrink_cbo, timeout=300))
    if th:
        ss.append(Stream("cbo_search_gp", gen_cbo(60, ["GP"]), check_cbo, shrink_cbo, timeout=600))
        ss.append(Stream("cbo_continuous_gp", gen_cbo(16, ["GP"], cont=True), check_cbo, shrink_cbo, timeout=600))
    return ss
